import Hannibal.Proofs.Tactics
import Hannibal.Proofs.Run
import Hannibal.Monitor.C11T
/-
  C11, timing clauses (prompt schedules): every *prompt* run of the actor model is accepted by `monC11t`.
  A run is prompt when the virtual clock only advances while the handler invocation in progress is asleep
  (its announced work is not over) and its deadline is not due (`pstep` / `prun`).
-/
namespace Hannibal
open AState

/-- the virtual clock may advance: a handler invocation in progress is asleep (its announced work is not over) and its deadline is not due -/
def AState.clockMayAdvance (s : AState) : Bool :=
  match s.phase with
  | .handling (.handle _) _ dl =>
      (match s.busy with | some e => decide (s.clock < e) | none => false)
      && (match dl with | some d => decide (s.clock < d) | none => true)
  | _ => true

/-- `step` on prompt schedules: time only advances when the handler in progress is not runnable and no handler deadline is due -/
def pstep (w : Wiring) (s : AState) (l : Label) : Option AState :=
  match l with
  | .time _ => if s.clockMayAdvance then step w s l else none
  | _ => step w s l

def prun (w : Wiring) (s : AState) : List Label → Option AState
  | [] => some s
  | l :: ls => match pstep w s l with
    | some s' => prun w s' ls
    | none => none

theorem pstep_step {w : Wiring} {s s' : AState} {l : Label} (h : pstep w s l = some s') : step w s l = some s' := by
  unfold pstep at h
  split at h
  · split at h
    · exact h
    · simp at h
  · exact h

theorem pstep_time {w : Wiring} {s s' : AState} {t : Nat} (h : pstep w s (.time t) = some s') :
    s.clockMayAdvance = true := by
  simp only [pstep] at h
  split at h
  · assumption
  · simp at h

theorem prun_run {w : Wiring} : ∀ (ls : List Label) (s s' : AState), prun w s ls = some s' → run w s ls = some s'
  | [], s, s', h => by simpa [prun, run] using h
  | l :: ls, s, s', h => by
    simp only [prun] at h
    cases hg : pstep w s l with
    | none => simp [hg] at h
    | some s1 =>
      simp only [hg] at h
      simp only [run, pstep_step hg]
      exact prun_run ls s1 s' h

/-- lifting a one-step simulation along prompt runs -/
theorem prun_lift11t {σ : Type} (m : Mon σ) (w : Wiring) (Inv : AState → σ → Prop)
    (hstep : ∀ s s' st l, Inv s st → pstep w s l = some s' → ∃ st', m.step st l = some st' ∧ Inv s' st') :
    ∀ (ls : List Label) (s s' : AState) (st : σ), Inv s st → prun w s ls = some s' →
      ∃ st', m.run st ls = some st' ∧ Inv s' st'
  | [], s, s', st, hi, hr => by
    simp [prun] at hr; subst hr; exact ⟨st, rfl, hi⟩
  | l :: ls, s, s', st, hi, hr => by
    simp only [prun] at hr
    cases hs : pstep w s l with
    | none => simp [hs] at hr
    | some s1 =>
      simp only [hs] at hr
      obtain ⟨st1, hm, hi1⟩ := hstep s s1 st l hi hs
      obtain ⟨st', hm', hi'⟩ := prun_lift11t m w Inv hstep ls s1 s' st1 hi1 hr
      exact ⟨st', by simp [Mon.run, hm, hm'], hi'⟩

/-- while a handler invocation is open: the monitor's `cur = (m, b, wk)` determines the deadline (`b + t`),
    the clock has not passed it, and the announced work ends at `b + wk` (where the clock is, if nothing is
    announced any more) -/
def curOk11t (cur : Option (Nat × Nat × Nat)) (tmo : Option Nat) (clock : Nat) (busy : Option Nat) : Phase → Bool
  | .handling (.handle _) _ dl =>
    (match cur with
     | some (_, b, wk) =>
       dl == tmo.map (fun t => b + t)
       && (match tmo with | some t => decide (clock ≤ b + t) | none => true)
       && (match busy with
           | none => clock == b + wk
           | some e => e == b + wk && decide (clock ≤ e))
     | none => false)
  | .handling _ _ dl => dl == none
  | _ => true

structure Inv11t (c : MonCtx) (s : AState) (σ : C11tSt) : Prop where
  cfg : s.cfg = c.cfg
  clock : σ.clock = s.clock
  cur : curOk11t σ.cur (tmoOf c.cfg) s.clock s.busy s.phase = true
  idle : (s.inCallback || s.busy.isNone) = true
  canc : s.abandon.isSome = true → σ.cancelled = true

/-- labels that may change phase, clock, `busy` or `abandon` -/
def touch11t : Label → Bool
  | .cbBegin _ | .cbEnd _ _ | .cbAbandon _ | .cbPanic _ | .work _ | .time _ | .cancel | .taskDone | .taskPanic
  | .vnew _ | .tDeq | .tChanEnd | .tStreamEnd => true
  | _ => false

theorem step_frame11t (w : Wiring) {s s' : AState} {l : Label} (hl : touch11t l = false)
    (hs : step w s l = some s') :
    s'.cfg = s.cfg ∧ s'.phase = s.phase ∧ s'.clock = s.clock ∧ s'.busy = s.busy ∧ s'.abandon = s.abandon := by
  cases l <;> simp [touch11t] at hl
  all_goals unfold_steps hs
  all_goals
    ((repeat' (split at hs)) <;>
     (first
       | (simp at hs; done)
       | (simp at hs; subst hs
          simp [addOp, removeOp, removeHandle, push, setTimer]
          done)))


theorem mon_frame11t (c : MonCtx) (σ : C11tSt) {l : Label} (hl : touch11t l = false) :
    bad11t c σ l = false ∧ next11t c σ l = σ := by
  cases l <;> simp [touch11t] at hl <;> simp [bad11t, next11t]

theorem c11t_step (w : Wiring) (c : MonCtx) {s s' : AState} {σ : C11tSt} {l : Label}
    (hi : Inv11t c s σ) (hp : pstep w s l = some s') :
    bad11t c σ l = false ∧ Inv11t c s' (next11t c σ l) := by
  have hs := pstep_step hp
  cases hl : touch11t l
  · obtain ⟨h1, h2, h3, h4, h5⟩ := step_frame11t w hl hs
    obtain ⟨hb, hn⟩ := mon_frame11t c σ hl
    obtain ⟨hcfg, hclock, hcur, hidle, hcanc⟩ := hi
    refine ⟨hb, ?_⟩
    rw [hn]
    exact ⟨by rw [h1, hcfg], by rw [h3, hclock], by rw [h2, h3, h4]; exact hcur,
      by simp only [inCallback, h2, h4] at hidle ⊢; exact hidle, by rw [h5]; exact hcanc⟩
  · obtain ⟨hcfg, hclock, hcur, hidle, hcanc⟩ := hi
    cases l <;> simp [touch11t] at hl
    case time t =>
      have hm := pstep_time hp
      unfold_steps hs
      split at hs
      · rename_i hc
        obtain ⟨hc1, hc2⟩ := hc
        simp at hs; subst hs
        refine ⟨by simp [bad11t], ⟨hcfg, by simp [next11t], ?_, ?_, hcanc⟩⟩
        · simp only [next11t]
          simp only [clockMayAdvance] at hm
          simp only [timeOk, Bool.and_eq_true] at hc2
          obtain ⟨⟨hc2, hc3⟩, _⟩ := hc2
          cases hph : s.phase <;> simp only [hph] at hcur hm hc3 ⊢ <;> try exact hcur
          rename_i cb slot dl
          cases cb <;> try exact hcur
          rename_i m
          cases hcu : σ.cur with
          | none => simp [curOk11t, hcu] at hcur
          | some mb =>
            obtain ⟨m', b, wk⟩ := mb
            cases hb : s.busy <;> cases ht : tmoOf c.cfg <;>
              simp_all [curOk11t] <;> omega
        · simpa [inCallback] using hidle
      · simp at hs
    case cbBegin cb =>
      have hbad : bad11t c σ (.cbBegin cb) = false := by simp [bad11t]
      refine ⟨hbad, ?_⟩
      unfold_steps hs
      (repeat' (split at hs)) <;>
       (first
         | (simp at hs; done)
         | (simp at hs; subst hs
            refine ⟨?_, ?_, ?_, ?_, ?_⟩ <;>
              (try simp_all [next11t, curOk11t, inCallback, deadlineAt, tmoOf])
            done)
         | (simp at hs; subst hs
            cases hst : c.cfg.stream <;> cases hto : c.cfg.timeout <;>
            (refine ⟨?_, ?_, ?_, ?_, ?_⟩ <;>
              (try simp_all [next11t, curOk11t, inCallback, deadlineAt, tmoOf]))
            done))
    case cbEnd cb ok =>
      simp only [step, stepCbEnd] at hs
      split at hs
      · simp at hs
      · rename_i hwd
        simp at hwd
        have hbad : bad11t c σ (.cbEnd cb ok) = false := by
          cases cb <;> (try simp [bad11t]; done)
          rename_i m
          cases hph : s.phase <;> simp only [hph] at hs hcur <;> (try (simp at hs; done))
          rename_i cb' slot dl
          cases cb' <;> (try (simp at hs; done))
          cases hcu : σ.cur with
          | none => simp [curOk11t, hcu] at hcur
          | some mb =>
            obtain ⟨m', b, wk⟩ := mb
            cases hb : s.busy <;> cases ht : tmoOf c.cfg <;>
              simp_all [curOk11t, workDone, bad11t] <;> (intro _; omega)
        refine ⟨hbad, ?_⟩
        (repeat' (split at hs)) <;>
         (first
           | (simp at hs; done)
           | (simp at hs; subst hs
              refine ⟨?_, ?_, ?_, ?_, ?_⟩ <;>
                (try simp_all [next11t, curOk11t, inCallback, refreshTimers, killTimers, answer])
              done)
           | (simp at hs; subst hs
              unfold answer
              split <;>
              (refine ⟨?_, ?_, ?_, ?_, ?_⟩ <;>
                (try simp_all [next11t, curOk11t, inCallback]))
              done)
           | (simp at hs; subst hs
              unfold refreshTimers
              split <;>
              (refine ⟨?_, ?_, ?_, ?_, ?_⟩ <;>
                (try simp_all [next11t, curOk11t, inCallback, killTimers]))
              done))
    case cbAbandon cb =>
      simp only [step, stepCbAbandon] at hs
      cases hph : s.phase <;> simp only [hph] at hs hcur <;> (try (simp at hs; done))
      case handling cb' slot dl =>
        cases dl with
        | none => simp at hs
        | some d =>
          simp only at hs
          split at hs
          · rename_i hc
            simp at hc
            obtain ⟨rfl, hdl⟩ := hc
            cases cb with
            | handle m =>
              cases hcu : σ.cur with
              | none => simp [curOk11t, hcu] at hcur
              | some mb =>
                obtain ⟨m', b, wk⟩ := mb
                cases ht : tmoOf c.cfg with
                | none => simp [curOk11t, hcu, ht] at hcur
                | some t =>
                  have hbad : bad11t c σ (.cbAbandon (.handle m)) = false := by
                    cases hb : s.busy <;> cases hcc : σ.cancelled <;>
                      simp_all [curOk11t, bad11t] <;> (intro _; omega)
                  refine ⟨hbad, ?_⟩
                  split at hs <;> simp at hs <;> subst hs <;>
                    (cases hcc : σ.cancelled <;>
                      (refine ⟨?_, ?_, ?_, ?_, ?_⟩ <;>
                        (try simp_all [next11t, curOk11t, inCallback, cancelSlots])))
            | started | item | finished | stopped => simp [curOk11t] at hcur
          · simp at hs
      case done g =>
        cases g <;> simp at hs
        obtain ⟨hab, rfl⟩ := hs
        have hc : σ.cancelled = true := hcanc (by simp [hab])
        have hbad : bad11t c σ (.cbAbandon cb) = false := by
          cases cb <;> simp [bad11t, hc]
        refine ⟨hbad, ?_⟩
        cases cb <;>
          (refine ⟨?_, ?_, ?_, ?_, ?_⟩ <;>
            (try simp_all [next11t, curOk11t, inCallback]))
    case work d =>
      unfold_steps hs
      split at hs
      · rename_i hc
        simp at hs; subst hs
        simp only [Bool.and_eq_true] at hc
        obtain ⟨hc1, hc2⟩ := hc
        have hcl : (next11t c σ (.work d)).clock = σ.clock := by
          simp only [next11t]; split <;> rfl
        have hca : (next11t c σ (.work d)).cancelled = σ.cancelled := by
          simp only [next11t]; split <;> rfl
        refine ⟨by simp [bad11t], ⟨hcfg, by rw [hcl]; exact hclock, ?_, ?_, by rw [hca]; exact hcanc⟩⟩
        · simp only [next11t]
          cases hph : s.phase <;> simp only [hph] at hcur ⊢ <;> (try (cases hcu : σ.cur <;> simp_all [curOk11t]; done))
          rename_i cb slot dl
          cases cb <;> (try (cases hcu : σ.cur <;> simp_all [curOk11t]; done))
          cases hcu : σ.cur with
          | none => simp [curOk11t, hcu] at hcur
          | some mb =>
            obtain ⟨m', b, wk⟩ := mb
            cases hb : s.busy <;> cases ht : tmoOf c.cfg <;>
              simp_all [curOk11t, workDone] <;> omega
        · simp [inCallback] at hc1 ⊢; simp [hc1]
      · simp at hs
    all_goals unfold_steps hs
    all_goals
      ((repeat' (split at hs)) <;>
       (first
         | (simp at hs; done)
         | (simp at hs; subst hs
            refine ⟨?_, ⟨?_, ?_, ?_, ?_, ?_⟩⟩ <;>
              (try simp_all [bad11t, next11t, curOk11t, inCallback, fail, finish, cancelSlots, killTimers, openCb, curSlot, isDone])
            done)))


theorem c11t_init (c : MonCtx) : Inv11t c (AState.init c.cfg c.h0 c.k0) (monC11t c).init := by
  refine ⟨rfl, rfl, ?_, ?_, ?_⟩ <;> simp [monC11t, AState.init, curOk11t, inCallback]

/-- **C11, timing on prompt schedules.** On every run of the model in which the virtual clock only advances
    while the handler invocation in progress is asleep and its deadline is not due (`prun`), for every timeout
    value, announced work, message sequence, mailbox kind: a handler invocation that completes had announced
    work ≤ t, and a handler invocation that is abandoned (other than by a cancellation of the task) had announced
    work ≥ t and is abandoned exactly at begin + t. -/
theorem C11t_holds (w : Wiring) (c : MonCtx) (ls : List Label) (s : AState)
    (hr : prun w (AState.init c.cfg c.h0 c.k0) ls = some s) : (monC11t c).ok ls = true := by
  unfold Mon.ok
  obtain ⟨st', hm, _⟩ := prun_lift11t (monC11t c) w (Inv11t c)
    (fun s s' σ l hi hs => by
      obtain ⟨hb, hi'⟩ := c11t_step w c hi hs
      exact ⟨next11t c σ l, by simp [monC11t, hb], hi'⟩)
    ls _ s (monC11t c).init (c11t_init c) hr
  simp [hm]

/-- Non-vacuity (monitor side): with t = 5, an invocation announcing 3 completes at begin + 3, one announcing 9 is
    abandoned exactly at begin + 5, a third one is still handled. -/
def c11tCfg : Cfg := { cap := none, strat := .only, timeout := some 5, failOnTimeout := false, stream := false }
def c11tCtx : MonCtx := { cfg := c11tCfg, h0 := 0, k0 := .addr, prompt := true }
def c11tExample : List Label :=
  [ .cbBegin .started, .cbEnd .started true, .begin 0 0 (.send 1), .begin 1 0 (.send 2), .begin 2 0 (.send 3),
    .cbBegin (.handle 1), .work 3, .time 3, .cbEnd (.handle 1) true,
    .cbBegin (.handle 2), .work 9, .time 8, .cbAbandon (.handle 2),
    .cbBegin (.handle 3), .cbEnd (.handle 3) true ]
example : (monC11t c11tCtx).ok c11tExample = true := by decide
example : (monC11p c11tCtx).ok c11tExample = true := by decide
/-- bad: abandoned before begin + t -/
example : (monC11t c11tCtx).ok [ .cbBegin .started, .cbEnd .started true, .begin 0 0 (.send 1),
    .cbBegin (.handle 1), .work 9, .time 4, .cbAbandon (.handle 1) ] = false := by decide
/-- bad: an invocation that needs more than t completes -/
example : (monC11t c11tCtx).ok [ .cbBegin .started, .cbEnd .started true, .begin 0 0 (.send 1),
    .cbBegin (.handle 1), .work 9, .time 9, .cbEnd (.handle 1) true ] = false := by decide
/-- bad: an invocation that needs less than t is abandoned -/
example : (monC11t c11tCtx).ok [ .cbBegin .started, .cbEnd .started true, .begin 0 0 (.send 1),
    .cbBegin (.handle 1), .work 3, .time 3, .time 5, .cbAbandon (.handle 1) ] = false := by decide
/-- not flagged: the invocation is cut short by a cancellation of the task -/
example : (monC11t c11tCtx).ok [ .cbBegin .started, .cbEnd .started true, .begin 0 0 (.send 1),
    .cbBegin (.handle 1), .work 3, .time 2, .cancel, .cbAbandon (.handle 1) ] = true := by decide
/-- without `prompt` nothing is flagged -/
example : (monC11t { c11tCtx with prompt := false }).ok [ .cbBegin .started, .cbEnd .started true, .begin 0 0 (.send 1),
    .cbBegin (.handle 1), .work 3, .time 3, .time 5, .cbAbandon (.handle 1) ] = true := by decide

end Hannibal
