import Hannibal.Proofs.C03Q
import Hannibal.Proofs.Run
import Hannibal.Monitor.C03
/-
  C03q (graceful end): every run of the actor model is accepted by `monC03q`.  No wiring hypothesis.

  An accepted stop request puts a `stop` entry into the mailbox of a loop whose receiver exists; the entry
  stays there until the loop takes it (and leaves) or the loop task ends.  A quiet state has the loop parked
  on an empty mailbox or the task done; hence after an accepted stop request a quiet state is a state of a
  finished task, and absent failure events the task ended through a completed `stopped`.
-/
namespace Hannibal
open AState

/-- the monitor's update as a function of the label (all labels but `quiescent`) -/
def next03q (c : MonCtx) (σ : C03qSt) (l : Label) : C03qSt :=
  { graceful := σ.graceful || isStopAcc l,
    sawFailure := σ.sawFailure || l.fails c.cfg.failOnTimeout,
    ended := (match l with | .taskDone => σ.stoppedDone | _ => σ.ended),
    stoppedDone := (match l with | .cbEnd .stopped _ => true | .cbBegin _ => false | _ => σ.stoppedDone) }

theorem mon03q_eq (c : MonCtx) (σ : C03qSt) (l : Label) (hl : ∀ p, l ≠ .quiescent p) :
    (monC03q c).step σ l = some (next03q c σ l) := by
  obtain ⟨g, f, e, d⟩ := σ
  cases l
  case quiescent p => exact absurd rfl (hl p)
  case stopReq h ok => cases ok <;> simp [monC03q, next03q, isStopAcc, Label.fails, Label.isFailure]
  case ctxStop ok => cases ok <;> simp [monC03q, next03q, isStopAcc, Label.fails, Label.isFailure]
  case cbEnd cb ok =>
    cases cb <;> cases ok <;> simp [monC03q, next03q, isStopAcc, Label.fails, Label.isFailure]
  case cbAbandon cb =>
    cases hf : c.cfg.failOnTimeout <;> simp [monC03q, next03q, isStopAcc, Label.fails, Label.isFailure, hf]
  all_goals simp [monC03q, next03q, isStopAcc, Label.fails, Label.isFailure]

/-- what the monitor state must say about a loop that has returned -/
def endOk (σ : C03qSt) : Phase → Bool
  | .exiting true => σ.stoppedDone
  | .done true => σ.ended
  | .exiting false | .done false => σ.sawFailure
  | _ => true

structure C03qInv (c : MonCtx) (s : AState) (σ : C03qSt) : Prop where
  cfg : s.cfg = c.cfg
  fin : endOk σ s.phase = true
  stop : σ.graceful = true → σ.sawFailure = false → loopAlive s.phase = true → 0 < cntP isStopP s

theorem endOk_failed {σ : C03qSt} {p : Phase} (h : endOk σ p = true) (hf : failedPh p = true) :
    σ.sawFailure = true := by
  cases p <;> (try simp [failedPh] at hf)
  all_goals (rename_i g; cases g <;> simp [failedPh] at hf <;> simpa [endOk] using h)

theorem endOk_step (w : Wiring) (c : MonCtx) {s s' : AState} {σ : C03qSt} {l : Label}
    (hcfg : s.cfg = c.cfg) (hfin : endOk σ s.phase = true) (hs : step w s l = some s') :
    endOk (next03q c σ l) s'.phase = true := by
  cases hp' : s'.phase <;> simp only [endOk]
  case exiting g =>
    cases g
    · -- about to end as failed
      rcases step_failed hs (by simp [hp', failedPh]) with h | h
      · have : σ.sawFailure = true := endOk_failed hfin h
        simp [next03q, this]
      · rw [hcfg] at h; simp [next03q, h]
    · rcases step_exiting hs hp' with ⟨h1, h2⟩ | h
      · have hd : σ.stoppedDone = true := by simpa [h1, endOk] using hfin
        cases l <;> simp [Label.isCbBegin] at h2 <;> simp [next03q, hd]
        case cbEnd cb ok => cases cb <;> simp
      · subst h; simp [next03q]
  case done g =>
    cases g
    · rcases step_failed hs (by simp [hp', failedPh]) with h | h
      · have : σ.sawFailure = true := endOk_failed hfin h
        simp [next03q, this]
      · rw [hcfg] at h; simp [next03q, h]
    · rcases step_doneTrue hs hp' with ⟨h1, h2⟩ | ⟨h1, h2⟩
      · have hd : σ.ended = true := by simpa [h1, endOk] using hfin
        cases l <;> simp at h2 <;> simp [next03q, hd]
      · subst h1
        have hd : σ.stoppedDone = true := by simpa [h2, endOk] using hfin
        simp [next03q, hd]

theorem c03q_step (w : Wiring) (c : MonCtx) {s s' : AState} {σ : C03qSt} {l : Label}
    (hi : C03qInv c s σ) (hs : step w s l = some s') :
    ∃ σ', (monC03q c).step σ l = some σ' ∧ C03qInv c s' σ' := by
  by_cases hq : ∃ p, l = .quiescent p
  · obtain ⟨p, rfl⟩ := hq
    simp only [step, stepQuiescent] at hs
    split at hs
    · rename_i hc
      simp at hs; subst hs
      simp only [Bool.and_eq_true] at hc
      have hquiet := hc.1.1
      unfold quiet at hquiet
      simp only [Bool.and_eq_true] at hquiet
      have hph := hquiet.1.1
      have hok : ¬ (σ.graceful && !σ.sawFailure && !σ.ended) = true := by
        intro hb
        simp only [Bool.and_eq_true, Bool.not_eq_true'] at hb
        obtain ⟨⟨hg, hf⟩, he⟩ := hb
        have hfin := hi.fin
        cases hp : s.phase <;> simp [hp] at hph
        case done g =>
          cases g <;> simp [hp, endOk] at hfin
          · rw [hfin] at hf; exact absurd hf (by simp)
          · rw [hfin] at he; exact absurd he (by simp)
        case idle =>
          have := hi.stop hg hf (by simp [hp, loopAlive])
          have hqe : s.chan.queue = [] := by simpa using hph.1.1
          simp [cntP, hqe] at this
      exact ⟨σ, by simp only [monC03q, if_neg hok], hi⟩
    · simp at hs
  · have hnq : ∀ p, l ≠ .quiescent p := fun p e => hq ⟨p, e⟩
    refine ⟨next03q c σ l, mon03q_eq c σ l hnq, ⟨?_, endOk_step w c hi.cfg hi.fin hs, ?_⟩⟩
    · rw [(step_cfg_stream hs).1]; exact hi.cfg
    · intro hg hf hl
      simp only [next03q, Bool.or_eq_true, Bool.or_eq_false_iff] at hg hf
      by_cases hacc : isStopAcc l = true
      · exact stopAcc_cnt hs hacc
      · have hg' : σ.graceful = true := by
          rcases hg with h | h
          · exact h
          · exact absurd h hacc
        have := hi.stop hg' hf.1 (loopAlive_back hs hl)
        have hk := step_stop_keep hs hl
        omega

theorem c03q_init (c : MonCtx) : C03qInv c (AState.init c.cfg c.h0 c.k0) (monC03q c).init := by
  refine ⟨rfl, by simp [AState.init, endOk], ?_⟩
  intro hg; simp [monC03q] at hg

/-- **C03q (graceful end).** For every client program, interleaving, restart strategy, plain or
    stream-attached loop: whenever nothing about the actor can move any more (`quiescent`), if a stop request
    was accepted (`Addr::stop` / `WeakAddr::try_stop` / `Context::stop` returning `Ok`) and no failure event
    occurred (no panic in a callback or in the task, no cancellation, no failed `started`, no abandoned handler
    under `fail_on_timeout`), then the actor's task has ended, and it ended right after a completed `stopped`
    callback with no other callback begun in between. -/
theorem C03q_holds (w : Wiring) (c : MonCtx) (ls : List Label) (s : AState)
    (hr : run w (AState.init c.cfg c.h0 c.k0) ls = some s) : (monC03q c).ok ls = true :=
  ok_of_run_lift (monC03q c) w (C03qInv c) (fun _ _ _ _ hi hs => c03q_step w c hi hs) _ (c03q_init c) ls s hr

/-- Non-vacuity: a stop request behind a message, the actor ends gracefully and is then quiescent; a
    quiescent point with the stop request still unserved, and an end that skipped `stopped`, are flagged. -/
def c03qCfg : Cfg := { cap := none, strat := .only, timeout := none, failOnTimeout := false, stream := false }
def c03qCtx : MonCtx := { cfg := c03qCfg, h0 := 0, k0 := .addr, prompt := true }
def c03qExample : List Label :=
  [ .cbBegin .started, .cbEnd .started true, .begin 0 0 (.send 1), .stopReq 0 true, .ret 0 .ok,
    .cbBegin (.handle 1), .cbEnd (.handle 1) true, .tDeq, .cbBegin .stopped, .cbEnd .stopped true, .taskDone,
    .drop 0, .quiescent [] ]
example : (monC03q c03qCtx).ok c03qExample = true := by decide
example : (monC03q c03qCtx).ok [ .cbBegin .started, .cbEnd .started true, .stopReq 0 true, .quiescent [] ] = false := by
  decide
example : (monC03q c03qCtx).ok [ .cbBegin .started, .cbEnd .started true, .stopReq 0 true, .tDeq, .taskDone,
    .quiescent [] ] = false := by decide
example : (monC03q c03qCtx).ok [ .cbBegin .started, .cbEnd .started true, .stopReq 0 true, .tDeq,
    .cbBegin .stopped, .cbEnd .stopped true, .cbBegin .started, .taskDone, .quiescent [] ] = false := by decide

end Hannibal
