import Hannibal.Props.C14
/- C14 for the wiring extracted from today's source (re-checked on every run). -/
namespace Hannibal

theorem wellWired14_current : WellWired14 Wiring.current := by decide

theorem C14_current (c : MonCtx) (ls : List Label) (s : AState)
    (hr : run Wiring.current (AState.init c.cfg c.h0 c.k0) ls = some s) : (monC14 c).ok ls = true :=
  C14_holds _ wellWired14_current c ls s hr

end Hannibal
