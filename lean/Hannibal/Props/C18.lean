import Hannibal.Model.Spawn
/-
  C18 — spawn / detach / join behave identically on tokio, async-std and smol.

  If no spawn entry point drops the task handle, no spawner installs a detach closure that could take the task
  away from a join future that has not been polled yet, and every spawner whose runtime cancels a task when its
  handle is dropped wraps the handle in a guard that detaches instead, then for every entry point and every
  program of drop / detach / stop / call / join / joinCreate / joinPoll / joinAwait / joinDrop operations — any
  length — the observable outcome is the same on every runtime, and every entry point leaves the actor running.
-/
namespace Hannibal

def WellWired18 (w : SpawnWiring) : Prop :=
  w.lazySharedSlot = true ∧ w.joinDetachPlain = true ∧
  (∀ e, w.disp e = .kept ∨ w.disp e = .detached) ∧
  (∀ r, w.detachFn r = false) ∧
  (∀ r, dropCancels r = true → w.taskGuarded r = true)

theorem dropTask_id (w : SpawnWiring) (hw : WellWired18 w) (r : Runtime) (t : TaskSt) :
    dropTask w r t = t := by
  unfold dropTask
  cases hc : dropCancels r
  · simp
  · simp [hw.2.2.2.2 r hc]

theorem runDetachFn_id (w : SpawnWiring) (hw : WellWired18 w) (r : Runtime) (s : S18) :
    s.runDetachFn w r = s := by
  simp [S18.runDetachFn, hw.2.2.2.1 r]

theorem release_indep (w : SpawnWiring) (hw : WellWired18 w) (r : Runtime) (s : S18) :
    s.release w r = s.release w .tokio := by
  simp [S18.release, dropTask_id w hw]

theorem pollLast_indep (w : SpawnWiring) (hw : WellWired18 w) (r : Runtime) (s : S18) :
    pollLast w r s = pollLast w .tokio s := by
  unfold pollLast
  simp [release_indep w hw r]

theorem step18_indep (w : SpawnWiring) (hw : WellWired18 w) (r : Runtime) (s : S18) (op : Op18) :
    step18 w r s op = step18 w .tokio s op := by
  cases op <;>
    simp [step18, dropTask_id w hw, runDetachFn_id w hw, release_indep w hw r, pollLast_indep w hw r]

theorem run18_indep (w : SpawnWiring) (hw : WellWired18 w) (r : Runtime) :
    ∀ (p : List Op18) (s : S18), run18 w r s p = run18 w .tokio s p
  | [], _ => rfl
  | op :: ops, s => by
    simp only [run18, step18_indep w hw r s op]
    cases h : (step18 w .tokio s op).2 <;> simp [run18_indep w hw r ops]

theorem afterSpawn_indep (w : SpawnWiring) (hw : WellWired18 w) (r : Runtime) (e : SpawnEntry) :
    afterSpawn w r e = afterSpawn w .tokio e ∧ (afterSpawn w r e).task = .running := by
  unfold afterSpawn
  rcases hw.2.2.1 e with h | h <;>
    simp [h, runDetachFn_id w hw, S18.release, dropTask_id w hw]

/-- **C18.** -/
theorem C18_holds (w : SpawnWiring) (hw : WellWired18 w) (r : Runtime) (e : SpawnEntry) (p : List Op18) :
    outcome w r e p = outcome w .tokio e p ∧ (afterSpawn w r e).task = .running := by
  unfold outcome
  rw [(afterSpawn_indep w hw r e).1, run18_indep w hw r]
  exact ⟨rfl, (afterSpawn_indep w hw .tokio e).2⟩

/-! Each hypothesis is needed. -/

/-- a wiring that satisfies `WellWired18` (what the repaired source looks like) -/
def goodWiring : SpawnWiring :=
  { disp := fun e => match e with
      | .spawnOwning | .spawnOwningDefault | .spawnOwningOnStream | .builderSpawnOwning
      | .streamBuilderSpawnOwning | .spawnWith => .kept
      | _ => .detached
    handleDropDetaches := true, detachFn := fun _ => false, taskGuarded := fun r => r == .smol,
    lazySharedSlot := true, joinDetachPlain := true }

theorem goodWiring_ok : WellWired18 goodWiring := by
  refine ⟨rfl, rfl, ?_, fun _ => rfl, ?_⟩
  · intro e; cases e <;> simp [goodWiring]
  · intro r; cases r <;> simp [dropCancels, goodWiring]

/-- an entry point that drops the handle (and no `Drop` impl, no guard): a cancelled actor on smol, a running
    one on tokio -/
def badWiring : SpawnWiring :=
  { goodWiring with disp := fun _ => .dropped, handleDropDetaches := false, taskGuarded := fun _ => false }
example : outcome badWiring .smol .streamBuilderSpawn [.call] = [.callErr] := by decide
example : outcome badWiring .tokio .streamBuilderSpawn [.call] = [.callOk] := by decide

/-- smol's task handle unguarded: a join future that was polled once and then dropped (a join with a timeout)
    cancels the actor on smol only -/
def unguarded : SpawnWiring := { goodWiring with taskGuarded := fun _ => false }
example : outcome unguarded .smol .spawnOwning [.joinCreate, .joinPoll, .joinDrop, .call]
    = [.joinPending, .callErr] := by decide
example : outcome unguarded .tokio .spawnOwning [.joinCreate, .joinPoll, .joinDrop, .call]
    = [.joinPending, .callOk] := by decide

/-- a detach closure on smol (run by `detach` and by the handle's `Drop`): it takes the task away from a join
    future that was created before (`consume_sync`), which then resolves to `None` on smol only -/
def stealing : SpawnWiring := { goodWiring with detachFn := fun r => r == .smol }
example : outcome stealing .smol .spawnOwning [.stop, .joinCreate, .dropOwner, .joinAwait] = [.joinNone] := by decide
example : outcome stealing .tokio .spawnOwning [.stop, .joinCreate, .dropOwner, .joinAwait] = [.joinSome] := by decide
example : outcome stealing .smol .spawnOwning [.joinCreate, .detach, .call, .stop, .joinAwait]
    = [.callOk, .joinNone] := by decide

/-- non-trivial programs on a well-wired source: the same on every runtime -/
example : outcome goodWiring .smol .spawnOwning [.joinCreate, .joinPoll, .joinDrop, .call, .stop, .join]
    = [.joinPending, .callOk, .joinNone] := by decide
example : outcome goodWiring .smol .spawnOwning [.call, .stop, .join, .join] = [.callOk, .joinSome, .joinNone] := by
  decide

end Hannibal
