import Hannibal.Model.Spawn
/-
  C18 — spawn / detach / join behave identically on tokio, async-std and smol.

  If no spawn entry point drops the task handle and dropping hannibal's
  `ActorHandle` detaches, then for every entry point and every program of
  drop / detach / stop / call / join operations — any length — the observable
  outcome is the same on every runtime, and every entry point leaves the actor
  running.
-/
namespace Hannibal

def WellWired18 (w : SpawnWiring) : Prop :=
  w.handleDropDetaches = true ∧ ∀ e, w.disp e = .kept ∨ w.disp e = .detached

theorem dropHandle_id (w : SpawnWiring) (hw : w.handleDropDetaches = true) (r : Runtime) (t : TaskSt) :
    dropHandle w r t = t := by simp [dropHandle, hw]

theorem step18_indep (w : SpawnWiring) (hw : w.handleDropDetaches = true) (r : Runtime) (s : S18) (op : Op18) :
    step18 w r s op = step18 w .tokio s op := by
  cases op <;> simp [step18, dropHandle_id w hw]

theorem run18_indep (w : SpawnWiring) (hw : w.handleDropDetaches = true) (r : Runtime) :
    ∀ (p : List Op18) (s : S18), run18 w r s p = run18 w .tokio s p
  | [], _ => rfl
  | op :: ops, s => by
    simp only [run18, step18_indep w hw r s op]
    cases h : (step18 w .tokio s op).2 <;> simp [run18_indep w hw r ops]

theorem afterSpawn_indep (w : SpawnWiring) (hw : WellWired18 w) (r : Runtime) (e : SpawnEntry) :
    afterSpawn w r e = afterSpawn w .tokio e ∧ (afterSpawn w r e).task = .running := by
  unfold afterSpawn
  rcases hw.2 e with h | h <;> simp [h]

/-- **C18.** -/
theorem C18_holds (w : SpawnWiring) (hw : WellWired18 w) (r : Runtime) (e : SpawnEntry) (p : List Op18) :
    outcome w r e p = outcome w .tokio e p ∧ (afterSpawn w r e).task = .running := by
  unfold outcome
  rw [(afterSpawn_indep w hw r e).1, run18_indep w hw.1 r]
  exact ⟨rfl, (afterSpawn_indep w hw .tokio e).2⟩

/-- Without the two facts the property fails: an entry point that drops the handle leaves a
    cancelled actor on smol and a running one on tokio. -/
def badWiring : SpawnWiring := { disp := fun _ => .dropped, handleDropDetaches := false }
example : outcome badWiring .smol .streamBuilderSpawn [.call] = [.callErr] := by decide
example : outcome badWiring .tokio .streamBuilderSpawn [.call] = [.callOk] := by decide

end Hannibal
