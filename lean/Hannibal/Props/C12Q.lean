import Hannibal.Proofs.C05QLite
import Hannibal.Props.C02
import Hannibal.Monitor.C12Q
/-
  C12, "every send still returns once the actor has caught up or terminated": for every wiring, every run of
  the actor model whose `begin` labels carry pairwise distinct operation ids is accepted by `monC12q`:

    at a `quiescent pend` label no send-like operation (`send` / `try_send`) begun earlier is in `pend`.

  Why: `quiescent` is accepted only in a quiet state.  There the mailbox queue is empty (the loop is parked on
  an empty mailbox, or the actor is done and `Receiver::drop` emptied it: `DoneChan`), so by the channel
  invariant `Chan.WF` (the parked tokens are the tokens of the queue entries beyond the buffer) nobody is
  parked.  A recorded send-like operation is `pending` or `failed` (`stOk`, part of the C02 coupling, used
  here as a ghost invariant `Lite02`), so it could return (`retExpect ≠ none`) — but in a quiet state no
  recorded operation can.  Hence no recorded operation is send-like, and by freshness of the operation ids an
  id the monitor remembers as a send can only be recorded as that send.

  The hypothesis `opIdsFresh` is needed (witnesses in `Props/C12QCurrent.lean`): `c12q_reuse_simple` re-uses
  the id of a returned send for an `await`, which is legitimately outstanding at quiescence;
  `c12q_reuse_witness` re-uses the id of a dropped call for a send, which the call's reply slot then cancels.
  Both are runs of the model that `monC12q` rejects.  Nothing is left trace-only; the monitor is unchanged.
-/
set_option linter.unusedSimpArgs false
set_option linter.unusedVariables false
namespace Hannibal
open AState

/-- every id the monitor remembers as a send is, in the ghost C02 state, the id of a send-like `begin` -/
def SendsOk12q (σ : C12qSt) (σ2 : C02St) : Prop :=
  ∀ o ∈ σ.sends, ∃ k late, lookup o σ2.ops = some (k, late) ∧ (isSendKind k).isSome = true

structure C12qInv (s : AState) (σ : C12qSt) (σ2 : C02St) : Prop where
  i2 : Lite02 s σ2
  sends : SendsOk12q σ σ2

/-- with nobody parked, a recorded send-like operation can return -/
theorem send_returns12q {s : AState} {fin : List Nat} (hpk : s.chan.parked = []) {r : OpRec}
    (hk : (isSendKind r.kind).isSome = true) (hst : stOk fin r.kind r.st = true) :
    s.retExpect r ≠ none := by
  unfold retExpect
  cases hs : r.st <;> cases hk' : r.kind <;>
    simp [hs, hk', isSendKind, stOk, OpKind.isCall, Chan.isParked, hpk] at hk hst ⊢

/-- in a quiet state no recorded operation is send-like -/
theorem quiet_no_send12q {w : Wiring} {s : AState} {σ2 : C02St} (hi : Lite02 s σ2) (hq : s.quiet w = true)
    {r : OpRec} (hr : r ∈ s.ops) : (isSendKind r.kind).isSome = false := by
  obtain ⟨hqe, _, hnone⟩ := quiet_facts hq hi.dchan
  have hpk := parked_nil_of_wf hi.wf hqe
  obtain ⟨late, _, _, _, h4⟩ := opOk_parts (hi.ops r hr)
  cases hk : (isSendKind r.kind).isSome
  · rfl
  · exact absurd (hnone r hr) (send_returns12q hpk hk h4)

/-- the clause itself: a `quiescent` label of the model is accepted -/
theorem quiescent_ok12q {w : Wiring} {s s' : AState} {σ : C12qSt} {σ2 : C02St} {pend : List Nat}
    (hi : C12qInv s σ σ2) (hs : s.stepQuiescent w pend = some s') : bad12q σ (.quiescent pend) = false := by
  unfold stepQuiescent at hs
  split at hs
  · rename_i hc
    simp only [Bool.and_eq_true] at hc
    obtain ⟨⟨hq, hpend⟩, _⟩ := hc
    simp only [bad12q]
    apply List.any_eq_false.mpr
    intro o ho hcon
    have hmem : o ∈ σ.sends := by simpa using hcon
    obtain ⟨k, late, hl, hk⟩ := hi.sends o hmem
    have hf := List.all_eq_true.mp hpend o ho
    cases hfo : s.findOp o with
    | none => simp [hfo] at hf
    | some r =>
      obtain ⟨hr, hro⟩ := findOp_some_mem hfo
      obtain ⟨late', h1, _⟩ := opOk_parts (hi.i2.ops r hr)
      rw [hro, hl] at h1
      have hkk : k = r.kind := by injection h1 with h1; exact (Prod.mk.inj h1).1
      rw [hkk, quiet_no_send12q hi.i2 hq hr] at hk
      cases hk
  · simp at hs

theorem sends_step12q {σ : C12qSt} {σ2 : C02St} {l : Label} (hf : freshFor σ2 l) (h : SendsOk12q σ σ2) :
    SendsOk12q (next12q σ l) (next02 σ2 l) := by
  have hold : ∀ o ∈ σ.sends, ∃ k late, lookup o (next02 σ2 l).ops = some (k, late) ∧
      (isSendKind k).isSome = true := by
    intro o ho
    obtain ⟨k, late, hl, hk⟩ := h o ho
    exact ⟨k, late, lookup_next02 hf hl, hk⟩
  cases l <;> try exact hold
  rename_i o' h' k'
  intro o ho
  simp only [next12q] at ho
  split at ho
  · rename_i hk
    simp at ho
    rcases ho with rfl | ho
    · exact ⟨k', σ2.terminated, by simp [lookup], hk⟩
    · exact hold o ho
  · exact hold o ho

theorem c12q_step {w : Wiring} {s s' : AState} {σ : C12qSt} {σ2 : C02St} {l : Label}
    (hi : C12qInv s σ σ2) (hf : freshFor σ2 l) (hs : step w s l = some s') :
    bad12q σ l = false ∧ C12qInv s' (next12q σ l) (next02 σ2 l) := by
  refine ⟨?_, lite02_step w hi.i2 hf hs, sends_step12q hf hi.sends⟩
  cases l <;> try rfl
  case quiescent pend =>
    simp only [step] at hs
    exact quiescent_ok12q hi hs

theorem c12q_init (c : MonCtx) : C12qInv (AState.init c.cfg c.h0 c.k0) monC12q.init C02St.init :=
  ⟨lite02_init c, by intro o ho; simp [monC12q] at ho⟩

/-- lifting to runs whose `begin` labels carry fresh operation ids -/
theorem c12q_run (w : Wiring) (c : MonCtx) :
    ∀ (ls : List Label) (s s' : AState) (σ : C12qSt) (σ2 : C02St) (seen : List Nat),
      C12qInv s σ σ2 → SeenOk σ2 seen →
      run w s ls = some s' → ((monC02wf c).run seen ls).isSome = true →
      (monC12q.run σ ls).isSome = true
  | [], _, _, _, _, _, _, _, _, _ => by simp [Mon.run]
  | l :: ls, s, s', σ, σ2, seen, hi, hseen, hr, hwf => by
    simp only [run] at hr
    cases hs : step w s l with
    | none => simp [hs] at hr
    | some s1 =>
      simp only [hs] at hr
      simp only [Mon.run] at hwf ⊢
      cases hws : (monC02wf c).step seen l with
      | none => simp [hws] at hwf
      | some seen1 =>
        simp only [hws] at hwf
        obtain ⟨hb, hi1⟩ := c12q_step hi (wf_fresh hseen hws) hs
        have hm : monC12q.step σ l = some (next12q σ l) := by simp [monC12q, hb]
        simp only [hm]
        exact c12q_run w c ls s1 s' _ _ seen1 hi1 (wf_seen hseen hws) hr hwf

/-- **C12, every send returns once the actor has caught up or terminated.**  For every wiring, every run of
    the actor model whose `begin` labels carry pairwise distinct operation ids is accepted by `monC12q`:
    whenever the run reaches quiescence, no send-like operation begun earlier is still outstanding. -/
theorem C12q_holds (w : Wiring) (c : MonCtx) (ls : List Label) (s : AState)
    (hr : run w (AState.init c.cfg c.h0 c.k0) ls = some s) (hwf : opIdsFresh ls = true) :
    monC12q.ok ls = true := by
  unfold Mon.ok
  exact c12q_run w c ls _ s monC12q.init C02St.init [] (c12q_init c) seenOk_init
    hr (by simpa [opIdsFresh, Mon.ok, monC02wf] using hwf)

/-! ### non-vacuity of the monitor (the runs of `Wiring.current` are in `Props/C12QCurrent.lean`) -/

/-- bounded mailbox, three sends, everything handled, all returned -/
def c12qGood : List Label :=
  [ .cbBegin .started, .cbEnd .started true,
    .begin 0 0 (.send 7), .begin 1 0 (.send 8), .begin 2 0 (.send 9),
    .ret 0 .ok,
    .cbBegin (.handle 7), .cbEnd (.handle 7) true, .ret 1 .ok,
    .cbBegin (.handle 8), .cbEnd (.handle 8) true, .ret 2 .ok,
    .cbBegin (.handle 9), .cbEnd (.handle 9) true,
    .quiescent [] ]

example : monC12q.ok c12qGood = true := by decide
example : opIdsFresh c12qGood = true := by decide

/-- an await may be outstanding at quiescence, a send may not -/
example : monC12q.ok [ .begin 0 0 (.send 7), .ret 0 .ok, .begin 1 0 .await, .quiescent [1] ] = true := by decide
example : monC12q.ok [ .begin 0 0 (.send 7), .quiescent [0] ] = false := by decide
example : monC12q.ok [ .begin 0 0 .await, .begin 1 0 (.send 7), .begin 2 1 (.trySend 8), .ret 1 .ok,
    .quiescent [0, 2] ] = false := by decide
/-- the monitor never forgets a send: a returned send still listed as pending is rejected -/
example : monC12q.ok [ .begin 0 0 (.send 7), .ret 0 .ok, .quiescent [0] ] = false := by decide

end Hannibal
