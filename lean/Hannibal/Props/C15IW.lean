import Hannibal.Proofs.Timers
import Hannibal.Proofs.Run
import Hannibal.Monitor.C15
/-
  C15 (`interval_with` timers): for every wiring in which each strong handle kind owns both halves of the
  channel, every run of the actor model is accepted by `monC15iw`: an `interval_with` timer of the running
  incarnation whose closure last ran while a strong handle was held does not end, unless the actor became
  quiet (a stop was issued, its stream ended, it failed or terminated).
  The closure's `fire` upgrades the timer's weak sender: with a strong handle held the upgrade succeeds and
  the timer task goes on (`sending`, then asleep again); it can then only be ended by an abort, and aborts
  happen at termination, failure (quiet) or in `refresh` (after `stopped`, which empties the table).
-/
set_option linter.unusedSimpArgs false
set_option linter.unusedVariables false
namespace Hannibal
open AState

def quietLabel (c : MonCtx) : Label → Bool
  | .stopReq _ _ | .ctxStop _ | .streamEnd | .cbBegin .finished
  | .begin _ _ .halt | .begin _ _ .tryHalt | .begin _ _ .consume => true
  | .cbAbandon _ => c.cfg.failOnTimeout
  | l => l.isFailure || l.terminates

def bad15iw (σ : C15iwSt) (l : Label) : Bool :=
  !σ.quiet && (match l with
    | .timerEnd t => lookup t σ.timers == some .intervalWith && lookup t σ.heldAtFire == some true
    | _ => false)

def next15iw (c : MonCtx) (σ : C15iwSt) (l : Label) : C15iwSt :=
  { hold := σ.hold.step l
    quiet := σ.quiet || quietLabel c l
    timers := (match l with
      | .ctxTimer t k _ => (t, k) :: σ.timers
      | .cbBegin .stopped | .cbEnd .stopped _ => []
      | _ => σ.timers)
    heldAtFire := (match l with
      | .fire t _ => (t, σ.hold.strongHeld) :: σ.heldAtFire
      | _ => σ.heldAtFire) }

/-- `monC15iw` in guard / update form -/
theorem mon15iw_eq (c : MonCtx) (σ : C15iwSt) (l : Label) :
    (monC15iw c).step σ l = if bad15iw σ l then none else some (next15iw c σ l) := by
  cases l
  case cbBegin cb =>
    cases cb <;> simp [monC15iw, bad15iw, next15iw, quietLabel, Label.isFailure, Label.terminates]
  case cbEnd cb ok =>
    cases cb <;> cases ok <;> simp [monC15iw, bad15iw, next15iw, quietLabel, Label.isFailure, Label.terminates]
  case begin o h k =>
    cases k <;> simp [monC15iw, bad15iw, next15iw, quietLabel, Label.isFailure, Label.terminates]
  case timerEnd t =>
    simp only [monC15iw, bad15iw, next15iw, quietLabel, Label.isFailure, Label.terminates]
    split <;> simp_all
  case cbAbandon cb =>
    cases hf : c.cfg.failOnTimeout <;>
      simp [monC15iw, bad15iw, next15iw, quietLabel, Label.isFailure, Label.terminates, hf]
  all_goals simp [monC15iw, bad15iw, next15iw, quietLabel, Label.isFailure, Label.terminates]

structure C15iwInv (s : AState) (σ : C15iwSt) : Prop where
  h : HInv s σ.hold
  rx : RxInv s
  done : s.isDone = true → σ.quiet = true
  tim : ∀ t, lookup t σ.timers = some .intervalWith → σ.quiet = false →
    ∀ x, s.findTimer t = some x → x.kind = .intervalWith ∧ (lookup t σ.heldAtFire = some true → ¬ x.Dead)

theorem quietLabel_of_terminates (c : MonCtx) {l : Label} (h : l.terminates = true) : quietLabel c l = true := by
  cases l <;> simp [Label.terminates] at h <;> simp [quietLabel, Label.terminates, Label.isFailure]

/-- a step that leaves the timer table alone -/
theorem iw_same {s s' : AState} {σ : C15iwSt} (hi : C15iwInv s σ) (ht : s'.timers = s.timers)
    (tm : List (Nat × TimerKind)) (q' : Bool)
    (hsub : ∀ t, lookup t tm = some .intervalWith → lookup t σ.timers = some .intervalWith)
    (hq : q' = false → σ.quiet = false) :
    ∀ t, lookup t tm = some .intervalWith → q' = false →
      ∀ x, s'.findTimer t = some x → x.kind = .intervalWith ∧ (lookup t σ.heldAtFire = some true → ¬ x.Dead) := by
  intro t hl hq' x hx
  rw [findTimer_of_timers_eq ht] at hx
  exact hi.tim t (hsub t hl) (hq hq') x hx

/-- timer `t0` is set to `st0`: the clause survives for every other timer, and for `t0` if the new state is
    a live one or the obligation does not apply to it -/
theorem iw_set {s : AState} {σ : C15iwSt} (hi : C15iwInv s σ) (s1 : AState) (h1 : s1.timers = s.timers)
    (t0 : Nat) (st0 : TimerSt) (haf : List (Nat × Bool))
    (hhaf : ∀ t, t ≠ t0 → lookup t haf = lookup t σ.heldAtFire)
    (hst : lookup t0 σ.timers = some .intervalWith →
      ((st0 ≠ .dead ∧ st0 ≠ .deadHolding ∧ st0 ≠ .ended) ∨ lookup t0 haf ≠ some true
        ∨ (∀ x0, s.findTimer t0 = some x0 → x0.kind ≠ .intervalWith)))
    (hq : σ.quiet = false) :
    ∀ t, lookup t σ.timers = some .intervalWith →
      ∀ x, (s1.setTimer t0 st0).findTimer t = some x →
        x.kind = .intervalWith ∧ (lookup t haf = some true → ¬ x.Dead) := by
  intro t hl x hx
  have hf1 : ∀ t, s1.findTimer t = s.findTimer t := fun t => findTimer_of_timers_eq h1 t
  by_cases hte : t = t0
  · subst hte
    cases hf : s.findTimer t with
    | none =>
      have hn : s1.findTimer t = none := by rw [hf1]; exact hf
      have : (s1.setTimer t st0).findTimer t = none := by
        rw [findTimer_none_iff] at hn ⊢
        rw [setTimer_ids]; exact hn
      rw [this] at hx; simp at hx
    | some x0 =>
      have := findTimer_setTimer_eq (s := s1) (st := st0) (by rw [hf1]; exact hf)
      rw [this] at hx
      simp at hx; subst hx
      obtain ⟨hk, _⟩ := hi.tim t hl hq x0 hf
      refine ⟨hk, ?_⟩
      intro hh
      rcases hst hl with hst | hst | hst
      · intro hd; unfold Timer.Dead at hd; simp at hd
        rcases hd with hd | hd | hd
        · exact hst.1 hd
        · exact hst.2.1 hd
        · exact hst.2.2 hd
      · exact absurd hh hst
      · exact absurd hk (hst x0 hf)
  · rw [findTimer_setTimer_ne hte, hf1] at hx
    rw [hhaf t hte]
    exact hi.tim t hl hq x hx

theorem c15iw_step (w : Wiring) (hw : WellWired15 w) (c : MonCtx) {s s' : AState} {σ : C15iwSt} {l : Label}
    (hi : C15iwInv s σ) (hs : step w s l = some s') :
    ∃ σ', (monC15iw c).step σ l = some σ' ∧ C15iwInv s' σ' := by
  have hH := hinv_step hi.h hs
  have hR := rxInv_step hs hi.rx
  obtain ⟨hd1, hd2⟩ := step_isDone w hs
  have hheld : σ.hold.strongHeld = s.handles.any (fun p => p.2.strong) := by
    unfold HoldSt.strongHeld; rw [hi.h.handles]
  -- the `bad` test of the monitor never fires
  have hbad : bad15iw σ l = false := by
    cases l <;> simp [bad15iw]
    case timerEnd t =>
      intro hq hl hh
      simp only [step, stepTimerEnd] at hs
      cases hf : s.findTimer t with
      | none => simp [hf] at hs
      | some x =>
        obtain ⟨hk, hnd'⟩ := hi.tim t hl hq x hf
        have hnd := hnd' hh
        simp only [hf] at hs
        unfold Timer.Dead at hnd
        cases hst : x.st <;> simp [hst] at hs hnd
        · simp_all
        · simp_all
  refine ⟨next15iw c σ l, by rw [mon15iw_eq, hbad]; rfl, ?_⟩
  have hdone : s'.isDone = true → (next15iw c σ l).quiet = true := by
    intro hd
    simp only [next15iw]
    cases ht : l.terminates
    · rw [hd2 ht] at hd; simp [hi.done hd]
    · simp [quietLabel_of_terminates c ht]
  refine ⟨hH, hR, hdone, ?_⟩
  -- the timer clause
  intro t hl hq x hx
  have hq0 : σ.quiet = false := by
    simp only [next15iw] at hq
    cases hqq : σ.quiet <;> simp_all
  have hql : quietLabel c l = false := by
    simp only [next15iw] at hq
    cases hqq : quietLabel c l <;> simp_all
  by_cases htt : l.touchesTimers = true
  · cases l <;> simp [Label.touchesTimers] at htt
    case ctxTimer t0 k d =>
      simp only [step, stepCtxTimer] at hs
      split at hs
      · simp at hs; subst hs
        rename_i hc
        simp at hc
        have hl' : lookup t ((t0, k) :: σ.timers) = some .intervalWith := by simpa [next15iw] using hl
        simp only [next15iw]
        unfold findTimer at hx
        simp only [List.find?_append] at hx
        by_cases hte : t0 = t
        · subst hte
          have hnone : s.timers.find? (fun y => y.id == t0) = none := by
            rw [List.find?_eq_none]; intro y hy; simpa using hc.2 y hy
          simp [hnone] at hx
          simp [lookup] at hl'
          subst hx; simp [hl', Timer.Dead]
        · simp [lookup, hte] at hl'
          cases hf : s.timers.find? (fun y => y.id == t) with
          | none => simp [hf, hte] at hx
          | some y =>
            simp [hf] at hx; subst hx
            exact hi.tim t hl' hq0 y (by unfold findTimer; exact hf)
      · simp at hs
    case timerArm t0 due =>
      have hl' : lookup t σ.timers = some .intervalWith := by simpa [next15iw] using hl
      simp only [step, stepTimerArm] at hs
      (repeat' (split at hs)) <;>
        (first
          | (simp at hs; done)
          | (simp at hs; subst hs
             exact iw_set hi _ rfl t0 _ σ.heldAtFire (fun _ _ => rfl) (fun _ => .inl (by simp)) hq0 t hl' x hx))
    case timerEnd t0 =>
      have hl' : lookup t σ.timers = some .intervalWith := by simpa [next15iw] using hl
      have hb := hbad
      simp [bad15iw, hq0] at hb
      simp only [step, stepTimerEnd] at hs
      (repeat' (split at hs)) <;>
        (first
          | (simp at hs; done)
          | (simp at hs; subst hs
             exact iw_set hi _ rfl t0 _ σ.heldAtFire (fun _ _ => rfl) (fun h0 => .inr (.inl (hb h0))) hq0 t hl' x hx))
    case fire t0 m =>
      have hl' : lookup t σ.timers = some .intervalWith := by simpa [next15iw] using hl
      have hhaf : ∀ t, t ≠ t0 → lookup t ((t0, σ.hold.strongHeld) :: σ.heldAtFire) = lookup t σ.heldAtFire :=
        fun t ht => lookup_cons_ne (Ne.symm ht)
      have hrx : s.chan.rx = true := by
        rcases hi.rx with h | h
        · have := hi.done h; rw [hq0] at this; cases this
        · exact h
      simp only [step, stepFire] at hs
      cases hf : s.findTimer t0 with
      | none => simp [hf] at hs
      | some x0 =>
        simp only [hf] at hs
        split at hs
        · simp at hs
        · (repeat' (split at hs)) <;>
          (first
            | (simp at hs; done)
            | (simp at hs; subst hs
               simp only [next15iw]
               refine iw_set hi _ rfl t0 _ _ hhaf ?_ hq0 t hl' x hx
               intro h0
               first
                 | (refine .inl ?_; simp; done)
                 | (refine .inr (.inr ?_); intro y hy; rw [hf] at hy; simp at hy; subst hy; simp_all; done)
                 | (refine .inr (.inl ?_)
                    rw [lookup_cons_eq]
                    intro hh
                    simp at hh
                    rw [hheld] at hh
                    have := reqOk_of_strong hw hh (w.upgradeReq .weakSender)
                    simp_all)))
    case cbEnd cb ok =>
      cases cb <;> simp [Label.touchesTimers] at htt
      simp [next15iw, lookup] at hl
    case cancel => simp [quietLabel, Label.terminates] at hql
    case taskPanic => simp [quietLabel, Label.terminates] at hql
    case taskDone => simp [quietLabel, Label.terminates] at hql
  · have htt' : l.touchesTimers = false := by simpa using htt
    have hts := step_timers_same hs htt'
    have hhaf : (next15iw c σ l).heldAtFire = σ.heldAtFire := by
      cases l <;> simp_all [next15iw, Label.touchesTimers]
    rw [hhaf]
    refine iw_same hi hts (next15iw c σ l).timers (next15iw c σ l).quiet ?_ (fun _ => hq0) t hl hq x hx
    intro t1 h1
    cases l <;> simp_all [next15iw, Label.touchesTimers]
    all_goals (try (split at h1 <;> simp_all))
    all_goals (try (rename_i cb; cases cb <;> simp_all [lookup]))

theorem c15iw_init (c : MonCtx) : C15iwInv (AState.init c.cfg c.h0 c.k0) (monC15iw c).init := by
  refine ⟨⟨rfl, by simp [AState.init]⟩, rxInv_init _ _ _, by simp [monC15iw, AState.init, isDone], ?_⟩
  intro t h; simp [monC15iw, lookup] at h

/-- **C15 (`interval_with`).** With every strong handle kind owning both halves of the channel, in every run
    of the model an `interval_with` timer of the running incarnation whose closure last ran while a strong
    handle was held does not end unless a stop was issued, the stream ended, or the actor failed or
    terminated. -/
theorem C15iw_holds (w : Wiring) (hw : WellWired15 w) (c : MonCtx) (ls : List Label) (s : AState)
    (hr : run w (AState.init c.cfg c.h0 c.k0) ls = some s) : (monC15iw c).ok ls = true :=
  ok_of_run_lift (monC15iw c) w C15iwInv (fun _ _ _ _ hi hs => c15iw_step w hw c hi hs) _ (c15iw_init c) ls s hr

/-! ### non-vacuity -/

def c15iwCfg : Cfg := { cap := none, strat := .only, timeout := none, failOnTimeout := false, stream := false }
def c15iwCtx : MonCtx := { cfg := c15iwCfg, h0 := 0, k0 := .addr, prompt := true }

/-- an `interval_with` timer fires twice while the address is held (and goes on), then the address is
    dropped: the next closure run finds nobody to send to and the timer ends -/
def c15iwExample : List Label :=
  [ .cbBegin .started, .ctxTimer 1 .intervalWith 5, .cbEnd .started true, .timerArm 1 5, .time 5,
    .fire 1 (some 7), .timerArm 1 10, .cbBegin (.handle 7), .cbEnd (.handle 7) true, .time 10,
    .fire 1 (some 8), .timerArm 1 15, .cbBegin (.handle 8), .cbEnd (.handle 8) true, .drop 0, .time 15,
    .fire 1 (some 9), .timerEnd 1 ]
example : (monC15iw c15iwCtx).ok c15iwExample = true := by decide

/-- rejected: the timer ends although its closure just ran with the address held -/
example : (monC15iw c15iwCtx).ok (c15iwExample.take 11 ++ [ .timerEnd 1 ]) = false := by decide
/-- rejected: the same after the address was dropped *after* the closure ran -/
example : (monC15iw c15iwCtx).ok (c15iwExample.take 11 ++ [ .drop 0, .timerEnd 1 ]) = false := by decide
/-- accepted: a stop request makes the actor quiet -/
example : (monC15iw c15iwCtx).ok (c15iwExample.take 14 ++
    [ .stopReq 0 true, .tDeq, .cbBegin .stopped, .cbEnd .stopped true, .taskDone, .timerEnd 1 ]) = true := by decide

/-- Under the wiring in which `Sender` owns only the waiting half the property fails: only a Sender is
    left when the closure runs, the upgrade of the timer's weak sender fails and the timer ends. -/
def c15iwWitness : List Label :=
  [ .mk 0 1 .sender, .drop 0, .cbBegin .started, .ctxTimer 1 .intervalWith 5, .cbEnd .started true,
    .timerArm 1 5, .time 5, .fire 1 (some 7), .timerEnd 1 ]
def senderTxOnly (w : Wiring) : Wiring :=
  { w with holds := fun k => if k = .sender then [.tx] else w.holds k }
example : (monC15iw c15iwCtx).ok c15iwWitness = false := by decide

end Hannibal
