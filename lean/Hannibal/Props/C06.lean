import Hannibal.Proofs.C06Ops
import Hannibal.Proofs.Term
import Hannibal.Proofs.Timers
import Hannibal.Proofs.Run
import Hannibal.Props.C04
import Hannibal.Props.C10
import Hannibal.Props.C06Split
/-
  C06 (single-actor part): for every wiring whose loop notifies after `stopped()`, every run of the
  actor model is accepted by `monC06`.
-/
namespace Hannibal
open AState

/-! ### Monitor-state projections -/

@[simp] theorem next06_failed (c σ l) :
    (next06 c σ l).failed = (if fails06 c.cfg.failOnTimeout l then true else σ.failed) := by
  cases l
  case cbEnd cb ok =>
    cases cb <;> cases ok <;> simp [next06, fails06, Label.isFailure, Label.terminates]
  all_goals (simp only [next06, fails06, Label.isFailure, Label.terminates]; try simp)
  all_goals (cases c.cfg.failOnTimeout <;> simp)

@[simp] theorem next06_terminated (c σ l) :
    (next06 c σ l).terminated = (if l.terminates then true else σ.terminated) := by
  cases l
  case cbEnd cb ok =>
    cases cb <;> cases ok <;> simp [next06, fails06, Label.isFailure, Label.terminates]
  all_goals (simp only [next06, fails06, Label.isFailure, Label.terminates]; try simp)
  all_goals (cases c.cfg.failOnTimeout <;> simp)

@[simp] theorem next06_ops (c σ l) :
    (next06 c σ l).ops = (match l with
      | .begin o _ k => (o, (k, σ.failed)) :: σ.ops
      | _ => σ.ops) := by
  cases l
  case cbEnd cb ok =>
    cases cb <;> cases ok <;> simp [next06, fails06, Label.isFailure, Label.terminates]
  all_goals (simp only [next06, fails06, Label.isFailure, Label.terminates]; try simp)
  all_goals (cases c.cfg.failOnTimeout <;> simp)

@[simp] theorem next06_finishedOk (c σ l) :
    (next06 c σ l).finishedOk = (match l with
      | .cbEnd (.handle m) true => m :: σ.finishedOk
      | _ => σ.finishedOk) := by
  cases l
  case cbEnd cb ok =>
    cases cb <;> cases ok <;> simp [next06, fails06, Label.isFailure, Label.terminates]
  all_goals (simp only [next06, fails06, Label.isFailure, Label.terminates]; try simp)
  all_goals (cases c.cfg.failOnTimeout <;> simp)

@[simp] theorem next06_timers (c σ l) :
    (next06 c σ l).timers = (match l with
      | .ctxTimer t _ _ => (t, false) :: σ.timers
      | .timerEnd t => σ.timers.map (fun p => if p.1 == t then (t, true) else p)
      | _ => σ.timers) := by
  cases l
  case cbEnd cb ok =>
    cases cb <;> cases ok <;> simp [next06, fails06, Label.isFailure, Label.terminates]
  all_goals (simp only [next06, fails06, Label.isFailure, Label.terminates]; try simp)
  all_goals (cases c.cfg.failOnTimeout <;> simp)

theorem fails06_eq (b : Bool) (l : Label) : fails06 b l = failsActor b l := by
  cases l <;> rfl

/-! ### Phase flags -/

structure Flags06 (c : MonCtx) (s : AState) (σ : C06St) : Prop where
  f04 : ∃ sd, Flags04 c s σ.failed sd
  term : σ.terminated = s.isDone

theorem Flags06.fail {c s σ} (h : Flags06 c s σ) : σ.failed = failing s.phase := by
  obtain ⟨⟨_, h⟩, _⟩ := h; exact h.fail

/-- a C04 monitor state carrying our failure flag (to reuse `flags04_step`) -/
def ghost04 (σ : C06St) (sd : Bool) : C04St :=
  { hold := HoldSt.init 0 .addr, failure := σ.failed, stoppedDone := sd, terminated := false }

theorem flags06_step (w : Wiring) (c : MonCtx) {s s' : AState} {σ : C06St} {l : Label}
    (hi : Flags06 c s σ) (hs : step w s l = some s') : Flags06 c s' (next06 c σ l) := by
  obtain ⟨⟨sd, hf⟩, ht⟩ := hi
  have h4 := flags04_step w c (σ := ghost04 σ sd) hf hs
  obtain ⟨hd1, hd2⟩ := step_isDone w hs
  have hfe : (next04 c (ghost04 σ sd) l).failure = (next06 c σ l).failed := by
    simp [fails06_eq, ghost04]
  rw [hfe] at h4
  refine ⟨⟨_, h4⟩, ?_⟩
  · simp only [next06_terminated]
    cases hterm : l.terminates
    · simp; rw [hd2 hterm]; exact ht
    · simp [hd1 hterm]

/-! ### Operation table -/

/-- what the monitor knows about a live operation record -/
def OpOk06 (σ : C06St) (r : OpRec) : Prop :=
  ∃ late, lookup r.o σ.ops = some (r.kind, late) ∧
    (r.st = .pinged → late = false) ∧
    (∀ rep, r.st = .answered rep → late = false ∧ rep.m ∈ σ.finishedOk)

def OpsInv06 (s : AState) (σ : C06St) : Prop := ∀ r ∈ s.ops, OpOk06 σ r

/-- before the failure nothing is "late" -/
def Early06 (σ : C06St) : Prop := σ.failed = false → ∀ p ∈ σ.ops, p.2.2 = false

theorem lookup_mem {α} {k : Nat} {v : α} : ∀ {l : List (Nat × α)}, lookup k l = some v → (k, v) ∈ l
  | [], h => by simp [lookup] at h
  | (k', v') :: rest, h => by
    simp only [lookup] at h
    split at h
    · rename_i hk; simp at hk h; subst hk; subst h; simp
    · exact List.mem_cons_of_mem _ (lookup_mem h)

theorem early06_step (c : MonCtx) {σ : C06St} {l : Label} (hi : Early06 σ) : Early06 (next06 c σ l) := by
  intro hf p hp
  simp only [next06_failed] at hf
  have hf0 : σ.failed = false := by
    split at hf
    · simp at hf
    · exact hf
  simp only [next06_ops] at hp
  split at hp
  · rcases List.mem_cons.mp hp with rfl | hp
    · exact hf0
    · exact hi hf0 p hp
  · exact hi hf0 p hp

theorem next06_fin_mono (c : MonCtx) (σ : C06St) (l : Label) {m : Nat} (h : m ∈ σ.finishedOk) :
    m ∈ (next06 c σ l).finishedOk := by
  simp only [next06_finishedOk]
  split
  · exact List.mem_cons_of_mem _ h
  · exact h

theorem not_failing_of_tDeq {w : Wiring} {s s' : AState} (hs : step w s .tDeq = some s') :
    failing s.phase = false := by
  simp only [step, stepDeq] at hs
  cases hp : s.phase <;> simp [hp, failing] at hs ⊢

theorem not_failing_of_cbEnd {w : Wiring} {s s' : AState} {cb ok} (hs : step w s (.cbEnd cb ok) = some s') :
    failing s.phase = false := by
  simp only [step, stepCbEnd] at hs
  split at hs
  · simp at hs
  · cases hp : s.phase <;> simp [hp, failing] at hs ⊢
    all_goals (cases cb <;> simp at hs)

theorem opsInv06_step (w : Wiring) (c : MonCtx) {s s' : AState} {σ : C06St} {l : Label}
    (hfl : σ.failed = failing s.phase) (he : Early06 σ) (hi : OpsInv06 s σ) (hs : step w s l = some s') :
    OpsInv06 s' (next06 c σ l) := by
  by_cases hedge : l.isOpEdge = true
  · cases l <;> simp [Label.isOpEdge] at hedge
    case begin o h k =>
      simp only [step] at hs
      obtain ⟨hfresh, st, hops, hst⟩ := stepBegin_fresh hs
      have hne := findOp_none_ne hfresh
      intro r hr
      rw [hops] at hr
      rcases List.mem_append.mp hr with hr | hr
      · obtain ⟨late, h1, h2, h3⟩ := hi r hr
        refine ⟨late, ?_, h2, h3⟩
        simp only [next06_ops]
        rw [lookup_cons_ne (hne r hr).symm]
        exact h1
      · simp at hr; subst hr
        refine ⟨σ.failed, by simp [lookup], ?_, ?_⟩
        · intro h
          have h' : st = .pinged := h
          subst h'; simp [OpSt.fresh] at hst
        · intro rep h
          have h' : st = .answered rep := h
          subst h'; simp [OpSt.fresh] at hst
    case ret o r =>
      simp only [step] at hs
      obtain ⟨_, _, _, hops, _⟩ := stepRet_ops hs
      intro r0 hr0
      rw [hops] at hr0
      exact hi r0 (List.mem_filter.mp hr0).1
    case cdrop o =>
      simp only [step] at hs
      have hops := stepCdrop_ops hs
      intro r0 hr0
      rw [hops] at hr0
      exact hi r0 (List.mem_filter.mp hr0).1
  · have hedge' : l.isOpEdge = false := by simpa using hedge
    obtain ⟨f, hf, pf⟩ := step_ops_fine hs hedge'
    have hσops : (next06 c σ l).ops = σ.ops := by
      cases l <;> simp [Label.isOpEdge] at hedge' <;> simp
    intro r' hr'
    rw [hf] at hr'
    obtain ⟨r, hr, rfl⟩ := List.mem_map.mp hr'
    obtain ⟨ho, hk, _, hst⟩ := pf r
    obtain ⟨late, h1, h2, h3⟩ := hi r hr
    refine ⟨late, by rw [hσops, ho, hk]; exact h1, ?_, ?_⟩
    · intro hp
      rcases hst with hst | ⟨hpend, hst⟩
      · exact h2 (hst ▸ hp)
      · rcases hst with hst | ⟨hl, _⟩ | ⟨m, b, d, _, hst⟩
        · rw [hst] at hp; cases hp
        · subst hl
          have hnf := not_failing_of_tDeq hs
          exact he (hfl.trans hnf) _ (lookup_mem h1)
        · rw [hst] at hp; cases hp
    · intro rep hp
      rcases hst with hst | ⟨hpend, hst⟩
      · obtain ⟨a, b⟩ := h3 rep (hst ▸ hp)
        exact ⟨a, next06_fin_mono c σ l b⟩
      · rcases hst with hst | ⟨_, hst⟩ | ⟨m, b, d, hl, hst⟩
        · rw [hst] at hp; cases hp
        · rw [hst] at hp; cases hp
        · subst hl
          have hnf := not_failing_of_cbEnd hs
          rw [hst] at hp
          simp at hp; subst hp
          exact ⟨he (hfl.trans hnf) _ (lookup_mem h1), by simp⟩

/-! ### Timers -/

/-- apart from a registration, a step maps the timer table pointwise, keeps the ids, and only
    `timerEnd t` makes (the timers called) `t` ended -/
theorem step_timers_map {w : Wiring} {s s' : AState} {l : Label} (hs : step w s l = some s')
    (hl : ∀ t k d, l ≠ .ctxTimer t k d) :
    ∃ k : Timer → Timer, s'.timers = s.timers.map k ∧
      ∀ x, (k x).id = x.id ∧ ((k x).st = .ended → x.st = .ended ∨ l = .timerEnd x.id) := by
  have hset : ∀ (t : Nat) (st : TimerSt), (st = .ended → l = .timerEnd t) →
      ∀ x : Timer, ((fun x : Timer => if x.id == t then { x with st := st } else x) x).id = x.id ∧
        (((fun x : Timer => if x.id == t then { x with st := st } else x) x).st = .ended →
          x.st = .ended ∨ l = .timerEnd x.id) := by
    intro t st hst x
    dsimp only
    split
    · rename_i hx
      simp at hx
      exact ⟨rfl, fun h => .inr (hx ▸ hst h)⟩
    · exact ⟨rfl, fun h => .inl h⟩
  have hkill : ∀ x : Timer,
      ((fun t : Timer => if t.st = .ended then t else if t.st = .sending ∨ t.st = .deadHolding then
        { t with st := .deadHolding } else { t with st := .dead }) x).id = x.id ∧
      (((fun t : Timer => if t.st = .ended then t else if t.st = .sending ∨ t.st = .deadHolding then
        { t with st := .deadHolding } else { t with st := .dead }) x).st = .ended →
          x.st = .ended ∨ l = .timerEnd x.id) := by
    intro x
    dsimp only
    split
    · exact ⟨rfl, fun h => .inl h⟩
    · split <;> exact ⟨rfl, fun h => by simp at h⟩
  have hid : ∀ x : Timer, ((fun x : Timer => x) x).id = x.id ∧
      (((fun x : Timer => x) x).st = .ended → x.st = .ended ∨ l = .timerEnd x.id) :=
    fun x => ⟨rfl, fun h => .inl h⟩
  by_cases htt : l.touchesTimers = true
  · cases l <;> simp [Label.touchesTimers] at htt
    case ctxTimer t k d => exact absurd rfl (hl t k d)
    case timerArm t due =>
      simp only [step] at hs
      obtain ⟨_, _, _, _, htim, _⟩ := stepTimerArm_spec hs
      exact ⟨_, htim, hset t _ (by simp)⟩
    case timerEnd t =>
      simp only [step] at hs
      obtain ⟨_, htim⟩ := stepTimerEnd_spec hs
      exact ⟨_, htim, hset t _ (fun _ => rfl)⟩
    case fire t m =>
      simp only [step] at hs
      obtain ⟨_, _, _, _, _, _, htim⟩ := stepFire_spec hs
      rcases htim with ⟨htim, _⟩ | htim
      · exact ⟨_, htim, hset t _ (by simp)⟩
      · exact ⟨_, htim, hset t _ (by simp)⟩
    case cbEnd cb ok =>
      have hcb : cb = .stopped := by cases cb <;> simp_all [Label.touchesTimers]
      subst hcb
      simp only [step, stepCbEnd] at hs
      split at hs
      · simp at hs
      · cases hp : s.phase <;> simp [hp] at hs
        · obtain ⟨_, rfl⟩ := hs
          by_cases hr : w.refreshResetsTimers = true
          · exact ⟨_, by simp [refreshTimers, hr, killTimers], hkill⟩
          · exact ⟨fun x => x, by simp [refreshTimers, hr], hid⟩
        · obtain ⟨_, rfl⟩ := hs
          exact ⟨fun x => x, by simp, hid⟩
    case cancel =>
      simp only [step, stepCancel] at hs
      split at hs
      · simp at hs
      · simp at hs; subst hs
        exact ⟨_, by simp [fail, killTimers, cancelSlots], hkill⟩
    case taskPanic =>
      simp only [step, stepTaskPanic] at hs
      (repeat' (split at hs)) <;>
        (first
          | (simp at hs; done)
          | (simp at hs; subst hs; exact ⟨_, by simp [fail, killTimers, cancelSlots], hkill⟩))
    case taskDone =>
      simp only [step, stepTaskDone] at hs
      (repeat' (split at hs)) <;>
        (first
          | (simp at hs; done)
          | (simp at hs; subst hs; exact ⟨_, by simp [fail, finish, killTimers, cancelSlots], hkill⟩))
  · have := step_timers_same hs (by simpa using htt)
    exact ⟨fun x => x, by simp [this], hid⟩

/-- a timer the monitor has not seen end is a timer of the model that has not ended -/
def TimersInv06 (s : AState) (σ : C06St) : Prop :=
  ∀ p ∈ σ.timers, p.2 = false → ∃ x ∈ s.timers, x.id = p.1 ∧ x.st ≠ .ended

theorem timersInv06_step (w : Wiring) (c : MonCtx) {s s' : AState} {σ : C06St} {l : Label}
    (hi : TimersInv06 s σ) (hs : step w s l = some s') : TimersInv06 s' (next06 c σ l) := by
  by_cases hct : ∃ t k d, l = .ctxTimer t k d
  · obtain ⟨t, k, d, rfl⟩ := hct
    simp only [step, stepCtxTimer] at hs
    split at hs
    · simp at hs; subst hs
      intro p hp hpe
      simp only [next06_timers] at hp
      rcases List.mem_cons.mp hp with rfl | hp
      · exact ⟨{ id := t, kind := k, d, st := .spawned }, by simp, rfl, by simp⟩
      · obtain ⟨x, hx, h1, h2⟩ := hi p hp hpe
        exact ⟨x, by simp [hx], h1, h2⟩
    · simp at hs
  · obtain ⟨k, hk, pk⟩ := step_timers_map hs (fun t k d h => hct ⟨t, k, d, h⟩)
    intro p hp hpe
    by_cases hte : ∃ t, l = .timerEnd t
    · obtain ⟨t, rfl⟩ := hte
      simp only [next06_timers] at hp
      obtain ⟨q, hq, rfl⟩ := List.mem_map.mp hp
      by_cases hqt : q.1 = t
      · simp [hqt] at hpe
      · have hb : (q.1 == t) = false := by simp [hqt]
        simp only [hb, Bool.false_eq_true, if_false] at hpe ⊢
        obtain ⟨x, hx, h1, h2⟩ := hi q hq hpe
        refine ⟨k x, by rw [hk]; exact List.mem_map_of_mem hx, (pk x).1.trans h1, ?_⟩
        intro he
        rcases (pk x).2 he with h | h
        · exact h2 h
        · simp at h; exact hqt (h1 ▸ h.symm)
    · have hσ : (next06 c σ l).timers = σ.timers := by
        cases l <;> simp
        · exact absurd ⟨_, _, _, rfl⟩ hct
        · exact absurd ⟨_, rfl⟩ hte
      rw [hσ] at hp
      obtain ⟨x, hx, h1, h2⟩ := hi p hp hpe
      refine ⟨k x, by rw [hk]; exact List.mem_map_of_mem hx, (pk x).1.trans h1, ?_⟩
      intro he
      rcases (pk x).2 he with h | h
      · exact h2 h
      · exact hte ⟨_, h⟩

/-- once the loop task is gone all timers are dead (as in C10) -/
theorem dead06_step (w : Wiring) {s s' : AState} {l : Label} (hi : s.isDone = true → AllDead s)
    (hs : step w s l = some s') : s'.isDone = true → AllDead s' := by
  obtain ⟨hd1, hd2⟩ := step_isDone w hs
  intro hdn
  cases ht : l.terminates
  · rw [hd2 ht] at hdn
    by_cases hct : ∃ t k d, l = .ctxTimer t k d
    · obtain ⟨t, k, d, rfl⟩ := hct
      exfalso
      simp only [step, stepCtxTimer] at hs
      split at hs
      · rename_i hc; simp at hc
        rw [inCallback_not_done hc.1] at hdn; simp at hdn
      · simp at hs
    · exact allDead_step hs (hi hdn) (fun t k d h => hct ⟨t, k, d, h⟩)
  · exact allDead_of_terminates hs ht

/-! ### Results after the failure -/

theorem retBad06_false {s : AState} {rec : OpRec} {r : Res} {late : Bool} {fin : List Nat}
    (hexp : s.retExpect rec = some r) (hfail : failing s.phase = true) (ht : TermInv s)
    (hp : rec.st = .pinged → late = false)
    (ha : ∀ rep, rec.st = .answered rep → late = false ∧ rep.m ∈ fin) :
    retBad06 rec.kind late fin r = false := by
  have hlatch := ht.latch
  have hres := ht.result
  -- a latch awaiter of a failing actor gets the termination error
  have hL : ∀ r', s.latchRes = some r' → r'.isErr = true := by
    intro r' h
    unfold latchRes at h
    cases hl : s.latch <;> simp [hl] at h
    · rw [hl] at hlatch
      have := latchOk_fired hlatch
      simp [this, failing] at hfail
    · subst h; rfl
  unfold retExpect at hexp
  cases hst : rec.st <;> simp only [hst] at hexp
  case failed e =>
    simp at hexp; subst hexp
    cases hk : rec.kind <;> simp [retBad06, Res.isErr]
  case pending =>
    cases hk : rec.kind <;> simp only [hk] at hexp <;>
      (first
        | (simp at hexp; done)
        | (have := hL r hexp; simp [retBad06, this]; done)
        | (split at hexp <;> simp at hexp; subst hexp; simp [retBad06]; done))
  case answered v =>
    obtain ⟨h1, h2⟩ := ha v hst
    cases hk : rec.kind <;> simp only [hk] at hexp <;>
      (first
        | (simp at hexp; done)
        | (simp at hexp; subst hexp; simp [retBad06, h1, h2, OpKind.isCall]; done))
  case pinged =>
    have h1 := hp hst
    split at hexp
    · rename_i hk; simp at hexp; subst hexp; simp [retBad06, hk, h1]
    · simp at hexp
  case cancelled =>
    cases hk : rec.kind <;> simp only [hk] at hexp <;>
      (first
        | (simp at hexp; done)
        | (simp at hexp; subst hexp; simp [retBad06]; done))
  case joining =>
    split at hexp
    · cases hrs : s.result with
      | none =>
        cases hk : rec.kind <;> simp [hk, hrs] at hexp <;> subst hexp <;> simp [retBad06, Res.isErr]
      | some f0 =>
        rw [hrs] at hres
        simp [resultOk] at hres
        have hph := hres.1.1.1
        simp [hph, failing] at hfail
    · simp at hexp
  case joinNone =>
    cases hk : rec.kind <;> simp only [hk] at hexp <;>
      (first
        | (simp at hexp; done)
        | (simp at hexp; subst hexp; simp [retBad06, Res.isErr]; done))

/-! ### The simulation -/

structure C06Inv (c : MonCtx) (s : AState) (σ : C06St) : Prop where
  f : Flags06 c s σ
  t : TermInv s
  ops : OpsInv06 s σ
  early : Early06 σ
  dead : s.isDone = true → AllDead s
  tim : TimersInv06 s σ

theorem not_failing_of_cbBegin {w : Wiring} {s s' : AState} {cb} (hs : step w s (.cbBegin cb) = some s') :
    failing s.phase = false := by
  simp only [step, stepCbBegin] at hs
  cases hp : s.phase <;> simp [hp, failing] at hs ⊢
  all_goals (cases cb <;> simp at hs)

theorem c06_bad (w : Wiring) (c : MonCtx) {s s' : AState} {σ : C06St} {l : Label}
    (hi : C06Inv c s σ) (hs : step w s l = some s') : bad06 σ l = false := by
  have hfl := hi.f.fail
  have hlive : ∀ t x, s.findTimer t = some x → ¬ x.Dead → s.isDone = false := by
    intro t x hx hnd
    cases hdn : s.isDone
    · rfl
    · exact absurd (hi.dead hdn x (findTimer_mem hx).1) hnd
  cases l <;> simp only [bad06]
  case cbBegin cb => rw [hfl]; exact not_failing_of_cbBegin hs
  case fire t m =>
    simp only [step] at hs
    obtain ⟨x, due, hx, hst, _⟩ := stepFire_spec hs
    have := hlive t x hx (by unfold Timer.Dead; simp [hst])
    simp [hi.f.term, this]
  case timerArm t due =>
    simp only [step] at hs
    obtain ⟨x, hx, _, _, _, hcase⟩ := stepTimerArm_spec hs
    have hndx : ¬ x.Dead := by
      unfold Timer.Dead; rcases hcase with h | ⟨o, h, _⟩ | ⟨h, _⟩ <;> simp [h]
    have := hlive t x hx hndx
    simp [hi.f.term, this]
  case tickBegin t m =>
    have := not_done_of_begin hs (.inr ⟨t, m, rfl⟩)
    simp [hi.f.term, this]
  case ret o r =>
    cases hf : σ.failed
    · rfl
    · simp only [Bool.true_and]
      simp only [step] at hs
      obtain ⟨rec, hfind, hexp, _, hro⟩ := stepRet_ops hs
      obtain ⟨hrec, _⟩ := findOp_some_mem hfind
      obtain ⟨late, h1, h2, h3⟩ := hi.ops rec hrec
      rw [hro] at h1
      simp only [h1]
      exact retBad06_false hexp (by rw [← hfl]; exact hf) hi.t h2 h3
  case quiescent pend =>
    cases hf : σ.failed
    · rfl
    · simp only [Bool.true_and]
      simp only [step, stepQuiescent] at hs
      split at hs
      · rename_i hq
        simp only [Bool.and_eq_true, quiet] at hq
        have hall := hq.1.1.1.2
        simp only [Bool.not_eq_eq_eq_not, Bool.not_false, List.all_eq_true]
        intro p hp
        cases hp2 : p.2
        · obtain ⟨x, hx, _, hne⟩ := hi.tim p hp hp2
          have := List.all_eq_true.mp hall x hx
          simp at this
          exact absurd this hne
        · rfl
      · simp at hs

theorem c06_step (w : Wiring) (hw : w.notifyAfterStopped = true) (c : MonCtx) {s s' : AState} {σ : C06St}
    {l : Label} (hi : C06Inv c s σ) (hs : step w s l = some s') :
    ∃ σ', (monC06 c).step σ l = some σ' ∧ C06Inv c s' σ' := by
  have hbad := c06_bad w c hi hs
  exact ⟨next06 c σ l, by simp [monC06, hbad],
    ⟨flags06_step w c hi.f hs, termInv_step w hw hs hi.t,
     opsInv06_step w c hi.f.fail hi.early hi.ops hs, early06_step c hi.early,
     dead06_step w hi.dead hs, timersInv06_step w c hi.tim hs⟩⟩

theorem c06_init (c : MonCtx) : C06Inv c (AState.init c.cfg c.h0 c.k0) (monC06 c).init := by
  refine ⟨⟨⟨false, ⟨rfl, ?_, ?_⟩⟩, ?_⟩, termInv_init _ _ _, ?_, ?_, ?_, ?_⟩
  · simp [monC06, AState.init, failing]
  · simp [AState.init, gracefulEnd]
  · simp [monC06, AState.init, isDone]
  · intro r hr; simp [AState.init] at hr
  · intro _ p hp; simp [monC06] at hp
  · intro _ x hx; simp [AState.init] at hx
  · intro p hp; simp [monC06] at hp

/-- **C06 (a failed actor is visible as errors, single-actor part).** -/
theorem C06_holds (w : Wiring) (hw : w.notifyAfterStopped = true) (c : MonCtx) (ls : List Label) (s : AState)
    (hr : run w (AState.init c.cfg c.h0 c.k0) ls = some s) : (monC06 c).ok ls = true :=
  ok_of_run_lift (monC06 c) w (C06Inv c) (fun _ _ _ _ hi hs => c06_step w hw c hi hs) _ (c06_init c) ls s hr

/-! ### Non-vacuity and witnesses -/

def c06Cfg : Cfg := { cap := none, strat := .only, timeout := none, failOnTimeout := false, stream := false }
def c06Ctx : MonCtx := { cfg := c06Cfg, h0 := 0, k0 := .owning, prompt := true }

/-- a call is answered, then a handler panics: the call in flight, a late ping, an awaiter and `join` all
    resolve with an error / `None`, the timer ends, nothing is pending at quiescence -/
def c06Example : List Label :=
  [ .cbBegin .started, .ctxTimer 0 .intervalWith 5, .cbEnd .started true, .timerArm 0 5, .mk 0 1 .addr,
    .begin 1 0 (.call 7), .cbBegin (.handle 7), .cbEnd (.handle 7) true,
    .ret 1 (.okReply { m := 7, birth := 0, digest := [7] }),
    .begin 2 0 (.call 8), .begin 3 1 .await, .cbBegin (.handle 8), .cbPanic (.handle 8),
    .ret 2 (.err .canceled), .begin 4 0 .ping, .taskDone, .ret 4 (.err .canceled), .ret 3 (.err .canceled),
    .begin 5 0 .join, .ret 5 .none, .timerEnd 0, .quiescent [] ]
example : (monC06 c06Ctx).ok c06Example = true := by decide
example : (monC06t c06Ctx).ok c06Example = true := by decide
example : (monC06orig c06Ctx).ok c06Example = true := by decide

/-- a callback begins after the failure -/
example : (monC06 c06Ctx).ok [ .cbBegin .started, .cbPanic .started, .cbBegin (.handle 1) ] = false := by decide
/-- an awaiter of a cancelled actor gets Ok -/
example : (monC06 c06Ctx).ok [ .cbBegin .started, .cbEnd .started true, .mk 0 1 .addr, .begin 1 1 .await, .cancel,
    .ret 1 .ok ] = false := by decide
/-- `join` hands out a value after a failure -/
example : (monC06 c06Ctx).ok [ .cbBegin .started, .cbEnd .started false, .taskDone, .begin 1 0 .join,
    .ret 1 (.some { birth := 0, stoppedSeen := true, digest := [] }) ] = false := by decide
/-- a call begun after the failure is answered -/
example : (monC06 c06Ctx).ok [ .cbBegin .started, .cbEnd .started true, .cbBegin (.handle 7), .cbEnd (.handle 7) true,
    .cbBegin (.handle 8), .cbPanic (.handle 8), .begin 1 0 (.call 7),
    .ret 1 (.okReply { m := 7, birth := 0, digest := [7] }) ] = false := by decide
/-- a call whose handler never completed is answered after the failure -/
example : (monC06 c06Ctx).ok [ .cbBegin .started, .cbEnd .started true, .begin 1 0 (.call 8), .cbBegin (.handle 8),
    .cbPanic (.handle 8), .ret 1 (.okReply { m := 8, birth := 0, digest := [8] }) ] = false := by decide
/-- a timer fires after the failed actor's task is gone -/
example : (monC06 c06Ctx).ok [ .cbBegin .started, .ctxTimer 0 .intervalWith 5, .cbEnd .started true, .timerArm 0 5,
    .cancel, .time 5, .fire 0 (some 1) ] = false := by decide
/-- a timer task is leaked by a failed actor -/
example : (monC06 c06Ctx).ok [ .cbBegin .started, .ctxTimer 0 .intervalWith 5, .cbEnd .started true, .timerArm 0 5,
    .cancel, .quiescent [] ] = false := by decide
/-- trace-only monitor: an operation hangs on a failed actor -/
example : (monC06t c06Ctx).ok [ .cbBegin .started, .cbEnd .started true, .begin 1 0 (.call 8), .cancel,
    .quiescent [1] ] = false := by decide

/-- **Witness: the clause "a send begun after the failure never returns Ok" is false of the model.**
    Between the failure event (`started` panicked) and the end of the loop task (`taskDone`, which drops
    the receiver) the mailbox still accepts submissions: a `send` begun in that window returns Ok (see
    `Props/C06Current.lean` for the run under `Wiring.current`).  The clause stays in `monC06t`. -/
def c06LateSend : List Label := [ .cbBegin .started, .cbPanic .started, .begin 1 0 (.send 5), .ret 1 .ok ]
example : (monC06t c06Ctx).ok c06LateSend = false := by decide
example : (monC06orig c06Ctx).ok c06LateSend = false := by decide
example : (monC06 c06Ctx).ok c06LateSend = true := by decide

end Hannibal
