import Hannibal.Proofs.Latch
import Hannibal.Monitor.C14
import Hannibal.Generated.Wiring
/-
  C14 — stopped() / running() tell the truth without anyone awaiting the actor.

  For every wiring whose liveness queries answer from the latch itself
  (`livenessQuery = truthful`) and whose loop notifies after `stopped()`, every
  run of the actor model is accepted by the C14 monitor: every query on every
  handle answers "stopped" exactly from the moment the actor's task has ended.
-/
namespace Hannibal
open AState

def WellWired14 (w : Wiring) : Prop := w.livenessQuery = .truthful ∧ w.notifyAfterStopped = true

instance (w : Wiring) : Decidable (WellWired14 w) := by unfold WellWired14; infer_instance

structure C14Inv (s : AState) (σ : C14St) : Prop where
  done : DoneInv s
  term : σ.terminated = s.isDone

theorem stepQuery_truthful {w s h b s'} (hw : w.livenessQuery = .truthful)
    (hs : stepQuery w s h b = some s') : b = s.latchSet ∧ s' = s := by
  unfold stepQuery at hs
  rw [hw] at hs
  (repeat' (split at hs)) <;> simp_all

theorem c14_step (w : Wiring) (hw : WellWired14 w) (c : MonCtx) {s s' : AState} {σ : C14St} {l : Label}
    (hi : C14Inv s σ) (hs : step w s l = some s') :
    ∃ σ', (monC14 c).step σ l = some σ' ∧ C14Inv s' σ' := by
  have hd := doneInv_step w hw.2 hs hi.done
  obtain ⟨h1, h2⟩ := step_done w hw.2 hs
  by_cases hq : ∃ h b, l = .query h b
  · obtain ⟨h, b, rfl⟩ := hq
    simp only [step] at hs
    obtain ⟨hb, rfl⟩ := stepQuery_truthful hw.1 hs
    refine ⟨σ, ?_, hi⟩
    have : s'.latchSet = s'.isDone := by
      have := hi.done
      unfold DoneInv at this
      unfold latchSet
      cases hl : s'.latch <;> cases hdn : s'.isDone <;> simp_all
    simp [monC14, hb, this, hi.term]
  · cases ht : l.terminates
    · obtain ⟨ha, _⟩ := h2 ht
      refine ⟨σ, ?_, ⟨hd, by rw [ha]; exact hi.term⟩⟩
      cases l <;> simp_all [monC14, Label.terminates]
    · obtain ⟨ha, _⟩ := h1 ht
      refine ⟨{ σ with terminated := true }, ?_, ⟨hd, by simp [ha]⟩⟩
      cases l <;> simp_all [monC14, Label.terminates]

theorem c14_run (w : Wiring) (hw : WellWired14 w) (c : MonCtx) :
    ∀ (ls : List Label) (s s' : AState) (σ : C14St), C14Inv s σ → run w s ls = some s' →
      ∃ σ', (monC14 c).run σ ls = some σ' ∧ C14Inv s' σ'
  | [], s, s', σ, hi, hr => by
    simp [run] at hr; subst hr; exact ⟨σ, rfl, hi⟩
  | l :: ls, s, s', σ, hi, hr => by
    simp only [run] at hr
    cases hs : step w s l with
    | none => simp [hs] at hr
    | some s1 =>
      simp only [hs] at hr
      obtain ⟨σ1, hm, hi1⟩ := c14_step w hw c hi hs
      obtain ⟨σ', hm', hi'⟩ := c14_run w hw c ls s1 s' σ1 hi1 hr
      exact ⟨σ', by simp [Mon.run, hm, hm'], hi'⟩

/-- **C14.** Every query on every handle, in every run (any program, interleaving,
    termination cause, whether or not anybody ever awaited the address), answers
    not-stopped until the actor's task has ended and stopped from then on. -/
theorem C14_holds (w : Wiring) (hw : WellWired14 w) (c : MonCtx) (ls : List Label) (s : AState)
    (hr : run w (AState.init c.cfg c.h0 c.k0) ls = some s) : (monC14 c).ok ls = true := by
  unfold Mon.ok
  obtain ⟨σ', hm, _⟩ := c14_run w hw c ls _ s (monC14 c).init
    ⟨doneInv_init _ _ _, by simp [monC14, AState.init, isDone]⟩ hr
  simp [hm]

/-- The same model under the `peekOnly` wiring (what `Shared::peek` does) violates the
    property: spawn, stop, let the loop finish without anyone awaiting, query ⇒ "running".
    This concrete run is the replay program for the implementation. -/
def c14Witness : List Label :=
  [ .stopReq 0 true, .cbBegin .started, .cbEnd .started true, .tDeq, .cbBegin .stopped,
    .cbEnd .stopped true, .taskDone, .query 0 false ]

def c14Cfg : Cfg := { cap := none, strat := .only, timeout := none, failOnTimeout := false, stream := false }

def peekWiring (w : Wiring) : Wiring := { w with livenessQuery := .peekOnly }

example : (run (peekWiring Wiring.current) (AState.init c14Cfg 0 .addr) c14Witness).isSome = true := by decide
example : (monC14 { cfg := c14Cfg, h0 := 0, k0 := .addr, prompt := true }).ok c14Witness = false := by decide

end Hannibal
