import Hannibal.Props.C07
import Hannibal.Generated.Wiring
/- C07 for the wiring extracted from today's source (re-checked on every run). -/
namespace Hannibal

theorem wellWired07_current : WellWired07 Wiring.current := by decide

theorem C07_current (c : MonCtx) (ls : List Label) (s : AState)
    (hr : run Wiring.current (AState.init c.cfg c.h0 c.k0) ls = some s) : (monC07 c).ok ls = true :=
  C07_holds _ wellWired07_current c ls s hr

example : (run (noResetWiring Wiring.current) (AState.init c07Cfg 0 .addr) c07Witness).isSome = true := by decide

end Hannibal
