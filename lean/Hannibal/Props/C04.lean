import Hannibal.Proofs.Term
import Hannibal.Proofs.Handles
import Hannibal.Proofs.OpsClean
import Hannibal.Proofs.Run
import Hannibal.Monitor.C04
/-
  C04 (announcement): for every wiring whose loop notifies after `stopped()`, every run of the actor
  model is accepted by `monC04`: awaiting an address, `halt`, `try_halt`, `join` and `consume` resolve
  only after the `stopped` callback has finished — Ok / the value exactly when termination was graceful,
  the termination error only when the actor failed — for every awaiter, created before or after
  termination, whatever else happens.
-/
namespace Hannibal
open AState

def failing : Phase → Bool
  | .exiting false | .done false => true
  | _ => false

def gracefulEnd : Phase → Bool
  | .exiting true | .done true => true
  | _ => false

/-- phase-level part of the coupling (independent of the handle table) -/
structure Flags04 (c : MonCtx) (s : AState) (failure stoppedDone : Bool) : Prop where
  cfg : s.cfg = c.cfg
  fail : failure = failing s.phase
  stopd : gracefulEnd s.phase = true → stoppedDone = true

@[simp] theorem next04_failure (c σ l) :
    (next04 c σ l).failure = (if failsActor c.cfg.failOnTimeout l then true else σ.failure) := by
  unfold next04; simp only; split <;> split <;> split <;> rfl
@[simp] theorem next04_stoppedDone (c σ l) :
    (next04 c σ l).stoppedDone = (match l with
      | .cbBegin _ => false
      | .cbEnd .stopped _ => true
      | _ => σ.stoppedDone) := by
  unfold next04; simp only; split <;> split <;> split <;> simp_all
@[simp] theorem next04_terminated (c σ l) :
    (next04 c σ l).terminated = (if l.terminates then true else σ.terminated) := by
  unfold next04; simp only; split <;> split <;> split <;> rfl
@[simp] theorem next04_hold (c σ l) : (next04 c σ l).hold = σ.hold.step l := by
  unfold next04; simp only; split <;> split <;> split <;> rfl

set_option maxHeartbeats 2000000 in
theorem flags04_step (w : Wiring) (c : MonCtx) {s s' : AState} {σ : C04St} {l : Label}
    (hi : Flags04 c s σ.failure σ.stoppedDone) (hs : step w s l = some s') :
    Flags04 c s' (next04 c σ l).failure (next04 c σ l).stoppedDone := by
  obtain ⟨hcfg, hfail, hstop⟩ := hi
  cases l <;> unfold_steps hs <;>
    ((repeat' (split at hs)) <;>
     (first
       | (simp at hs; done)
       | (simp at hs; subst hs
          refine ⟨?_, ?_, ?_⟩ <;>
            simp_all [failing, gracefulEnd, failsActor, Label.isFailure, fail, finish, cancelSlots, killTimers,
              setTimer, addOp, removeOp, removeHandle, push, answer]
          done)
       | (simp at hs; subst hs
          cases hp : s.phase <;>
            (refine ⟨?_, ?_, ?_⟩ <;>
              simp_all [failing, gracefulEnd, failsActor, Label.isFailure, fail, finish, cancelSlots, killTimers,
                openCb, curSlot, isDone])
          done)
       | (simp at hs; subst hs
          unfold answer
          split <;> (refine ⟨?_, ?_, ?_⟩ <;> simp_all [failing, gracefulEnd, failsActor, Label.isFailure])
          done)))

structure C04Inv (c : MonCtx) (s : AState) (σ : C04St) : Prop where
  f : Flags04 c s σ.failure σ.stoppedDone
  h : HInv s σ.hold
  t : TermInv s
  clean : OpsClean s
  term : σ.terminated = s.isDone

theorem latchOk_fired {p : Phase} (h : latchOk .fired p = true) : p = .done true := by
  cases p <;> simp [latchOk] at h
  rename_i g; cases g <;> simp_all [latchOk]

theorem latchOk_dropped {p : Phase} (h : latchOk .dropped p = true) : p = .done false := by
  cases p <;> simp [latchOk] at h
  rename_i g; cases g <;> simp_all [latchOk]

theorem c04_step (w : Wiring) (hw : w.notifyAfterStopped = true) (c : MonCtx) {s s' : AState} {σ : C04St}
    {l : Label} (hi : C04Inv c s σ) (hs : step w s l = some s') :
    ∃ σ', (monC04 c).step σ l = some σ' ∧ C04Inv c s' σ' := by
  have hF := flags04_step w c hi.f hs
  have hH := hinv_step hi.h hs
  have hT := termInv_step w hw hs hi.t
  have hC := opsClean_step hs hi.clean
  obtain ⟨hd1, hd2⟩ := step_isDone w hs
  have hterm : (next04 c σ l).terminated = s'.isDone := by
    simp only [next04_terminated]
    cases ht : l.terminates
    · simp; rw [hd2 ht]; exact hi.term
    · simp [hd1 ht]
  have hbad : bad04 σ l = false := by
    cases l <;> simp only [bad04]
    case ret o r =>
      simp only [step] at hs
      obtain ⟨rec, hfind, hexp, _, hro⟩ := stepRet_ops hs
      obtain ⟨hrec, _⟩ := findOp_some_mem hfind
      have hl := hi.h.ops rec hrec
      rw [hro] at hl
      simp only [hl]
      have hlatch := hi.t.latch
      have hres := hi.t.result
      have hfl := hi.f.fail
      have hsd := hi.f.stopd
      by_cases hlk : isLatchKind rec.kind = true
      · simp only [hlk, if_true]
        -- the operation waits on the latch (or was refused at submission)
        unfold retExpect at hexp
        cases hst : rec.st <;> simp only [hst] at hexp
        case failed e =>
          simp at hexp; subst hexp
          have := hi.clean rec hrec e hst
          rcases this with rfl | rfl <;> simp
        case pending =>
          have hlr : s.latchRes = some r := by
            cases hk : rec.kind <;> simp_all [isLatchKind]
          unfold latchRes at hlr
          cases hlt : s.latch <;> simp [hlt] at hlr
          · subst hlr
            rw [hlt] at hlatch
            have hp := latchOk_fired hlatch
            have := hsd (by simp [hp, gracefulEnd])
            simp [this, hfl, hp, failing]
          · subst hlr
            rw [hlt] at hlatch
            have hp := latchOk_dropped hlatch
            simp [hfl, hp, failing]
        all_goals (cases hk : rec.kind <;> simp_all [isLatchKind])
      · simp only [hlk, Bool.false_eq_true, if_false]
        by_cases hjk : isJoinKind rec.kind = true
        · simp only [hjk, if_true]
          cases r <;> simp
          rename_i f
          unfold retExpect at hexp
          cases hst : rec.st <;> simp only [hst] at hexp
          case joining =>
            split at hexp
            · rename_i hdone
              cases hrs : s.result with
              | none => cases hk : rec.kind <;> simp_all [isJoinKind]
              | some f0 =>
                rw [hrs] at hres
                simp [resultOk] at hres
                have hp := hres.1.1.1
                have := hsd (by simp [hp, gracefulEnd])
                simp [this, hfl, hp, failing, hi.term, isDone]
            · simp at hexp
          all_goals (cases hk : rec.kind <;> simp_all [isJoinKind])
        · simp [hjk]
    all_goals rfl
  exact ⟨next04 c σ l, by simp [monC04, hbad], ⟨hF, by simpa using hH, hT, hC, hterm⟩⟩

theorem c04_init (c : MonCtx) : C04Inv c (AState.init c.cfg c.h0 c.k0) (monC04 c).init := by
  refine ⟨⟨rfl, ?_, ?_⟩, ⟨rfl, by simp [AState.init]⟩, termInv_init _ _ _, opsClean_init _ _ _, ?_⟩ <;>
    simp [monC04, AState.init, failing, gracefulEnd, isDone]

/-- **C04 (announcement).** -/
theorem C04_holds (w : Wiring) (hw : w.notifyAfterStopped = true) (c : MonCtx) (ls : List Label) (s : AState)
    (hr : run w (AState.init c.cfg c.h0 c.k0) ls = some s) : (monC04 c).ok ls = true :=
  ok_of_run_lift (monC04 c) w (C04Inv c) (fun _ _ _ _ hi hs => c04_step w hw c hi hs) _ (c04_init c) ls s hr

end Hannibal

namespace Hannibal
open AState

/-- If the loop notified *before* calling `stopped()` the property fails: an awaiter is released while the
    `stopped` callback is still running. -/
def c04Witness : List Label :=
  [ .cbBegin .started, .cbEnd .started true, .begin 0 0 .await, .stopReq 0 true, .tDeq, .cbBegin .stopped,
    .ret 0 .ok ]
def c04Cfg : Cfg := { cap := none, strat := .only, timeout := none, failOnTimeout := false, stream := false }
def c04Ctx : MonCtx := { cfg := c04Cfg, h0 := 0, k0 := .addr, prompt := true }
example : (monC04 c04Ctx).ok c04Witness = false := by decide

end Hannibal
