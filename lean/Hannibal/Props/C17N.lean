import Hannibal.Props.C17
import Hannibal.Monitor.C02
import Hannibal.Proofs.RunGuard
/-
  C17 (the `None` clauses of `OwningAddr::join` / `consume`): for every wiring whose loop notifies after
  `stopped()`, every run of the actor model whose `begin` labels carry fresh operation ids and in which
  nothing is joined after a `consume` began (`consume` takes the owning address by value) is accepted by
  `monC17n`:
    * a join / consume returns `None` / `Err(AlreadyStopped)` only if it found the join slot already taken,
      or after the actor terminated and (it failed or the value was already handed out);
    * a join that found the slot taken never returns a value.
  Both hypotheses are needed (`c17n_consume_witness`, `c17n_reuse_witness` below).
-/
set_option linter.unusedSimpArgs false
set_option linter.unusedVariables false
namespace Hannibal
open AState

/-- the monitor's table entry of a recorded operation -/
def jOk (r : OpRec) (k : Option OpKind) : Bool :=
  if isJoinKind r.kind then
    (match r.st with
     | .joining => k == some r.kind
     | .joinNone => k == some .ping
     | .failed .send => true
     | _ => false)
  else k == none

structure C17nInv (c : MonCtx) (s : AState) (σ : C17nSt) (g : List Nat × Bool) : Prop where
  flags : ∃ sd, Flags04 c s σ.failure sd
  t : TermInv s
  term : σ.terminated = s.isDone
  l17 : Log17 s s.log σ.handedOut
  ops : ∀ r ∈ s.ops, jOk r (lookup r.o σ.ops) = true
  slot : g.2 = false → σ.slotTaken = s.joinTaken
  seen : ∀ o, (lookup o σ.ops).isSome = true → g.1.contains o = true

/-- the join slot is only touched by `begin` -/
theorem step_joinTaken_same {w : Wiring} {s s' : AState} {l : Label} (hs : step w s l = some s')
    (hl : ∀ o h k, l ≠ .begin o h k) : s'.joinTaken = s.joinTaken := by
  cases l <;> unfold_steps hs
  case begin o h k => exact absurd rfl (hl o h k)
  all_goals
    ((repeat' (split at hs)) <;>
     (first
       | (simp at hs; done)
       | (simp at hs; subst hs
          simp [fail, finish, cancelSlots, killTimers, setTimer, addOp, push, removeOp, removeHandle]; done)
       | (simp at hs; subst hs; unfold answer; split <;> simp; done)))

/-- what `begin` of a join / consume does -/
theorem stepBegin_join {w s o h k s'} (hs : stepBegin w s o h k = some s') (hk : isJoinKind k = true) :
    s.findOp o = none ∧ ∃ st, s'.ops = s.ops ++ [{ o, h, kind := k, st }] ∧
      ((st = .joining ∧ s.joinTaken = false ∧ s'.joinTaken = true) ∨
       (st = .joinNone ∧ s.joinTaken = true ∧ s'.joinTaken = true) ∨
       (st = .failed .send ∧ k = .consume ∧ s'.joinTaken = s.joinTaken)) := by
  have hfresh := (stepBegin_ops hs).1
  refine ⟨hfresh, ?_⟩
  unfold stepBegin at hs
  cases hhk : s.handleKind h with
  | none => simp [hhk] at hs
  | some hk' =>
    simp only [hhk] at hs
    split at hs
    · simp at hs
    · cases k <;> simp [isJoinKind] at hk
      · -- join
        simp [plan, reqOk, beginWait] at hs
        split at hs
        · subst hs; exact ⟨_, rfl, .inr (.inl ⟨rfl, by assumption, by simpa [addOp]⟩)⟩
        · subst hs; rename_i hjt
          exact ⟨_, rfl, .inl ⟨rfl, by simpa using hjt, by simp [addOp]⟩⟩
      · -- consume
        simp [plan, reqOk, beginWait] at hs
        cases hjt : s.joinTaken <;> cases hrx : s.chan.rx <;> simp [hjt, hrx, push] at hs <;> subst hs
        · exact ⟨_, rfl, .inr (.inr ⟨rfl, rfl, by simp [addOp, hjt]⟩)⟩
        · exact ⟨_, rfl, .inl ⟨rfl, rfl, by simp [addOp]⟩⟩
        · exact ⟨_, rfl, .inr (.inr ⟨rfl, rfl, by simp [addOp, hjt]⟩)⟩
        · exact ⟨_, rfl, .inr (.inl ⟨rfl, rfl, by simp [addOp, hjt]⟩)⟩

/-- the monitor's move on a label that neither begins nor completes an operation -/
def otherNext (c : MonCtx) (σ : C17nSt) (l : Label) : C17nSt :=
  let σ1 := if failsActor c.cfg.failOnTimeout l then { σ with failure := true } else σ
  if l.terminates then { σ1 with terminated := true } else σ1

theorem mon17n_other (c : MonCtx) (σ : C17nSt) {l : Label} (h1 : ∀ o h k, l ≠ .begin o h k)
    (h2 : ∀ o r, l ≠ .ret o r) : (monC17n c).step σ l = some (otherNext c σ l) := by
  cases l
  case begin o h k => exact absurd rfl (h1 o h k)
  case ret o r => exact absurd rfl (h2 o r)
  all_goals (simp only [monC17n, otherNext]; split <;> rfl)

@[simp] theorem otherNext_ops (c σ l) : (otherNext c σ l).ops = σ.ops := by
  unfold otherNext; simp only; split <;> split <;> rfl
@[simp] theorem otherNext_handedOut (c σ l) : (otherNext c σ l).handedOut = σ.handedOut := by
  unfold otherNext; simp only; split <;> split <;> rfl
@[simp] theorem otherNext_slotTaken (c σ l) : (otherNext c σ l).slotTaken = σ.slotTaken := by
  unfold otherNext; simp only; split <;> split <;> rfl
@[simp] theorem otherNext_failure (c σ l) :
    (otherNext c σ l).failure = (if failsActor c.cfg.failOnTimeout l then true else σ.failure) := by
  unfold otherNext; simp only; split <;> split <;> rfl
@[simp] theorem otherNext_terminated (c σ l) :
    (otherNext c σ l).terminated = (if l.terminates then true else σ.terminated) := by
  unfold otherNext; simp only; split <;> split <;> rfl

/-- the parts of the coupling that every label moves in the same way -/
theorem c17n_common (w : Wiring) (hw : w.notifyAfterStopped = true) (c : MonCtx) {s s' : AState}
    {σ : C17nSt} {g : List Nat × Bool} {l : Label} (hi : C17nInv c s σ g) (hs : step w s l = some s') :
    (∃ sd, Flags04 c s' (if failsActor c.cfg.failOnTimeout l then true else σ.failure) sd) ∧ TermInv s' ∧
      (if l.terminates then true else σ.terminated) = s'.isDone := by
  obtain ⟨sd, hfl⟩ := hi.flags
  have hF := flags04_step w c
    (σ := { hold := HoldSt.init 0 .addr, failure := σ.failure, stoppedDone := sd, terminated := false }) hfl hs
  simp only [next04_failure] at hF
  obtain ⟨hd1, hd2⟩ := step_isDone w hs
  refine ⟨⟨_, hF⟩, termInv_step w hw hs hi.t, ?_⟩
  cases ht : l.terminates
  · simp; rw [hd2 ht]; exact hi.term
  · simp [hd1 ht]

theorem log17_step' (w : Wiring) {s s' : AState} {ho : Bool} {l : Label}
    (hi : Log17 s s.log ho) (hs : step w s l = some s') (hl : ∀ o r, l ≠ .ret o r) : Log17 s' s'.log ho := by
  have h := log17_step w hi hs hl
  have := h.log
  rw [this] at h
  exact h

theorem c17n_step (w : Wiring) (hw : w.notifyAfterStopped = true) (c : MonCtx) {s s' : AState}
    {σ : C17nSt} {g g' : List Nat × Bool} {l : Label} (hi : C17nInv c s σ g) (hs : step w s l = some s')
    (hg : ((monC02wf default).prod monC17nwf).step g l = some g') :
    ∃ σ', (monC17n c).step σ l = some σ' ∧ C17nInv c s' σ' g' := by
  obtain ⟨hF, hT, hterm⟩ := c17n_common w hw c hi hs
  obtain ⟨hg1, hg2⟩ := Mon.prod_step_some hg
  by_cases hbeg : ∃ o h k, l = .begin o h k
  · obtain ⟨o, h, k, rfl⟩ := hbeg
    have hL := log17_step' w hi.l17 hs (by intro _ _ hh; cases hh)
    have hnf : failsActor c.cfg.failOnTimeout (.begin o h k) = false := rfl
    have hnt : (Label.begin o h k).terminates = false := rfl
    simp only [hnf, hnt, Bool.false_eq_true, if_false] at hF hterm
    -- the guards
    simp only [monC02wf] at hg1
    split at hg1
    · simp at hg1
    rename_i hseen
    simp at hg1
    have hlk : lookup o σ.ops = none := by
      cases hl : lookup o σ.ops with
      | none => rfl
      | some v => exact absurd (hi.seen o (by simp [hl])) hseen
    simp only [step] at hs
    by_cases hk : isJoinKind k = true
    · obtain ⟨hfresh, st, hops, hcase⟩ := stepBegin_join hs hk
      have hne := findOp_none_ne hfresh
      have hcons : g.2 = false ∧ (k = .consume → g'.2 = true) := by
        cases k <;> simp [isJoinKind] at hk <;> simp only [monC17nwf] at hg2 <;> split at hg2 <;> simp_all
      have hslot := hi.slot hcons.1
      have hm : (monC17n c).step σ (.begin o h k) =
          some { σ with ops := (o, (if σ.slotTaken then .ping else k)) :: σ.ops, slotTaken := true } := by
        cases k <;> simp [isJoinKind] at hk <;> rfl
      refine ⟨_, hm, ⟨hF, hT, hterm, hL, ?_, ?_, ?_⟩⟩
      · intro r hr
        rw [hops] at hr
        rcases List.mem_append.mp hr with hr | hr
        · simp only
          rw [lookup_cons_ne (hne r hr).symm]
          exact hi.ops r hr
        · simp at hr; subst hr
          simp only [lookup_cons_eq]
          rcases hcase with ⟨rfl, hjt, _⟩ | ⟨rfl, hjt, _⟩ | ⟨rfl, _, _⟩
          · simp [jOk, hk, hslot, hjt]
          · simp [jOk, hk, hslot, hjt]
          · simp [jOk, hk]
      · intro hg'
        simp only
        rcases hcase with ⟨_, _, hjt⟩ | ⟨_, _, hjt⟩ | ⟨_, hkc, _⟩
        · exact hjt.symm
        · exact hjt.symm
        · rw [hcons.2 hkc] at hg'; cases hg'
      · intro o' ho'
        rw [← hg1]
        simp only [lookup] at ho'
        by_cases he : o = o'
        · simp [he]
        · simp [he] at ho'
          have := hi.seen o' (by simpa using ho')
          simp at this ⊢
          exact .inr this
    · have hk' : isJoinKind k = false := by simpa using hk
      obtain ⟨hfresh, st, hops⟩ := stepBegin_ops hs
      have hne := findOp_none_ne hfresh
      have hjt := step_joinTaken_same (w := w) (l := .begin o h k) (s := s) (s' := s') (by simpa [step] using hs)
      have hm : (monC17n c).step σ (.begin o h k) = some σ := by
        cases k <;> simp [isJoinKind] at hk' <;> rfl
      have hg2' : g'.2 = g.2 := by
        cases k <;> simp [isJoinKind] at hk' <;> simp [monC17nwf] at hg2 <;> exact hg2.symm
      have hjt : s'.joinTaken = s.joinTaken := by
        unfold stepBegin at hs
        cases k <;> simp [isJoinKind] at hk' <;>
          ((repeat' (split at hs)) <;>
            (first
              | (simp at hs; done)
              | (simp [plan, beginWait] at hs; subst hs; simp [addOp, push]; done)
              | (simp [plan, beginWait] at hs; done)))
      refine ⟨σ, hm, ⟨hF, hT, hterm, hL, ?_, ?_, ?_⟩⟩
      · intro r hr
        rw [hops] at hr
        rcases List.mem_append.mp hr with hr | hr
        · exact hi.ops r hr
        · simp at hr; subst hr
          simp [jOk, hk', hlk]
      · intro hg'; rw [hjt]; exact hi.slot (by rw [← hg2']; exact hg')
      · intro o' ho'
        rw [← hg1]
        have := hi.seen o' ho'
        simp at this ⊢
        exact .inr this
  · have hnb : ∀ o h k, l ≠ .begin o h k := fun o h k hh => hbeg ⟨o, h, k, hh⟩
    have hjt := step_joinTaken_same hs hnb
    have hg1' : g'.1 = g.1 := by
      cases l <;> simp [monC02wf] at hg1 <;> first | exact hg1.symm | exact absurd rfl (hnb _ _ _)
    have hg2' : g'.2 = g.2 := by
      cases l <;> simp [monC17nwf] at hg2 <;> first | exact hg2.symm | exact absurd rfl (hnb _ _ _)
    have hslot : g'.2 = false → σ.slotTaken = s'.joinTaken := by
      intro hh; rw [hjt]; exact hi.slot (by rw [← hg2']; exact hh)
    by_cases hret : ∃ o r, l = .ret o r
    · obtain ⟨o, r, rfl⟩ := hret
      have hnf : failsActor c.cfg.failOnTimeout (.ret o r) = false := rfl
      have hnt : (Label.ret o r).terminates = false := rfl
      simp only [hnf, hnt, Bool.false_eq_true, if_false] at hF hterm
      simp only [step] at hs
      obtain ⟨rec, hfind, hexp, hops, hro⟩ := stepRet_ops hs
      obtain ⟨hrec, _⟩ := findOp_some_mem hfind
      have hj := hi.ops rec hrec
      rw [hro] at hj
      have hs' : s' = s.retEffect rec := by
        unfold stepRet at hs; simp only [hfind, hexp, if_true] at hs; simpa using hs.symm
      have hops' : ∀ σ' : C17nSt, σ'.ops = σ.ops → ∀ r ∈ s'.ops, jOk r (lookup r.o σ'.ops) = true := by
        intro σ' hσ' r0 hr0
        rw [hops] at hr0
        rw [hσ']
        exact hi.ops r0 (List.mem_filter.mp hr0).1
      have hseen' : ∀ σ' : C17nSt, σ'.ops = σ.ops →
          ∀ o, (lookup o σ'.ops).isSome = true → g'.1.contains o = true := by
        intro σ' hσ' o' ho'
        rw [hσ'] at ho'; rw [hg1']; exact hi.seen o' ho'
      have hh := hi.l17.handed
      have hres := hi.t.result
      -- the generic successor: nothing handed out
      have keep : rec.st ≠ .joining → Log17 s' s'.log σ.handedOut := by
        intro hj'
        rw [hs']
        refine ⟨rfl, ?_, ?_⟩
        · simpa [retEffect_phase, retEffect_log] using hi.l17.fresh
        · simp only [retEffect_phase, retEffect_result, hj', if_false]; exact hh
      by_cases hjk : isJoinKind rec.kind = true
      · unfold retExpect at hexp
        cases hst : rec.st <;> simp only [hst] at hexp <;> simp [jOk, hjk, hst] at hj
        case joining =>
          split at hexp
          · rename_i hdone
            cases hrs : s.result with
            | none =>
              -- nothing to hand out: the actor failed, or the value is gone
              have hr : r = .none ∨ r = .err .alreadyStopped := by
                cases hkk : rec.kind <;> simp_all [isJoinKind]
              have hpre : (σ.terminated && (σ.failure || σ.handedOut)) = true := by
                rw [hi.term, hdone]
                obtain ⟨sd, hfl⟩ := hi.flags
                have hff := hfl.fail
                cases hp : s.phase <;> simp [isDone, hp] at hdone
                rename_i gr
                cases gr
                · simp [hff, hp, failing]
                · simp [handedOk, hp, hrs] at hh; simp [hh]
              have hne : rec.kind ≠ .ping := by
                intro hh; rw [hh] at hjk; simp [isJoinKind] at hjk
              have hpre' := hpre
              simp at hpre'
              have hm : (monC17n c).step σ (.ret o r) = some σ := by
                rcases hr with rfl | rfl <;> simp [monC17n, hj, hpre', hne]
              refine ⟨σ, hm, ⟨hF, hT, hterm, ?_, hops' σ rfl, hslot, hseen' σ rfl⟩⟩
              rw [hs']
              refine ⟨rfl, ?_, ?_⟩
              · simpa [retEffect_phase, retEffect_log] using hi.l17.fresh
              · cases hp : s.phase <;> simp_all [handedOk, retEffect_phase, retEffect_result, isDone]
            | some f0 =>
              rw [hrs] at hres
              simp [resultOk] at hres
              have hp := hres.1.1.1
              have hr : r = .some f0 := by
                cases hkk : rec.kind <;> simp_all [isJoinKind]
              subst hr
              have hne : (rec.kind == OpKind.ping) = false := by
                cases hkk : rec.kind <;> simp_all [isJoinKind]
              have hne' : rec.kind ≠ .ping := by simpa using hne
              have hm : (monC17n c).step σ (.ret o (.some f0)) = some { σ with handedOut := true } := by
                simp [monC17n, hj, hne']
              refine ⟨_, hm, ⟨hF, hT, hterm, ?_, hops' _ rfl, hslot, hseen' _ rfl⟩⟩
              rw [hs']
              refine ⟨rfl, ?_, ?_⟩
              · simp [retEffect_phase, hp]
              · simp [handedOk, retEffect_phase, hp, retEffect_result, hst]
          · simp at hexp
        case joinNone =>
          have hr : r = .none ∨ r = .err .alreadyStopped := by
            cases hkk : rec.kind <;> simp_all [isJoinKind]
          have hm : (monC17n c).step σ (.ret o r) = some σ := by
            rcases hr with rfl | rfl <;> simp [monC17n, hj]
          exact ⟨σ, hm, ⟨hF, hT, hterm, keep (by rw [hst]; simp), hops' σ rfl, hslot, hseen' σ rfl⟩⟩
        case failed e =>
          simp at hexp
          have he : e = .send := by cases e <;> simp_all
          subst he; subst hexp
          have hm : (monC17n c).step σ (.ret o (.err .send)) = some σ := by
            simp only [monC17n]; split <;> rfl
          exact ⟨σ, hm, ⟨hF, hT, hterm, keep (by rw [hst]; simp), hops' σ rfl, hslot, hseen' σ rfl⟩⟩
      · have hjk' : isJoinKind rec.kind = false := by simpa using hjk
        simp [jOk, hjk'] at hj
        have hm : (monC17n c).step σ (.ret o r) = some σ := by simp [monC17n, hj]
        have hnj : rec.st ≠ .joining := by
          intro hst
          unfold retExpect at hexp
          simp only [hst] at hexp
          split at hexp
          · cases hkk : rec.kind <;> simp_all [isJoinKind]
          · simp at hexp
        exact ⟨σ, hm, ⟨hF, hT, hterm, keep hnj, hops' σ rfl, hslot, hseen' σ rfl⟩⟩
    · have hnr : ∀ o r, l ≠ .ret o r := fun o r hh => hret ⟨o, r, hh⟩
      have hL := log17_step' w hi.l17 hs hnr
      refine ⟨_, mon17n_other c σ hnb hnr, ⟨by simpa using hF, hT, by simpa using hterm, by simpa using hL,
        ?_, by simpa using hslot, ?_⟩⟩
      · simp only [otherNext_ops]
        by_cases hcd : ∃ o, l = .cdrop o
        · obtain ⟨o, rfl⟩ := hcd
          simp only [step] at hs
          have hops := stepCdrop_ops hs
          intro r0 hr0
          rw [hops] at hr0
          exact hi.ops r0 (List.mem_filter.mp hr0).1
        · have hedge : l.isOpEdge = false := by
            cases l <;> simp [Label.isOpEdge]
            · exact hnb _ _ _ rfl
            · exact hnr _ _ rfl
            · exact hcd ⟨_, rfl⟩
          obtain ⟨f, hf, pf⟩ := step_ops hs hedge
          intro r' hr'
          rw [hf] at hr'
          obtain ⟨r0, hr0, rfl⟩ := List.mem_map.mp hr'
          have h0 := hi.ops r0 hr0
          rw [pf.o]
          unfold jOk at h0 ⊢
          rw [pf.kind]
          by_cases hjk : isJoinKind r0.kind = true
          · simp only [hjk, if_true] at h0 ⊢
            have hnp : r0.st ≠ .pending := by
              intro hp; rw [hp] at h0; simp at h0
            rw [pf.keep r0 hnp]; exact h0
          · simp only [hjk, Bool.false_eq_true, if_false] at h0 ⊢; exact h0
      · intro o' ho'
        simp only [otherNext_ops] at ho'
        rw [hg1']; exact hi.seen o' ho'

theorem c17n_init (c : MonCtx) :
    C17nInv c (AState.init c.cfg c.h0 c.k0) (monC17n c).init ((monC02wf default).prod monC17nwf).init := by
  refine ⟨⟨false, ⟨rfl, ?_, ?_⟩⟩, termInv_init _ _ _, ?_, ⟨rfl, ?_, ?_⟩, ?_, ?_, ?_⟩ <;>
    simp [monC17n, AState.init, failing, gracefulEnd, isDone, handedOk, Mon.prod, monC17nwf, lookup]

/-- **C17 (the `None` clauses).** In every run whose operations carry fresh ids and in which `consume` is
    the last use of the owning address, a join / consume returns `None` / `Err(AlreadyStopped)` only if it
    found the join slot taken or after the actor terminated and (failed or had its value handed out), and a
    join that found the slot taken never returns a value. -/
theorem C17n_holds (w : Wiring) (hw : w.notifyAfterStopped = true) (c : MonCtx) (ls : List Label) (s : AState)
    (hr : run w (AState.init c.cfg c.h0 c.k0) ls = some s) (hfresh : opIdsFresh ls = true)
    (hlast : consumeLast ls = true) : (monC17n c).ok ls = true := by
  refine ok_of_run_lift_g (monC17n c) ((monC02wf default).prod monC17nwf) w (C17nInv c)
    (fun _ _ _ _ _ _ hi hs hg => c17n_step w hw c hi hs hg) _ (c17n_init c) ls s hr ?_
  rw [Mon.prod_ok]
  simp only [opIdsFresh, consumeLast] at hfresh hlast
  simp [hfresh, hlast]

/-! ### non-vacuity and the witnesses for the two hypotheses -/

def c17nCfg : Cfg := { cap := none, strat := .only, timeout := none, failOnTimeout := false, stream := false }
def c17nCtx : MonCtx := { cfg := c17nCfg, h0 := 0, k0 := .owning, prompt := true }

/-- two concurrent joins and a consume: the first join gets the value, the others `None` / `AlreadyStopped` -/
def c17nExample : List Label :=
  [ .cbBegin .started, .cbEnd .started true, .begin 0 0 (.send 5), .ret 0 .ok, .cbBegin (.handle 5),
    .cbEnd (.handle 5) true, .begin 1 0 .join, .begin 2 0 .join, .mk 0 1 .addr, .stopReq 1 true, .tDeq,
    .cbBegin .stopped, .cbEnd .stopped true, .ret 2 .none, .taskDone,
    .ret 1 (.some { birth := 0, stoppedSeen := true, digest := [5] }),
    .begin 3 0 .join, .ret 3 .none, .begin 4 0 .consume, .ret 4 (.err .send) ]
example : (monC17n c17nCtx).ok c17nExample = true := by decide
example : opIdsFresh c17nExample = true := by decide
example : consumeLast c17nExample = true := by decide

/-- a failed actor: the only join returns `None` after termination -/
def c17nExampleFail : List Label :=
  [ .cbBegin .started, .begin 1 0 .join, .cbPanic .started, .taskDone, .ret 1 .none ]
example : (monC17n c17nCtx).ok c17nExampleFail = true := by decide

/-- rejected: `None` from the first join while the actor still runs -/
example : (monC17n c17nCtx).ok
    [ .cbBegin .started, .cbEnd .started true, .begin 1 0 .join, .ret 1 .none ] = false := by decide
/-- rejected: `None` from the first join after a graceful termination whose value nobody took -/
example : (monC17n c17nCtx).ok
    [ .cbBegin .started, .cbEnd .started true, .mk 0 1 .addr, .stopReq 1 true, .tDeq, .cbBegin .stopped,
      .cbEnd .stopped true, .taskDone, .begin 1 0 .join, .ret 1 .none ] = false := by decide
/-- rejected: a value from a join that found the slot taken -/
example : (monC17n c17nCtx).ok (c17nExample.take 16 ++
    [ .begin 3 0 .join, .ret 3 (.some { birth := 0, stoppedSeen := true, digest := [5] }) ]) = false := by decide

/-- Why `consumeLast`: `consume` on a terminated actor fails at its `stop()` and never reaches the join
    slot, but the monitor counts it as a claim; the model (not Rust: `consume(self)`) lets a join begin
    afterwards, which then gets the value. -/
def c17n_consume_witness : List Label :=
  [ .cbBegin .started, .cbEnd .started true, .mk 0 1 .addr, .stopReq 1 true, .tDeq, .cbBegin .stopped,
    .cbEnd .stopped true, .taskDone, .begin 1 0 .consume, .begin 2 0 .join,
    .ret 2 (.some { birth := 0, stoppedSeen := true, digest := [] }) ]
example : (monC17n c17nCtx).ok c17n_consume_witness = false := by decide
example : opIdsFresh c17n_consume_witness = true := by decide
example : consumeLast c17n_consume_witness = false := by decide

/-- Why fresh ids: the id of a dropped join future is reused by a `try_call` whose upgrade fails. -/
def c17n_reuse_witness : List Label :=
  [ .cbBegin .started, .cbEnd .started true, .mk 0 1 .weakCaller, .begin 1 0 .join, .cdrop 1, .mk 0 2 .addr,
    .stopReq 2 true, .drop 2, .detach 0 3, .drop 3, .begin 1 1 (.tryCall 5), .ret 1 (.err .alreadyStopped) ]
example : (monC17n c17nCtx).ok c17n_reuse_witness = false := by decide
example : opIdsFresh c17n_reuse_witness = false := by decide
example : consumeLast c17n_reuse_witness = true := by decide

end Hannibal
