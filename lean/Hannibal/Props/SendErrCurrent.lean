import Hannibal.Props.SendErr
import Hannibal.Generated.Wiring
/- SendErr for the wiring extracted from today's source. -/
namespace Hannibal

theorem SendErr_current (c : MonCtx) (ls : List Label) (s : AState)
    (hr : run Wiring.current (AState.init c.cfg c.h0 c.k0) ls = some s) : monSendErr.ok ls = true :=
  SendErr_holds _ c ls s hr

def sendErrCfg : Cfg := { cap := none, strat := .only, timeout := none, failOnTimeout := false, stream := false }

/-- a send handled while the actor lives, a send accepted while `stopped` runs (the mailbox is still open),
    graceful stop, the task ends, then a call and a send are refused with a send error -/
def sendErrExample : List Label :=
  [ .cbBegin .started, .cbEnd .started true,
    .begin 0 0 (.send 7), .ret 0 .ok, .cbBegin (.handle 7), .cbEnd (.handle 7) true,
    .stopReq 0 true, .tDeq, .cbBegin .stopped, .begin 1 0 (.send 8), .ret 1 .ok, .cbEnd .stopped true, .taskDone,
    .begin 3 0 (.call 9), .ret 3 (.err .send), .begin 4 0 (.send 10), .ret 4 (.err .send) ]

/-- the example is a run of the model under today's wiring, and the monitor accepts it -/
example : (run Wiring.current (AState.init sendErrCfg 0 .addr) sendErrExample).isSome = true := by decide
example : monSendErr.ok sendErrExample = true := by decide
/-- the same with the default configuration -/
example : (run Wiring.current (AState.init default 0 .addr) sendErrExample).isSome = true := by decide

/-- the model refuses the send error while the task still runs (in `stopped`): the prefix with the refusal moved
    before `taskDone` is not a run, and the monitor flags it -/
def sendErrBad : List Label :=
  [ .cbBegin .started, .cbEnd .started true,
    .stopReq 0 true, .tDeq, .cbBegin .stopped, .begin 1 0 (.send 8), .ret 1 (.err .send) ]
example : (run Wiring.current (AState.init sendErrCfg 0 .addr) sendErrBad).isSome = false := by decide
example : monSendErr.ok sendErrBad = false := by decide

end Hannibal
