import Hannibal.Props.C04
import Hannibal.Generated.Wiring
/- C04 (announcement) for the wiring extracted from today's source. -/
namespace Hannibal

theorem wellWired04_current : Wiring.current.notifyAfterStopped = true := by decide

theorem C04_current (c : MonCtx) (ls : List Label) (s : AState)
    (hr : run Wiring.current (AState.init c.cfg c.h0 c.k0) ls = some s) : (monC04 c).ok ls = true :=
  C04_holds _ wellWired04_current c ls s hr

/-- the early-notify wiring admits the violating run -/
def earlyNotify (w : Wiring) : Wiring := { w with notifyAfterStopped := false }
example : (run (earlyNotify Wiring.current) (AState.init c04Cfg 0 .addr) c04Witness).isSome = true := by decide
example : (run Wiring.current (AState.init c04Cfg 0 .addr) c04Witness).isSome = false := by decide

end Hannibal
