import Hannibal.Props.C09Q
/-
  C09, progress (broker): "terminated subscribers neither block nor fail a publish; the broker never waits for a
  subscriber that is gone".

  From EVERY reachable state of the broker model - whatever subscribers have terminated, at whatever point - there is
  a continuation that uses only the broker's own moves (`benq`, `bproc`), take-ups by subscribers that are alive
  (`deliver c m` with `c ∉ dead`) and returns (`bret`), needs no new client operation and no further termination,
  and ends in a settled state (`pend = mbox = flight = []`) in which every begun operation has returned (`sent = []`).

  Schedule (each phase is its own lemma, with an explicit witness):
    1. `benq` the head of `pend` until `pend = []`       (`phase_enq09p`)
    2. `bproc` until `mbox = []`                          (`phase_proc09p`)
    3. `deliver` the head of `flight` until `flight = []` (`phase_del09p`; needs `NoDeadFl09p`: nothing is on its
       way to a dead subscriber - `bproc` skips dead subscribers, `term c` drops what was on its way to `c`)
    4. `bret` the head of `sent` until `sent = []`        (`phase_ret09p`)
  Phases 1 and 4 recurse on a bound of the length of `pend` / `sent` (`filter` removes at least the head), so no
  uniqueness invariant on operation ids is needed.  That `dead` does not change and that no `deliver` of the
  continuation goes to a dead subscriber follows for *every* accepted progress list (`progress_dead09p`).
-/
namespace Hannibal

/-- labels that need no cooperation from any terminated subscriber and no new client operation:
    the broker's own moves, take-ups by live subscribers, and returns -/
def BLabel.isProgress09p : BLabel → Bool
  | .benq _ | .bproc | .bret _ | .deliver _ _ => true
  | _ => false

/-! ### runs -/

theorem brun_append09p : ∀ (l1 l2 : List BLabel) (s s1 : BrSt), brun s l1 = some s1 →
    brun s (l1 ++ l2) = brun s1 l2
  | [], _, s, s1, h => by simp only [brun] at h; cases h; rfl
  | l :: l1, l2, s, s1, h => by
    simp only [brun, List.cons_append] at h ⊢
    cases hs : bstep s l with
    | none => simp [hs] at h
    | some s' =>
      simp only [hs] at h ⊢
      exact brun_append09p l1 l2 s' s1 h

theorem brun_cons09p {s s1 : BrSt} {l : BLabel} (ls : List BLabel) (h : bstep s l = some s1) :
    brun s (l :: ls) = brun s1 ls := by
  simp only [brun, h]

/-! ### nothing is on its way to a dead subscriber -/

def NoDeadFl09p (s : BrSt) : Prop := ∀ p ∈ s.flight, s.dead.contains p.1 = false

theorem noDeadFl_step09p {s s' : BrSt} {l : BLabel} (hi : NoDeadFl09p s) (hs : bstep s l = some s') :
    NoDeadFl09p s' := by
  cases l with
  | bbegin o it =>
    simp only [bstep] at hs
    split at hs
    · cases hs
    · cases hs; exact hi
  | benq o =>
    simp only [bstep] at hs
    split at hs
    · cases hs; exact hi
    · cases hs
  | bret o =>
    simp only [bstep] at hs
    split at hs
    · cases hs; exact hi
    · cases hs
  | bproc =>
    simp only [bstep] at hs
    split at hs
    · cases hs
    · cases hs; exact hi
    · cases hs; exact hi
    · cases hs
      intro p hp
      simp only [List.mem_append, List.mem_map, List.mem_filter] at hp
      rcases hp with hp | ⟨c, ⟨_, hc⟩, rfl⟩
      · exact hi p hp
      · simpa using hc
  | deliver c m =>
    simp only [bstep] at hs
    split at hs
    · cases hs
    · split at hs
      · split at hs
        · cases hs
          intro p hp
          exact hi p (List.mem_of_mem_erase hp)
        · cases hs
      · cases hs
  | term c =>
    simp only [bstep] at hs
    cases hs
    intro p hp
    simp only [List.mem_filter] at hp
    have h1 := hi p hp.1
    have h2 : p.1 ≠ c := by simpa using hp.2
    simp only [List.contains_cons, Bool.or_eq_false_iff]
    exact ⟨by simpa using h2, h1⟩

theorem noDeadFl_run09p : ∀ (ls : List BLabel) (s s' : BrSt), NoDeadFl09p s → brun s ls = some s' → NoDeadFl09p s'
  | [], s, s', hi, h => by simp only [brun] at h; cases h; exact hi
  | l :: ls, s, s', hi, h => by
    simp only [brun] at h
    cases hs : bstep s l with
    | none => simp [hs] at h
    | some s1 =>
      simp only [hs] at h
      exact noDeadFl_run09p ls s1 s' (noDeadFl_step09p hi hs) h

theorem noDeadFl_init09p : NoDeadFl09p BrSt.init := by
  intro p hp; simp [BrSt.init] at hp

/-- every reachable state: nothing is on its way to a dead subscriber -/
theorem noDeadFl_reach09p {ls : List BLabel} {s : BrSt} (hr : brun BrSt.init ls = some s) : NoDeadFl09p s :=
  noDeadFl_run09p ls _ _ noDeadFl_init09p hr

/-! ### progress labels leave `dead` alone, and an accepted `deliver` goes to a live subscriber -/

theorem progress_step_dead09p {s s' : BrSt} {l : BLabel} (hp : l.isProgress09p = true) (hs : bstep s l = some s') :
    s'.dead = s.dead ∧ ∀ c m, l = .deliver c m → ¬ c ∈ s.dead := by
  cases l with
  | bbegin o it => simp [BLabel.isProgress09p] at hp
  | term c => simp [BLabel.isProgress09p] at hp
  | benq o =>
    simp only [bstep] at hs
    split at hs
    · cases hs; exact ⟨rfl, fun _ _ h => by cases h⟩
    · cases hs
  | bret o =>
    simp only [bstep] at hs
    split at hs
    · cases hs; exact ⟨rfl, fun _ _ h => by cases h⟩
    · cases hs
  | bproc =>
    simp only [bstep] at hs
    split at hs
    · cases hs
    · cases hs; exact ⟨rfl, fun _ _ h => by cases h⟩
    · cases hs; exact ⟨rfl, fun _ _ h => by cases h⟩
    · cases hs; exact ⟨rfl, fun _ _ h => by cases h⟩
  | deliver c m =>
    simp only [bstep] at hs
    split at hs
    · cases hs
    · rename_i hd
      split at hs
      · split at hs
        · cases hs
          refine ⟨rfl, ?_⟩
          intro c' m' h
          cases h
          simpa using hd
        · cases hs
      · cases hs

theorem progress_dead09p : ∀ (ls : List BLabel) (s s' : BrSt), ls.all BLabel.isProgress09p = true →
    brun s ls = some s' → s'.dead = s.dead ∧ ∀ c m, .deliver c m ∈ ls → ¬ c ∈ s.dead
  | [], s, s', _, h => by
    simp only [brun] at h; cases h
    exact ⟨rfl, fun _ _ h => by cases h⟩
  | l :: ls, s, s', hp, h => by
    simp only [List.all_cons, Bool.and_eq_true] at hp
    simp only [brun] at h
    cases hs : bstep s l with
    | none => simp [hs] at h
    | some s1 =>
      simp only [hs] at h
      obtain ⟨hd1, hl1⟩ := progress_step_dead09p hp.1 hs
      obtain ⟨hd2, hl2⟩ := progress_dead09p ls s1 s' hp.2 h
      refine ⟨by rw [hd2, hd1], ?_⟩
      intro c m hm
      rcases List.mem_cons.mp hm with hm | hm
      · exact hl1 c m hm.symm
      · rw [← hd1]; exact hl2 c m hm

/-! ### phase 1: every pending operation enters the mailbox -/

theorem filter_head_lt09p {α : Type} (p : α → Bool) (a : α) (l : List α) (ha : p a = false) :
    ((a :: l).filter p).length ≤ l.length := by
  rw [List.filter_cons_of_neg (by simp [ha])]
  exact List.length_filter_le p l

theorem phase_enq09p : ∀ (n : Nat) (s : BrSt), s.pend.length ≤ n →
    ∃ (ls : List BLabel) (s' : BrSt), ls.all BLabel.isProgress09p = true ∧ brun s ls = some s' ∧ s'.pend = []
  | 0, s, hn => ⟨[], s, rfl, rfl, List.eq_nil_of_length_eq_zero (Nat.le_zero.mp hn)⟩
  | n + 1, s, hn => by
    cases hp : s.pend with
    | nil => exact ⟨[], s, rfl, rfl, hp⟩
    | cons a rest =>
      obtain ⟨o, it⟩ := a
      let s1 : BrSt :=
        { s with pend := s.pend.filter (fun p => p.1 != o), sent := o :: s.sent, mbox := s.mbox ++ [it] }
      have hs : bstep s (.benq o) = some s1 := by
        simp only [bstep, hp]
        rw [List.find?_cons_of_pos (by simp)]
        simp only [s1, hp]
      have hlen : s1.pend.length ≤ n := by
        show (s.pend.filter (fun p => p.1 != o)).length ≤ n
        rw [hp]
        have := filter_head_lt09p (fun p : Nat × BItem => p.1 != o) (o, it) rest (by simp)
        rw [hp] at hn
        simp only [List.length_cons] at hn
        omega
      obtain ⟨ls, s', h1, h2, h3⟩ := phase_enq09p n s1 hlen
      refine ⟨.benq o :: ls, s', ?_, ?_, h3⟩
      · simp only [List.all_cons, h1, BLabel.isProgress09p, Bool.and_self]
      · rw [brun_cons09p ls hs]; exact h2

/-! ### phase 2: the broker handles its whole mailbox -/

theorem phase_proc09p : ∀ (mb : List BItem) (s : BrSt), s.mbox = mb →
    ∃ (ls : List BLabel) (s' : BrSt), ls.all BLabel.isProgress09p = true ∧ brun s ls = some s' ∧
      s'.mbox = [] ∧ s'.pend = s.pend
  | [], s, hm => ⟨[], s, rfl, rfl, hm, rfl⟩
  | it :: rest, s, hm => by
    have hex : ∃ s1, bstep s .bproc = some s1 ∧ s1.mbox = rest ∧ s1.pend = s.pend := by
      cases it with
      | sub c => simp only [bstep, hm]; exact ⟨_, rfl, rfl, rfl⟩
      | unsub c => simp only [bstep, hm]; exact ⟨_, rfl, rfl, rfl⟩
      | pub m => simp only [bstep, hm]; exact ⟨_, rfl, rfl, rfl⟩
    obtain ⟨s1, hs, hm1, hp1⟩ := hex
    obtain ⟨ls, s', h1, h2, h3, h4⟩ := phase_proc09p rest s1 hm1
    refine ⟨.bproc :: ls, s', ?_, ?_, h3, by rw [h4, hp1]⟩
    · simp only [List.all_cons, h1, BLabel.isProgress09p, Bool.and_self]
    · rw [brun_cons09p ls hs]; exact h2

/-! ### phase 3: every publication on its way is taken up (its subscriber is alive) -/

theorem phase_del09p : ∀ (fl : List (Nat × Nat)) (s : BrSt), s.flight = fl → NoDeadFl09p s →
    ∃ (ls : List BLabel) (s' : BrSt), ls.all BLabel.isProgress09p = true ∧ brun s ls = some s' ∧
      s'.flight = [] ∧ s'.pend = s.pend ∧ s'.mbox = s.mbox
  | [], s, hf, _ => ⟨[], s, rfl, rfl, hf, rfl, rfl⟩
  | (c, m) :: rest, s, hf, hi => by
    have hd : s.dead.contains c = false := hi (c, m) (by rw [hf]; exact List.mem_cons_self)
    have hs : bstep s (.deliver c m) = some { s with flight := rest } := by
      simp only [bstep, hd, hf]
      rw [List.find?_cons_of_pos (by simp)]
      simp
    have hi1 : NoDeadFl09p { s with flight := rest } := noDeadFl_step09p hi hs
    obtain ⟨ls, s', h1, h2, h3, h4, h5⟩ := phase_del09p rest { s with flight := rest } rfl hi1
    refine ⟨.deliver c m :: ls, s', ?_, ?_, h3, h4, h5⟩
    · simp only [List.all_cons, h1, BLabel.isProgress09p, Bool.and_self]
    · rw [brun_cons09p ls hs]; exact h2

/-! ### phase 4: every operation in the mailbox (or handled) returns -/

theorem phase_ret09p : ∀ (n : Nat) (s : BrSt), s.sent.length ≤ n →
    ∃ (ls : List BLabel) (s' : BrSt), ls.all BLabel.isProgress09p = true ∧ brun s ls = some s' ∧
      s'.sent = [] ∧ s'.pend = s.pend ∧ s'.mbox = s.mbox ∧ s'.flight = s.flight
  | 0, s, hn => ⟨[], s, rfl, rfl, List.eq_nil_of_length_eq_zero (Nat.le_zero.mp hn), rfl, rfl, rfl⟩
  | n + 1, s, hn => by
    cases hp : s.sent with
    | nil => exact ⟨[], s, rfl, rfl, hp, rfl, rfl, rfl⟩
    | cons o rest =>
      let s1 : BrSt := { s with sent := s.sent.filter (fun x => x != o) }
      have hs : bstep s (.bret o) = some s1 := by
        simp only [bstep, hp]
        simp [s1, hp]
      have hlen : s1.sent.length ≤ n := by
        show (s.sent.filter (fun x => x != o)).length ≤ n
        rw [hp]
        have := filter_head_lt09p (fun x : Nat => x != o) o rest (by simp)
        rw [hp] at hn
        simp only [List.length_cons] at hn
        omega
      obtain ⟨ls, s', h1, h2, h3, h4, h5, h6⟩ := phase_ret09p n s1 hlen
      refine ⟨.bret o :: ls, s', ?_, ?_, h3, h4, h5, h6⟩
      · simp only [List.all_cons, h1, BLabel.isProgress09p, Bool.and_self]
      · rw [brun_cons09p ls hs]; exact h2

/-! ### the theorem -/

/-- from every state in which nothing is on its way to a dead subscriber the system can settle on its own -/
theorem progress_of_noDeadFl09p (s : BrSt) (hi : NoDeadFl09p s) :
    ∃ (ls' : List BLabel) (s' : BrSt),
      ls'.all BLabel.isProgress09p = true ∧ brun s ls' = some s' ∧
      s'.settled = true ∧ s'.sent = [] ∧ s'.dead = s.dead ∧
      (∀ c m, .deliver c m ∈ ls' → ¬ c ∈ s.dead) := by
  obtain ⟨l1, s1, p1, r1, e1⟩ := phase_enq09p s.pend.length s (Nat.le_refl _)
  obtain ⟨l2, s2, p2, r2, m2, e2⟩ := phase_proc09p s1.mbox s1 rfl
  have hi2 : NoDeadFl09p s2 := noDeadFl_run09p l2 s1 s2 (noDeadFl_run09p l1 s s1 hi r1) r2
  obtain ⟨l3, s3, p3, r3, f3, e3, m3⟩ := phase_del09p s2.flight s2 rfl hi2
  obtain ⟨l4, s4, p4, r4, t4, e4, m4, f4⟩ := phase_ret09p s3.sent.length s3 (Nat.le_refl _)
  have hall : (l1 ++ (l2 ++ (l3 ++ l4))).all BLabel.isProgress09p = true := by
    simp only [List.all_append, p1, p2, p3, p4, Bool.and_self]
  have hrun : brun s (l1 ++ (l2 ++ (l3 ++ l4))) = some s4 := by
    rw [brun_append09p l1 _ s s1 r1, brun_append09p l2 _ s1 s2 r2, brun_append09p l3 _ s2 s3 r3]
    exact r4
  obtain ⟨hd, hl⟩ := progress_dead09p _ s s4 hall hrun
  refine ⟨l1 ++ (l2 ++ (l3 ++ l4)), s4, hall, hrun, ?_, t4, hd, hl⟩
  rw [settled_iff]
  exact ⟨by rw [e4, e3, e2, e1], by rw [m4, m3, m2], by rw [f4, f3]⟩

/-- **C09, progress (broker).**  From every reachable state - whatever subscribers have terminated, at whatever
    point - every begun operation can be completed and returned and the system settles, using only the broker's own
    moves, take-ups by live subscribers and returns. -/
theorem C09p_progress (ls : List BLabel) (s : BrSt) (hr : brun BrSt.init ls = some s) :
    ∃ (ls' : List BLabel) (s' : BrSt),
      ls'.all BLabel.isProgress09p = true ∧ brun s ls' = some s' ∧
      s'.settled = true ∧ s'.sent = [] ∧ s'.dead = s.dead ∧
      (∀ c m, .deliver c m ∈ ls' → ¬ c ∈ s.dead) :=
  progress_of_noDeadFl09p s (noDeadFl_reach09p hr)

/-- a publish that has begun can always return, no matter who terminated -/
theorem C09p_publish_returns (ls : List BLabel) (s : BrSt) (hr : brun BrSt.init ls = some s)
    (o m : Nat) (_ho : (o, BItem.pub m) ∈ s.pend ∨ o ∈ s.sent) :
    ∃ ls' s', ls'.all BLabel.isProgress09p = true ∧ brun s ls' = some s' ∧ ¬ o ∈ s'.sent ∧
      ¬ (∃ it, (o, it) ∈ s'.pend) := by
  obtain ⟨ls', s', h1, h2, h3, h4, _, _⟩ := C09p_progress ls s hr
  have hp : s'.pend = [] := ((settled_iff s').mp h3).1
  refine ⟨ls', s', h1, h2, ?_, ?_⟩
  · rw [h4]; exact List.not_mem_nil
  · rw [hp]
    rintro ⟨it, h⟩
    exact absurd h List.not_mem_nil

/-! ### non-vacuity -/

/-- two subscribers (1 and 2); `pub 5` handled and on its way to both; subscriber 2 terminates with it on its way;
    `pub 6` (operation 3) is in the broker's mailbox, `pub 7` (operation 4) has begun and not entered the mailbox -/
def c09pPrefix : List BLabel :=
  [ .bbegin 0 (.sub 1), .benq 0, .bproc, .bret 0, .bbegin 1 (.sub 2), .benq 1, .bproc, .bret 1,
    .bbegin 2 (.pub 5), .benq 2, .bproc, .term 2, .bbegin 3 (.pub 6), .benq 3, .bbegin 4 (.pub 7) ]

def c09pState : BrSt :=
  { pend := [(4, .pub 7)], sent := [3, 2], mbox := [.pub 6], subs := [2, 1], flight := [(1, 5)], dead := [2] }

/-- the state is reachable; the publish `pub 6` is in the mailbox, subscriber 2 is in the table and dead -/
example : brun BrSt.init c09pPrefix = some c09pState := by decide

/-- the continuation: only progress labels -/
def c09pCont : List BLabel :=
  [ .benq 4, .bproc, .bproc, .deliver 1 5, .deliver 1 6, .deliver 1 7, .bret 4, .bret 3, .bret 2 ]

example : c09pCont.all BLabel.isProgress09p = true := by decide

/-- ... it is accepted and settles the system: everything returned, both later publications went to the live
    subscriber only, `dead` unchanged -/
example : brun c09pState c09pCont =
    some { pend := [], sent := [], mbox := [], subs := [2, 1], flight := [], dead := [2] } := by decide

example : (match brun c09pState c09pCont with
    | some s' => s'.settled && s'.sent.isEmpty && (s'.dead == c09pState.dead)
    | none => false) = true := by decide

/-- the hypothesis of `C09p_publish_returns` is satisfied there by a pending publish and by one in the mailbox -/
example : (4, BItem.pub 7) ∈ c09pState.pend ∧ 3 ∈ c09pState.sent := by decide

/-- the publishes may also return at once (before the broker handles them, before anything is taken up) -/
example : (match brun c09pState [ .benq 4, .bret 4, .bret 3 ] with
    | some s' => !s'.sent.contains 4 && !s'.sent.contains 3 && !s'.pend.any (fun p => p.1 == 4)
    | none => false) = true := by decide

/-- the model refuses a take-up by the dead subscriber, and nothing is on its way to it: the broker skipped it -/
example : bstep c09pState (.deliver 2 5) = none := by decide
example : (match brun c09pState [ .benq 4, .bproc, .bproc ] with
    | some s' => s'.flight == [(1, 5), (1, 6), (1, 7)]
    | none => false) = true := by decide

/-- `isProgress09p` excludes exactly new operations and terminations -/
example : BLabel.isProgress09p (.bbegin 9 (.pub 1)) = false ∧ BLabel.isProgress09p (.term 1) = false := by decide

end Hannibal
