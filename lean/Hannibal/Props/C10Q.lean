import Hannibal.Proofs.C10QQueue
import Hannibal.Proofs.C10QTimers
import Hannibal.Proofs.Run
import Hannibal.Monitor.C10
/-
  C10q (every tick taken up is covered by a wake-up of its timer; no timer task is left at quiescence):
  every run of the actor model is accepted by `monC10q`.  No wiring hypothesis, no trace hypothesis: the
  invariant is stated per timer id and never needs the ids of the monitor's tables to be distinct.
-/
namespace Hannibal
open AState

/-! ### the monitor's counters -/

def cntOf (l : List (Nat × Nat)) (t : Nat) : Nat := (lookup t l).getD 0

theorem lookup_none_of_not_any {α : Type} (t : Nat) : ∀ (l : List (Nat × α)),
    l.any (fun p => p.1 == t) = false → lookup t l = none
  | [], _ => rfl
  | (k, v) :: rest, h => by
    simp only [List.any_cons, Bool.or_eq_false_iff] at h
    simp only [lookup, h.1]
    exact lookup_none_of_not_any t rest h.2

theorem lookup_some_of_any {α : Type} (t : Nat) : ∀ (l : List (Nat × α)),
    l.any (fun p => p.1 == t) = true → (lookup t l).isSome = true
  | [], h => by simp at h
  | (k, v) :: rest, h => by
    simp only [List.any_cons, Bool.or_eq_true] at h
    simp only [lookup]
    by_cases hk : (k == t) = true
    · simp [hk]
    · simp only [hk]
      rcases h with h | h
      · exact absurd h hk
      · exact lookup_some_of_any t rest h

theorem lookup_map_bump_self (t : Nat) : ∀ (l : List (Nat × Nat)),
    lookup t (l.map (fun p => if p.1 == t then (p.1, p.2 + 1) else p)) = (lookup t l).map (· + 1)
  | [] => rfl
  | (k, v) :: rest => by
    have ih := lookup_map_bump_self t rest
    cases hk : (k == t)
    · simp only [List.map_cons, hk, Bool.false_eq_true, if_false, lookup]
      exact ih
    · simp only [List.map_cons, hk, if_true, lookup]
      simp

theorem lookup_map_bump_ne {t t' : Nat} (h : t' ≠ t) : ∀ (l : List (Nat × Nat)),
    lookup t' (l.map (fun p => if p.1 == t then (p.1, p.2 + 1) else p)) = lookup t' l
  | [] => rfl
  | (k, v) :: rest => by
    have ih := lookup_map_bump_ne h rest
    cases hk : (k == t)
    · simp only [List.map_cons, hk, Bool.false_eq_true, if_false, lookup]
      cases hk2 : (k == t')
      · simp only [Bool.false_eq_true, if_false]; exact ih
      · simp
    · have hk' : (k == t') = false := by
        simp at hk ⊢; intro e; exact h (e.symm.trans hk)
      simp only [List.map_cons, hk, if_true, lookup, hk', Bool.false_eq_true, if_false]
      exact ih

theorem cntOf_bump_self (l : List (Nat × Nat)) (t : Nat) : cntOf (bump l t) t = cntOf l t + 1 := by
  unfold cntOf bump
  by_cases ha : l.any (fun p => p.1 == t) = true
  · simp only [ha, if_true, lookup_map_bump_self]
    have := lookup_some_of_any t l ha
    cases hl : lookup t l with
    | none => simp [hl] at this
    | some v => simp
  · have ha' : l.any (fun p => p.1 == t) = false := by
      cases hh : l.any (fun p => p.1 == t)
      · rfl
      · exact absurd hh ha
    simp only [ha', lookup_none_of_not_any t l ha']
    simp [lookup]

theorem cntOf_bump_ne (l : List (Nat × Nat)) {t t' : Nat} (h : t' ≠ t) : cntOf (bump l t) t' = cntOf l t' := by
  unfold cntOf bump
  split
  · rw [lookup_map_bump_ne h]
  · have hk' : (t == t') = false := by simp; exact fun e => h e.symm
    simp [lookup, hk']

/-! ### the model side -/

/-- the timer task never went to sleep (or can no longer wake up) -/
def unarmed : TimerSt → Bool
  | .sleeping _ | .sending => false
  | _ => true

def allUnarmed (s : AState) (t : Nat) : Bool := s.timers.all (fun x => x.id != t || unarmed x.st)

/-- a timer task with id `t` exists that has not been seen to end -/
def liveT (s : AState) (t : Nat) : Bool := s.timers.any (fun x => x.id == t && x.st != .ended)

structure C10qInv (s : AState) (σ : C10qSt) : Prop where
  live : ∀ t ∈ σ.live, liveT s t = true
  cov : ∀ t, cntOf σ.ticks t + tickCnt t s + 1 ≤ cntOf σ.arms t ∨
    (cntOf σ.ticks t + tickCnt t s = 0 ∧ allUnarmed s t = true)

theorem liveT_pres {w : Wiring} {s s' : AState} {l : Label} (hs : step w s l = some s') (t : Nat)
    (hl : l ≠ .timerEnd t) (h : liveT s t = true) : liveT s' t = true := by
  by_cases hct : ∃ t0 k d, l = .ctxTimer t0 k d
  · obtain ⟨t0, k, d, rfl⟩ := hct
    simp only [step] at hs
    obtain ⟨htim, _, _⟩ := stepCtxTimer_spec hs
    unfold liveT at *
    rw [htim, List.any_append, h]; rfl
  · obtain ⟨f, hf, hfx⟩ := step_timers_map10q hs (fun t0 k d e => hct ⟨t0, k, d, e⟩)
    unfold liveT at *
    rw [hf]
    obtain ⟨x, hx, hp⟩ := List.any_eq_true.mp h
    refine List.any_eq_true.mpr ⟨f x, List.mem_map.mpr ⟨x, hx, rfl⟩, ?_⟩
    obtain ⟨hid, hok⟩ := hfx x
    simp only [Bool.and_eq_true, beq_iff_eq, bne_iff_ne, ne_eq] at hp ⊢
    refine ⟨by rw [hid]; exact hp.1, ?_⟩
    intro he
    unfold tstOk at hok
    simp only [Bool.or_eq_true, beq_iff_eq] at hok
    rcases hok with hok | hok
    · exact hp.2 (hok.trans he)
    · cases l <;> simp [he] at hok
      case timerEnd t0 => exact hl (by rw [hok, hp.1])
      case cbEnd cb ok => cases cb <;> simp at hok

theorem allUnarmed_pres {w : Wiring} {s s' : AState} {l : Label} (hs : step w s l = some s') (t : Nat)
    (hl : ∀ due, l ≠ .timerArm t due) (h : allUnarmed s t = true) : allUnarmed s' t = true := by
  by_cases hct : ∃ t0 k d, l = .ctxTimer t0 k d
  · obtain ⟨t0, k, d, rfl⟩ := hct
    simp only [step] at hs
    obtain ⟨htim, _, _⟩ := stepCtxTimer_spec hs
    unfold allUnarmed at *
    rw [htim, List.all_append, h]; simp [unarmed]
  · by_cases hfire : ∃ m, l = .fire t m
    · obtain ⟨m, rfl⟩ := hfire
      exfalso
      simp only [step] at hs
      obtain ⟨x, due, hx, hst, _⟩ := stepFire_spec hs
      obtain ⟨hmem, hid⟩ := findTimer_mem hx
      unfold allUnarmed at h
      have := List.all_eq_true.mp h x hmem
      simp [hid, hst, unarmed] at this
    · obtain ⟨f, hf, hfx⟩ := step_timers_map10q hs (fun t0 k d e => hct ⟨t0, k, d, e⟩)
      unfold allUnarmed at *
      rw [hf]
      refine List.all_eq_true.mpr ?_
      intro y hy
      obtain ⟨x, hx, rfl⟩ := List.mem_map.mp hy
      have hx' := List.all_eq_true.mp h x hx
      obtain ⟨hid, hok⟩ := hfx x
      simp only [Bool.or_eq_true, bne_iff_ne, ne_eq] at hx' ⊢
      rw [hid]
      by_cases hxt : x.id = t
      · right
        have hu : unarmed x.st = true := by
          rcases hx' with h1 | h1
          · exact absurd hxt h1
          · exact h1
        unfold tstOk at hok
        simp only [Bool.or_eq_true, beq_iff_eq] at hok
        rcases hok with hok | hok
        · rw [← hok]; exact hu
        · cases l <;> (try simp at hok)
          case timerArm t0 due => exact absurd (by rw [hok.1, hxt]) (hl due)
          case fire t0 m => exact absurd ⟨m, by rw [hok.1, hxt]⟩ hfire
          case timerEnd t0 => simp [hok.2, unarmed]
          case cbEnd cb ok =>
            cases cb <;> simp at hok
            rcases hok.2 with h2 | h2 <;> simp [h2, unarmed]
          all_goals (rcases hok.2 with h2 | h2 <;> simp [h2, unarmed])
      · exact .inl hxt

/-- the coverage clause for timer `t` survives every step that does not arm `t` (and does not take a tick) -/
theorem cov_pres {w : Wiring} {s s' : AState} {l : Label} (hs : step w s l = some s') (t : Nat)
    (hl : ∀ due, l ≠ .timerArm t due) (a b : Nat)
    (h : b + tickCnt t s + 1 ≤ a ∨ (b + tickCnt t s = 0 ∧ allUnarmed s t = true)) :
    b + tickCnt t s' + 1 ≤ a ∨ (b + tickCnt t s' = 0 ∧ allUnarmed s' t = true) := by
  have hc := step_tickCnt t hs
  have hz : armIncr t l = 0 := by
    cases l <;> simp [armIncr]
    case timerArm t0 due => intro e; exact hl due (by rw [e])
  rcases h with h | ⟨h1, h2⟩
  · left; omega
  · right; exact ⟨by omega, allUnarmed_pres hs t hl h2⟩

/-- the first sleep of a timer task sends nothing -/
theorem stepTimerArm_spawned {w : Wiring} {s s' : AState} {t due : Nat} {x : Timer}
    (hs : stepTimerArm w s t due = some s') (hx : s.findTimer t = some x) (hst : x.st = .spawned) :
    s'.chan = s.chan := by
  unfold stepTimerArm at hs
  simp only [hx, hst] at hs
  split at hs
  · simp at hs
  · simp at hs; subst hs; rfl

/-- labels that touch none of the monitor's tables -/
def Label.plain10q : Label → Bool
  | .ctxTimer _ _ _ | .timerArm _ _ | .timerEnd _ | .tickBegin _ _ | .quiescent _ => false
  | _ => true

theorem mon10q_plain (c : MonCtx) (σ : C10qSt) (l : Label) (hl : l.plain10q = true) :
    ∃ σ', (monC10q c).step σ l = some σ' ∧ σ'.live = σ.live ∧ σ'.arms = σ.arms ∧ σ'.ticks = σ.ticks := by
  cases l <;> simp [Label.plain10q] at hl <;> simp [monC10q, Label.terminates]

theorem c10q_step (w : Wiring) (c : MonCtx) {s s' : AState} {σ : C10qSt} {l : Label}
    (hi : C10qInv s σ) (hs : step w s l = some s') :
    ∃ σ', (monC10q c).step σ l = some σ' ∧ C10qInv s' σ' := by
  by_cases hp : l.plain10q = true
  · obtain ⟨σ', hm, h1, h2, h3⟩ := mon10q_plain c σ l hp
    refine ⟨σ', hm, ⟨?_, ?_⟩⟩
    · intro t ht
      rw [h1] at ht
      exact liveT_pres hs t (by intro e; rw [e] at hp; simp [Label.plain10q] at hp) (hi.live t ht)
    · intro t
      rw [h2, h3]
      exact cov_pres hs t (by intro due e; rw [e] at hp; simp [Label.plain10q] at hp) _ _ (hi.cov t)
  · cases l <;> simp [Label.plain10q] at hp
    case ctxTimer t k d =>
      refine ⟨{ σ with live := t :: σ.live }, by simp [monC10q], ⟨?_, ?_⟩⟩
      · intro t0 ht0
        simp only [List.mem_cons] at ht0
        rcases ht0 with rfl | ht0
        · have hs' := hs
          simp only [step] at hs'
          obtain ⟨htim, _, _⟩ := stepCtxTimer_spec hs'
          unfold liveT
          rw [htim, List.any_append]
          simp
        · exact liveT_pres hs t0 (by simp) (hi.live t0 ht0)
      · intro t0
        exact cov_pres hs t0 (by simp) _ _ (hi.cov t0)
    case timerArm t due =>
      refine ⟨{ σ with arms := bump σ.arms t }, by simp [monC10q], ⟨?_, ?_⟩⟩
      · intro t0 ht0
        exact liveT_pres hs t0 (by simp) (hi.live t0 ht0)
      · intro t0
        by_cases ht : t0 = t
        · subst ht
          simp only [cntOf_bump_self]
          have hc := step_tickCnt t0 hs
          simp only [armIncr, if_true] at hc
          rcases hi.cov t0 with h | ⟨h1, h2⟩
          · left; omega
          · left
            simp only [step] at hs
            obtain ⟨x, hx, _, _, _, hcase⟩ := stepTimerArm_spec hs
            obtain ⟨hmem, hid⟩ := findTimer_mem hx
            unfold allUnarmed at h2
            have hu := List.all_eq_true.mp h2 x hmem
            simp [hid] at hu
            have hsp : x.st = .spawned := by
              rcases hcase with h | ⟨o, h, _⟩ | ⟨h, _⟩
              · exact h
              · simp [h, unarmed] at hu
              · simp [h, unarmed] at hu
            have hch := stepTimerArm_spawned hs hx hsp
            have : tickCnt t0 s' = tickCnt t0 s := by unfold tickCnt cntP; rw [hch]
            omega
        · simp only [cntOf_bump_ne _ ht]
          exact cov_pres hs t0 (by intro due' e; simp at e; exact ht e.1.symm) _ _ (hi.cov t0)
    case timerEnd t =>
      refine ⟨{ σ with live := σ.live.filter (fun x => x != t) }, by simp [monC10q], ⟨?_, ?_⟩⟩
      · intro t0 ht0
        obtain ⟨hm, hne⟩ := List.mem_filter.mp ht0
        exact liveT_pres hs t0 (by simpa using fun e : t = t0 => (by simp [e] at hne)) (hi.live t0 hm)
      · intro t0
        exact cov_pres hs t0 (by simp) _ _ (hi.cov t0)
    case tickBegin t m =>
      have hs' := hs
      simp only [step] at hs'
      have hcnt := stepTickBegin_tickCnt hs'
      have htims := step_timers_same hs (by simp [Label.touchesTimers])
      have hge : tickCnt t s ≥ 1 := by have := hcnt t; simp at this; omega
      have hcov : cntOf σ.ticks t + tickCnt t s + 1 ≤ cntOf σ.arms t := by
        rcases hi.cov t with h | ⟨h1, _⟩
        · exact h
        · omega
      have hchk : ¬ ((lookup t σ.ticks).getD 0 + 2 > (lookup t σ.arms).getD 0) := by
        unfold cntOf at hcov; omega
      refine ⟨{ σ with ticks := bump σ.ticks t }, by simp only [monC10q, if_neg hchk], ⟨?_, ?_⟩⟩
      · intro t0 ht0
        exact liveT_pres hs t0 (by simp) (hi.live t0 ht0)
      · intro t0
        have hun : allUnarmed s' t0 = allUnarmed s t0 := by unfold allUnarmed; rw [htims]
        have hc0 := hcnt t0
        by_cases ht : t0 = t
        · subst ht
          simp only [cntOf_bump_self]
          simp at hc0
          left; omega
        · simp only [cntOf_bump_ne _ ht, hun]
          simp [ht] at hc0
          rw [← hc0]; exact hi.cov t0
    case quiescent pend =>
      simp only [step, stepQuiescent] at hs
      split at hs
      · rename_i hq
        simp at hs; subst hs
        have hlive : σ.live = [] := by
          cases hl : σ.live with
          | nil => rfl
          | cons t rest =>
            exfalso
            have h1 := hi.live t (by rw [hl]; simp)
            unfold liveT at h1
            obtain ⟨x, hx, hp⟩ := List.any_eq_true.mp h1
            simp only [Bool.and_eq_true] at hq
            have hall := hq.1.1
            unfold quiet at hall
            simp only [Bool.and_eq_true] at hall
            have := List.all_eq_true.mp hall.1.2 x hx
            simp at hp this
            exact hp.2 this
        exact ⟨σ, by simp [monC10q, hlive], hi⟩
      · simp at hs

theorem c10q_init (c : MonCtx) : C10qInv (AState.init c.cfg c.h0 c.k0) (monC10q c).init := by
  refine ⟨?_, ?_⟩
  · intro t ht; simp [monC10q] at ht
  · intro t; right
    simp [monC10q, cntOf, lookup, tickCnt, cntP, AState.init, Chan.init, allUnarmed]

/-- **C10q (ticks are covered by wake-ups; no timer task is leaked).** For every timer kind, duration,
    interleaving with messages, restarts and termination: whenever the loop takes up a tick of timer `t`,
    the number of ticks of `t` taken up so far is at most the number of times `t`'s task went to sleep minus
    two (the first sleep is the initial one, every later sleep of an `interval` task follows exactly one
    pushed tick, and the tick being taken up is one of those); and at every `quiescent` label (in
    particular after termination) every timer task that was registered has been seen to end. -/
theorem C10q_holds (w : Wiring) (c : MonCtx) (ls : List Label) (s : AState)
    (hr : run w (AState.init c.cfg c.h0 c.k0) ls = some s) : (monC10q c).ok ls = true :=
  ok_of_run_lift (monC10q c) w C10qInv (fun _ _ _ _ hi hs => c10q_step w c hi hs) _ (c10q_init c) ls s hr

/-- Non-vacuity: an `interval` of period 5 sleeps, wakes at 5 and 10 (two ticks pushed), both ticks are
    taken up; a third tick, a tick before the second sleep and a timer left at quiescence are flagged. -/
def c10qCfg : Cfg := { cap := none, strat := .only, timeout := none, failOnTimeout := false, stream := false }
def c10qCtx : MonCtx := { cfg := c10qCfg, h0 := 0, k0 := .addr, prompt := true }
def c10qExample : List Label :=
  [ .cbBegin .started, .ctxTimer 0 .interval 5, .cbEnd .started true, .timerArm 0 5, .time 5, .timerArm 0 10,
    .tickBegin 0 1, .cbBegin (.handle 1), .cbEnd (.handle 1) true, .time 10, .timerArm 0 15, .tickBegin 0 2,
    .cbBegin (.handle 2), .cbEnd (.handle 2) true ]
example : (monC10q c10qCtx).ok c10qExample = true := by decide
example : (monC10q c10qCtx).ok (c10qExample ++ [.tickBegin 0 3]) = false := by decide
example : (monC10q c10qCtx).ok [ .cbBegin .started, .ctxTimer 0 .interval 5, .cbEnd .started true, .timerArm 0 5,
    .tickBegin 0 1 ] = false := by decide
example : (monC10q c10qCtx).ok [ .cbBegin .started, .ctxTimer 0 .interval 5, .cbEnd .started true, .timerArm 0 5,
    .cancel, .quiescent [] ] = false := by decide
example : (monC10q c10qCtx).ok [ .cbBegin .started, .ctxTimer 0 .interval 5, .cbEnd .started true, .timerArm 0 5,
    .cancel, .timerEnd 0, .quiescent [] ] = true := by decide

end Hannibal
