import Hannibal.Props.C06Send
/-
  C06, quiescence part: with operation ids that are never reused, no operation is left pending on a
  failed actor at quiescence.
-/
namespace Hannibal
open AState

def cSlot : Payload → Option Nat
  | .msg _ (some o) => some o
  | _ => none
def pSlot : Payload → Option Nat
  | .ping o => some o
  | _ => none
def curSlotOf : Phase → List Nat
  | .handling _ (some o) _ => [o]
  | _ => []
def qC (q : List Entry) : List Nat := q.filterMap (fun e => cSlot e.pl)
def qP (q : List Entry) : List Nat := q.filterMap (fun e => pSlot e.pl)
/-- the call operations whose message is queued or being handled -/
def slotsC (s : AState) : List Nat := curSlotOf s.phase ++ qC s.chan.queue
/-- the ping operations whose probe is queued -/
def slotsP (s : AState) : List Nat := qP s.chan.queue

theorem curSlot_eq (s : AState) : s.curSlot = curSlotOf s.phase := by
  unfold curSlot curSlotOf
  cases s.phase <;> rfl

theorem slotOf_split (pl : Payload) (o : Nat) :
    slotOf pl = some o ↔ cSlot pl = some o ∨ pSlot pl = some o := by
  cases pl with
  | msg m sl => cases sl <;> simp [slotOf, cSlot, pSlot]
  | ping x => simp [slotOf, cSlot, pSlot]
  | tick _ | ext _ | stop | restart => simp [slotOf, cSlot, pSlot]

theorem mem_slotOf {q : List Entry} {o : Nat} :
    o ∈ q.filterMap (fun e => slotOf e.pl) ↔ o ∈ qC q ∨ o ∈ qP q := by
  unfold qC qP
  constructor
  · intro h
    obtain ⟨e, he, hf⟩ := List.mem_filterMap.mp h
    rcases (slotOf_split e.pl o).mp hf with h | h
    · exact .inl (List.mem_filterMap.mpr ⟨e, he, h⟩)
    · exact .inr (List.mem_filterMap.mpr ⟨e, he, h⟩)
  · intro h
    rcases h with h | h
    · obtain ⟨e, he, hf⟩ := List.mem_filterMap.mp h
      exact List.mem_filterMap.mpr ⟨e, he, (slotOf_split e.pl o).mpr (.inl hf)⟩
    · obtain ⟨e, he, hf⟩ := List.mem_filterMap.mp h
      exact List.mem_filterMap.mpr ⟨e, he, (slotOf_split e.pl o).mpr (.inr hf)⟩

/-- what a step (other than begin / ret / cdrop) does to the pending operations and the slots:
    pending operations stay among the old pending ones minus a set `L` of ids, slots only disappear,
    and only into `L` -/
def CoverSpec (s s' : AState) : Prop :=
  ∃ L : List Nat,
    (∀ r' ∈ s'.ops, r'.st = .pending → r' ∈ s.ops ∧ r'.o ∉ L) ∧
    (∀ o ∈ slotsC s, o ∈ L ∨ o ∈ slotsC s') ∧ (∀ o ∈ slotsP s, o ∈ L ∨ o ∈ slotsP s') ∧
    (∀ o ∈ slotsC s', o ∈ slotsC s) ∧ (∀ o ∈ slotsP s', o ∈ slotsP s) ∧
    (∀ r' ∈ s'.ops, r' ∈ s.ops ∨ ∃ r ∈ s.ops, r'.o = r.o ∧ r'.kind = r.kind ∧
      ((r.o ∈ slotsC s ∧ (r'.st = .cancelled ∨ ∃ v, r'.st = .answered v)) ∨
       (r.o ∈ slotsP s ∧ (r'.st = .cancelled ∨ r'.st = .pinged))))

theorem cover_frame {s s' : AState} (hops : s'.ops = s.ops) (hC : slotsC s' = slotsC s)
    (hP : slotsP s' = slotsP s) : CoverSpec s s' :=
  ⟨[], fun r h _ => ⟨hops ▸ h, by simp⟩, fun o h => .inr (hC ▸ h), fun o h => .inr (hP ▸ h),
    fun o h => hC ▸ h, fun o h => hP ▸ h, fun r h => .inl (hops ▸ h)⟩

theorem mem_map_pending (ops : List OpRec) (p : OpRec → Prop) [DecidablePred p] (g : OpRec → OpRec)
    (hg : ∀ r, (g r).st ≠ .pending) {r' : OpRec}
    (h : r' ∈ ops.map (fun r => if p r then g r else r)) (hp : r'.st = .pending) : r' ∈ ops ∧ ¬ p r' := by
  obtain ⟨r, hr, rfl⟩ := List.mem_map.mp h
  by_cases hpr : p r
  · simp only [hpr, if_true] at hp; exact absurd hp (hg r)
  · have e : (if p r then g r else r) = r := if_neg hpr
    rw [e]; exact ⟨hr, hpr⟩

theorem mem_cancelSlots_pending {s : AState} {L : List Nat} {r' : OpRec}
    (h : r' ∈ (s.cancelSlots L).ops) (hp : r'.st = .pending) : r' ∈ s.ops ∧ r'.o ∉ L := by
  unfold cancelSlots at h
  have := mem_map_pending s.ops (fun r => (L.contains r.o && r.st == .pending) = true)
    (fun r => { r with st := .cancelled }) (by simp) h hp
  refine ⟨this.1, ?_⟩
  have h2 := this.2
  simp [hp] at h2
  exact h2

theorem mem_answer_pending {s : AState} {o m : Nat} {r' : OpRec}
    (h : r' ∈ (s.answer (some o) m).ops) (hp : r'.st = .pending) : r' ∈ s.ops ∧ r'.o ≠ o := by
  unfold answer at h
  have := mem_map_pending s.ops (fun r => (r.o == o && r.st == .pending) = true)
    (fun r => { r with st := .answered { m, birth := s.birth, digest := s.log } }) (by simp) h hp
  refine ⟨this.1, ?_⟩
  have h2 := this.2
  simp [hp] at h2
  exact h2

theorem cover_cancel {s s' : AState} (L : List Nat) (hops : s'.ops = (s.cancelSlots L).ops)
    (hL : ∀ o ∈ L, o ∈ slotsC s ∨ o ∈ slotsP s)
    (h1 : ∀ o ∈ slotsC s, o ∈ L ∨ o ∈ slotsC s') (h2 : ∀ o ∈ slotsP s, o ∈ L ∨ o ∈ slotsP s')
    (h3 : ∀ o ∈ slotsC s', o ∈ slotsC s) (h4 : ∀ o ∈ slotsP s', o ∈ slotsP s) : CoverSpec s s' := by
  refine ⟨L, fun _ h hp => mem_cancelSlots_pending (hops ▸ h) hp, h1, h2, h3, h4, ?_⟩
  intro r' hr'
  rw [hops] at hr'
  unfold cancelSlots at hr'
  obtain ⟨r, hr, rfl⟩ := List.mem_map.mp hr'
  by_cases hc : (L.contains r.o && r.st == .pending) = true
  · right
    simp only [hc, if_true]
    simp at hc
    refine ⟨r, hr, rfl, rfl, ?_⟩
    rcases hL r.o hc.1 with h | h
    · exact .inl ⟨h, .inl trivial⟩
    · exact .inr ⟨h, .inl trivial⟩
  · left
    simp only [hc]
    exact hr

macro "cover_crush" hs:ident : tactic => `(tactic|
  ((repeat' (split at $hs:ident)) <;>
   (first
     | (simp at $hs:ident; done)
     | (simp only [Option.some.injEq] at $hs:ident; subst $hs:ident
        exact cover_frame rfl (by simp [slotsC, slotsP, curSlotOf, qC, qP, cSlot, pSlot, *])
          (by simp [slotsP, qP, pSlot])))))

theorem cover_fail (s : AState) : CoverSpec s s.fail := by
  refine cover_cancel (s.curSlot ++ s.chan.queue.filterMap (fun e => slotOf e.pl)) rfl ?_ ?_ ?_ ?_ ?_
  · intro o ho
    simp only [List.mem_append, curSlot_eq, mem_slotOf] at ho
    simp only [slotsC, slotsP, List.mem_append]
    rcases ho with h | h | h
    · exact .inl (.inl h)
    · exact .inl (.inr h)
    · exact .inr h
  · intro o ho
    left
    simp only [slotsC, List.mem_append] at ho
    simp only [List.mem_append, curSlot_eq, mem_slotOf]
    rcases ho with h | h
    · exact .inl h
    · exact .inr (.inl h)
  · intro o ho
    left
    simp only [List.mem_append, mem_slotOf]
    exact .inr (.inr ho)
  · intro o ho; simp [slotsC, fail, curSlotOf, Chan.dropRx, qC] at ho
  · intro o ho; simp [slotsP, fail, Chan.dropRx, qP] at ho

theorem cover_finish (s : AState) (hcur : curSlotOf s.phase = []) : CoverSpec s s.finish := by
  refine cover_cancel (s.chan.queue.filterMap (fun e => slotOf e.pl)) rfl ?_ ?_ ?_ ?_ ?_
  · intro o ho
    simp only [mem_slotOf] at ho
    simp only [slotsC, slotsP, List.mem_append]
    rcases ho with h | h
    · exact .inl (.inr h)
    · exact .inr h
  · intro o ho
    left
    simp only [slotsC, hcur, List.nil_append] at ho
    exact mem_slotOf.mpr (.inl ho)
  · intro o ho
    left
    exact mem_slotOf.mpr (.inr ho)
  · intro o ho; simp [slotsC, finish, curSlotOf, Chan.dropRx, qC] at ho
  · intro o ho; simp [slotsP, finish, Chan.dropRx, qP] at ho

theorem CoverSpec.trans_frame {s s1 s' : AState} (h : CoverSpec s1 s') (hops : s1.ops = s.ops)
    (hC : ∀ o ∈ slotsC s1, o ∈ slotsC s) (hC' : ∀ o ∈ slotsC s, o ∈ slotsC s1)
    (hP : ∀ o ∈ slotsP s1, o ∈ slotsP s) (hP' : ∀ o ∈ slotsP s, o ∈ slotsP s1) : CoverSpec s s' := by
  obtain ⟨L, a, b, c, d, e, f⟩ := h
  refine ⟨L, fun r hr hp => hops ▸ a r hr hp, fun o ho => b o (hC' o ho), fun o ho => c o (hP' o ho),
    fun o ho => hC o (d o ho), fun o ho => hP o (e o ho), ?_⟩
  intro r' hr'
  rcases f r' hr' with h | ⟨r, hr, h1, h2, h3⟩
  · exact .inl (hops ▸ h)
  · refine .inr ⟨r, hops ▸ hr, h1, h2, ?_⟩
    rcases h3 with ⟨h, h'⟩ | ⟨h, h'⟩
    · exact .inl ⟨hC _ h, h'⟩
    · exact .inr ⟨hP _ h, h'⟩

theorem cover_cancel_cur {s s' : AState} {L : List Nat} (hL : L = curSlotOf s.phase) (ph : Phase)
    (hph : curSlotOf ph = []) (hops : s'.ops = (s.cancelSlots L).ops) (hchan : s'.chan = s.chan)
    (hphase : s'.phase = ph) : CoverSpec s s' := by
  refine cover_cancel L hops ?_ ?_ ?_ ?_ ?_
  · intro o ho
    exact .inl (by simp only [slotsC, List.mem_append]; exact .inl (hL ▸ ho))
  · intro o ho
    simp only [slotsC, List.mem_append, hchan] at ho ⊢
    rcases ho with h | h
    · exact .inl (hL ▸ h)
    · exact .inr (.inr h)
  · intro o ho; simp only [slotsP, hchan]; exact .inr ho
  · intro o ho
    simp only [slotsC, List.mem_append, hphase, hph, hchan] at ho ⊢
    rcases ho with h | h
    · simp at h
    · exact .inr h
  · intro o ho; simp only [slotsP, hchan] at ho; exact ho

theorem cover_deq_handle {s s' : AState} {m' : Nat} {slot : Option Nat} {tok : Tok} {rest : List Entry}
    (hq : s.chan.queue = { pl := .msg m' slot, tok } :: rest) (hp : s.phase = .idle)
    (hops : s'.ops = s.ops) (hchan : s'.chan = s.chan.deq) (hphase : ∃ cb dl, s'.phase = .handling cb slot dl) :
    CoverSpec s s' := by
  obtain ⟨cb, dl, hph⟩ := hphase
  refine cover_frame hops ?_ ?_
  · cases slot <;> simp [slotsC, hph, hp, hchan, hq, Chan.deq, curSlotOf, qC, cSlot]
  · simp [slotsP, hchan, hq, Chan.deq, qP, pSlot]

theorem cover_deq_ping {s s' : AState} {o : Nat} {e : Entry} {rest : List Entry}
    (hq : s.chan.queue = e :: rest) (hpl : e.pl = .ping o) (hp : s.phase = .idle)
    (hops : s'.ops = s.ops.map (fun r => if (r.o == o && r.st == .pending) = true then
      { r with st := .pinged } else r))
    (hchan : s'.chan = s.chan.deq) (hphase : s'.phase = .idle) : CoverSpec s s' := by
  have hC : slotsC s' = slotsC s := by
    simp [slotsC, hphase, hp, hchan, Chan.deq, hq, qC, List.filterMap_cons, hpl, cSlot]
  have hP : slotsP s = o :: slotsP s' := by
    simp [slotsP, hchan, Chan.deq, hq, qP, List.filterMap_cons, hpl, pSlot]
  refine ⟨[o], ?_, ?_, ?_, ?_, ?_, ?_⟩
  rotate_left 5
  · intro r' hr'
    rw [hops] at hr'
    obtain ⟨r, hr, rfl⟩ := List.mem_map.mp hr'
    by_cases hc : (r.o == o && r.st == .pending) = true
    · right
      simp only [hc, if_true]
      simp at hc
      exact ⟨r, hr, rfl, rfl, .inr ⟨by rw [hP, hc.1]; simp, .inr trivial⟩⟩
    · left
      simp only [hc]
      exact hr
  · intro r' hr' hpend
    rw [hops] at hr'
    have := mem_map_pending s.ops (fun r => (r.o == o && r.st == .pending) = true)
      (fun r => { r with st := .pinged }) (by simp) hr' hpend
    refine ⟨this.1, ?_⟩
    have h2 := this.2
    simp [hpend] at h2
    simpa using h2
  · intro x hx; exact .inr (hC ▸ hx)
  · intro x hx
    rw [hP] at hx
    rcases List.mem_cons.mp hx with h | h
    · exact .inl (by simp [h])
    · exact .inr h
  · intro x hx; exact hC ▸ hx
  · intro x hx; rw [hP]; exact List.mem_cons_of_mem _ hx

/-- a stream item carries no reply slot -/
def itemOk : Phase → Bool
  | .handling (.item _) (some _) _ => false
  | _ => true

theorem CoverSpec.congr {s s1 s' : AState} (h : CoverSpec s s1) (hops : s'.ops = s1.ops)
    (hC : slotsC s' = slotsC s1) (hP : slotsP s' = slotsP s1) : CoverSpec s s' := by
  obtain ⟨L, a, b, c, d, e, f⟩ := h
  exact ⟨L, fun r hr hp => a r (hops ▸ hr) hp, fun o ho => hC ▸ b o ho, fun o ho => hP ▸ c o ho,
    fun o ho => d o (hC ▸ ho), fun o ho => e o (hP ▸ ho), fun r hr => f r (hops ▸ hr)⟩

theorem step_cover {w s l s'} (hs : step w s l = some s') (hl : l.isOpEdge = false)
    (hitem : itemOk s.phase = true) : CoverSpec s s' := by
  cases l <;> simp only [step] at hs <;> simp [Label.isOpEdge] at hl
  case mk => unfold stepMk at hs; cover_crush hs
  case upgrade => unfold stepUpgrade at hs; cover_crush hs
  case detach => unfold stepDetach at hs; cover_crush hs
  case drop => unfold stepDrop at hs; cover_crush hs
  case stopReq => unfold stepSignal at hs; cover_crush hs
  case restartReq => unfold stepSignal at hs; cover_crush hs
  case query => unfold stepQuery at hs; cover_crush hs
  case vnew => unfold stepVnew at hs; cover_crush hs
  case work => unfold stepWork at hs; cover_crush hs
  case ctxStop => unfold stepCtxSignal at hs; cover_crush hs
  case ctxRestart => unfold stepCtxSignal at hs; cover_crush hs
  case ctxTimer => unfold stepCtxTimer at hs; cover_crush hs
  case ctxWeak => unfold stepCtxWeak at hs; cover_crush hs
  case fire => unfold stepFire at hs; cover_crush hs
  case timerArm => unfold stepTimerArm at hs; cover_crush hs
  case timerEnd => unfold stepTimerEnd at hs; cover_crush hs
  case time => unfold stepTime at hs; cover_crush hs
  case streamReady => unfold stepStreamReady at hs; cover_crush hs
  case streamEnd => unfold stepStreamEnd at hs; cover_crush hs
  case tChanEnd => unfold stepChanEnd at hs; cover_crush hs
  case tStreamEnd => unfold stepStreamEndTau at hs; cover_crush hs
  case quiescent => simp only [stepQuiescent] at hs; split at hs <;> simp at hs; subst hs; exact cover_frame rfl rfl rfl
  case cancel =>
    unfold stepCancel at hs
    split at hs
    · simp at hs
    · simp only [Option.some.injEq] at hs; subst hs
      exact (cover_fail s).congr rfl rfl rfl
  case taskDone =>
    unfold stepTaskDone at hs
    split at hs
    · rename_i hp
      simp only [Option.some.injEq] at hs; subst hs
      exact cover_finish s (by simp [hp, curSlotOf])
    · simp only [Option.some.injEq] at hs; subst hs
      exact cover_fail s
    · simp at hs
  case taskPanic =>
    unfold stepTaskPanic at hs
    split at hs
    · simp only [Option.some.injEq] at hs; subst hs
      exact cover_fail s
    · rename_i hp
      split at hs
      · rename_i tok rest hq
        split at hs
        · simp only [Option.some.injEq] at hs; subst hs
          refine (cover_fail _).trans_frame rfl ?_ ?_ ?_ ?_ <;>
            simp [slotsC, slotsP, hp, hq, Chan.deq, qC, qP, cSlot, pSlot]
        · simp at hs
      · simp at hs
    · simp at hs
  case cbPanic cb =>
    unfold stepCbPanic at hs
    split at hs
    · simp only [Option.some.injEq] at hs; subst hs
      exact cover_cancel_cur (curSlot_eq s) (.exiting false) rfl rfl rfl rfl
    · simp at hs
  case cbAbandon cb =>
    unfold stepCbAbandon at hs
    cases hp : s.phase <;> simp only [hp] at hs <;> try (simp at hs; done)
    case handling cb' slot dl =>
      cases dl with
      | none => simp at hs
      | some d =>
        simp only at hs
        split at hs
        · cases slot <;>
            (split at hs <;>
              (simp only [Option.some.injEq] at hs; subst hs
               exact cover_cancel_cur (by simp [hp, curSlotOf]) _ rfl rfl rfl rfl))
        · simp at hs
    case done g =>
      cases g <;> simp only at hs
      · split at hs
        · simp only [Option.some.injEq] at hs; subst hs
          exact cover_frame rfl (by simp [slotsC, hp]) rfl
        · simp at hs
      · simp at hs
  case tickBegin t m =>
    unfold stepTickBegin at hs
    split at hs
    · rename_i t' tok rest hp hq
      split at hs
      · simp only [Option.some.injEq] at hs; subst hs
        exact cover_frame rfl (by simp [slotsC, hq, qC, cSlot]) (by simp [slotsP, hq, qP, pSlot])
      · simp at hs
    · simp at hs
  case extPush => unfold stepExtPush at hs; cover_crush hs
  case extBegin b m =>
    unfold stepExtBegin at hs
    split at hs
    · rename_i b' tok rest hp hq
      split at hs
      · simp only [Option.some.injEq] at hs; subst hs
        exact cover_frame rfl (by simp [slotsC, hq, qC, cSlot]) (by simp [slotsP, hq, qP, pSlot])
      · simp at hs
    · simp at hs
  case cbBegin cb =>
    unfold stepCbBegin at hs
    (repeat' (split at hs)) <;>
      (first
        | (simp at hs; done)
        | (simp only [Option.some.injEq] at hs; subst hs
           refine cover_frame ?_ ?_ ?_
           · simp; done
           · simp [slotsC, curSlotOf, qC, cSlot, *]; done
           · simp [slotsP, qP, pSlot]; done)
        | (simp only [Option.some.injEq] at hs; subst hs
           exact cover_deq_handle ‹_› ‹_› rfl rfl ⟨_, _, rfl⟩))
  case cbEnd cb ok =>
    unfold stepCbEnd at hs
    split at hs
    · simp at hs
    · split at hs
      · -- started
        split at hs <;>
          (simp only [Option.some.injEq] at hs; subst hs
           exact cover_frame rfl (by simp [slotsC, curSlotOf, *]) rfl)
      · -- handle
        rename_i m m' slot dl hp
        split at hs
        · simp only [Option.some.injEq] at hs; subst hs
          cases slot with
          | none => exact cover_frame (by simp [answer]) (by simp [slotsC, curSlotOf, hp]) (by simp [slotsP])
          | some o =>
            refine ⟨[o], ?_, ?_, ?_, ?_, ?_, ?_⟩
            rotate_left 5
            · intro r' hr'
              have hr2 : r' ∈ (s.answer (some o) m).ops := hr'
              unfold answer at hr2
              obtain ⟨r, hr, rfl⟩ := List.mem_map.mp hr2
              by_cases hc : (r.o == o && r.st == .pending) = true
              · right
                simp only [hc, if_true]
                simp at hc
                exact ⟨r, hr, rfl, rfl, .inl ⟨by simp [slotsC, hp, curSlotOf, hc.1], .inr ⟨_, rfl⟩⟩⟩
              · left
                simp only [hc]
                exact hr
            · intro r' hr' hpend
              have := mem_answer_pending (s := s) (o := o) (m := m) hr' hpend
              exact ⟨this.1, by simpa using this.2⟩
            · intro x hx
              simp only [slotsC, hp, curSlotOf, List.mem_append] at hx ⊢
              rcases hx with h | h
              · exact .inl h
              · exact .inr (.inr (by simpa using h))
            · intro x hx; exact .inr (by simpa [slotsP] using hx)
            · intro x hx
              simp only [slotsC, hp, curSlotOf, List.mem_append] at hx ⊢
              rcases hx with h | h
              · simp at h
              · exact .inr (by simpa using h)
            · intro x hx; simpa [slotsP] using hx
        · simp at hs
      · -- item
        rename_i k k' sl dl hp
        split at hs
        · simp only [Option.some.injEq] at hs; subst hs
          cases sl with
          | none => exact cover_frame rfl (by simp [slotsC, curSlotOf, hp]) rfl
          | some o => simp [hp, itemOk] at hitem
        · simp at hs
      · split at hs <;>
          (first
            | (simp at hs; done)
            | (simp only [Option.some.injEq] at hs; subst hs
               exact cover_frame rfl (by simp [slotsC, curSlotOf, *]) rfl))
      · split at hs <;>
          (first
            | (simp at hs; done)
            | (simp only [Option.some.injEq] at hs; subst hs
               exact cover_frame rfl (by simp [slotsC, curSlotOf, *]) rfl))
      · split at hs <;>
          (first
            | (simp at hs; done)
            | (simp only [Option.some.injEq] at hs; subst hs
               exact cover_frame (by simp) (by simp [slotsC, curSlotOf, *]) (by simp [slotsP])))
      · simp at hs
  case tDeq =>
    unfold stepDeq at hs
    split at hs
    · rename_i e rest hp hq
      split at hs
      · simp at hs
      · simp only at hs
        split at hs
        · -- ping
          rename_i o hpl
          simp only [Option.some.injEq] at hs; subst hs
          exact cover_deq_ping hq hpl hp rfl rfl hp
        · rename_i hpl
          simp only [Option.some.injEq] at hs; subst hs
          exact cover_frame rfl (by simp [slotsC, hp, hq, curSlotOf, qC, cSlot, hpl, Chan.deq])
            (by simp [slotsP, hq, qP, pSlot, hpl, Chan.deq])
        · rename_i hpl
          (repeat' (split at hs)) <;>
            (first
              | (simp at hs; done)
              | (simp only [Option.some.injEq] at hs; subst hs
                 exact cover_frame rfl (by simp [slotsC, hp, hq, curSlotOf, qC, cSlot, hpl, Chan.deq])
                   (by simp [slotsP, hq, qP, pSlot, hpl, Chan.deq])))
        · simp at hs
    · simp at hs

set_option maxHeartbeats 1000000 in
theorem itemOk_step {w : Wiring} {s s' : AState} {l : Label} (hs : step w s l = some s')
    (hi : itemOk s.phase = true) : itemOk s'.phase = true := by
  cases l <;> unfold_steps hs <;>
    ((repeat' (split at hs)) <;>
     (first
       | (simp at hs; done)
       | (simp at hs; subst hs; simp_all [itemOk, fail, finish, cancelSlots, killTimers, setTimer, addOp,
            removeOp, removeHandle, push]; done)
       | (simp at hs; subst hs; simp [itemOk]; done)
       | (simp at hs; subst hs; unfold answer; split <;> simp_all [itemOk]; done)))

/-- once the loop task is gone the mailbox is closed and empty -/
def DoneQ (s : AState) : Prop :=
  s.isDone = true → s.chan.rx = false ∧ s.chan.queue = [] ∧ s.chan.parked = []

theorem doneQ_init (cfg : Cfg) (h0 : Nat) (k0 : HKind) : DoneQ (AState.init cfg h0 k0) := by
  simp [DoneQ, AState.init, isDone]

set_option maxHeartbeats 1000000 in
theorem doneQ_step {w : Wiring} {s s' : AState} {l : Label} (hs : step w s l = some s') (hi : DoneQ s) :
    DoneQ s' := by
  unfold DoneQ at *
  cases l <;> unfold_steps hs <;>
    ((repeat' (split at hs)) <;>
     (first
       | (simp at hs; done)
       | (simp at hs; subst hs;
          simp_all [isDone, fail, finish, cancelSlots, killTimers, setTimer, addOp, removeOp, removeHandle, push,
            Chan.deq, Chan.dropRx]; done)
       | (simp at hs; subst hs; unfold answer; split <;> simp_all [isDone]; done)
       | (simp at hs; subst hs; cases hp : s.phase <;>
            simp_all [isDone, openCb, cancelSlots, curSlot, Chan.dropRx, Chan.deq]; done)))

/-- which states an operation of a given kind can be in (given fresh operation ids) -/
def stKindOk (st : OpSt) (k : OpKind) : Bool :=
  match st with
  | .pending => !isJoinKind k
  | .answered _ => k.isCall
  | .pinged => k == .ping
  | .cancelled => k.isCall || k == .ping
  | .joining | .joinNone => isJoinKind k
  | .failed _ => true

theorem slotsC_addOp (s : AState) (o h k st) : slotsC (s.addOp o h k st) = slotsC s := rfl
theorem slotsP_addOp (s : AState) (o h k st) : slotsP (s.addOp o h k st) = slotsP s := rfl
theorem slotsC_beginWait (s : AState) (o h k j) : slotsC (s.beginWait o h k j) = slotsC s := by
  unfold beginWait; split
  · split <;> rfl
  · rfl
theorem slotsP_beginWait (s : AState) (o h k j) : slotsP (s.beginWait o h k j) = slotsP s := by
  unfold beginWait; split
  · split <;> rfl
  · rfl
theorem slotsC_push (s : AState) (pl path tok) :
    slotsC (s.push pl path tok) = slotsC s ++ (match cSlot pl with | some o => [o] | none => []) := by
  simp only [slotsC, push_phase, push_chan, Chan.enq_queue, qC, List.filterMap_append, List.append_assoc]
  congr 1
  simp only [List.filterMap_cons, List.filterMap_nil]
  cases cSlot pl <;> rfl
theorem slotsP_push (s : AState) (pl path tok) :
    slotsP (s.push pl path tok) = slotsP s ++ (match pSlot pl with | some o => [o] | none => []) := by
  simp only [slotsP, push_chan, Chan.enq_queue, qP, List.filterMap_append]
  congr 1
  simp only [List.filterMap_cons, List.filterMap_nil]
  cases pSlot pl <;> rfl

theorem beginWait_st (s : AState) (o h k j) :
    ∃ st, (s.beginWait o h k j).ops = s.ops ++ [{ o, h, kind := k, st }] ∧
      ((j = false ∧ st = .pending) ∨ (j = true ∧ (st = .joining ∨ st = .joinNone))) := by
  unfold beginWait; split
  · rename_i hj
    split
    · exact ⟨_, rfl, .inr ⟨hj, .inr rfl⟩⟩
    · exact ⟨_, rfl, .inr ⟨hj, .inl rfl⟩⟩
  · rename_i hj
    exact ⟨_, rfl, .inl ⟨by simpa using hj, rfl⟩⟩

theorem plan_join06 (w hk o k) : (plan w hk o k).join = isJoinKind k := by cases k <;> rfl

theorem plan_slots (w hk o k) :
    (match (plan w hk o k).pl with
     | none => k.isCall = false ∧ k ≠ .ping
     | some pl =>
       (cSlot pl = (if k.isCall then some o else none)) ∧ (pSlot pl = (if k = .ping then some o else none))) := by
  cases k <;> simp [plan, cSlot, pSlot, OpKind.isCall]

/-- what `begin` does to the slots and the fresh record -/
theorem stepBegin_slots {w s o h k s'} (hs : stepBegin w s o h k = some s') :
    (∀ x ∈ slotsC s, x ∈ slotsC s') ∧ (∀ x ∈ slotsP s, x ∈ slotsP s') ∧
    (∀ x ∈ slotsC s', x ∈ slotsC s ∨ (x = o ∧ k.isCall = true)) ∧
    (∀ x ∈ slotsP s', x ∈ slotsP s ∨ (x = o ∧ k = .ping)) ∧
    ∃ st, s'.ops = s.ops ++ [{ o, h, kind := k, st }] ∧ stKindOk st k = true ∧
      (st = .pending → (k.isCall = true → o ∈ slotsC s') ∧ (k = .ping → o ∈ slotsP s')) := by
  unfold stepBegin at hs
  cases hk0 : s.handleKind h with
  | none => simp [hk0] at hs
  | some hk =>
    simp only [hk0] at hs
    split at hs
    · simp at hs
    · split at hs
      · simp only [Option.some.injEq] at hs; subst hs
        exact ⟨fun _ h => h, fun _ h => h, fun _ h => .inl h, fun _ h => .inl h, _, rfl, rfl, by simp⟩
      · have hpj := plan_join06 w hk o k
        have hps := plan_slots w hk o k
        cases hpl : (plan w hk o k).pl with
        | none =>
          simp only [hpl] at hs hps
          simp only [Option.some.injEq] at hs; subst hs
          obtain ⟨st, hops, hst⟩ := beginWait_st s o h k (plan w hk o k).join
          rw [slotsC_beginWait, slotsP_beginWait]
          refine ⟨fun _ h => h, fun _ h => h, fun _ h => .inl h, fun _ h => .inl h, st, hops, ?_, ?_⟩
          · rcases hst with ⟨hj, rfl⟩ | ⟨hj, rfl | rfl⟩ <;> simp [stKindOk, ← hpj, hj]
          · intro _; exact ⟨fun h => by simp [hps.1] at h, fun h => absurd h hps.2⟩
        | some pl =>
          simp only [hpl] at hs hps
          split at hs
          · simp only [Option.some.injEq] at hs; subst hs
            obtain ⟨st, hops, hst⟩ := beginWait_st (s.push pl (plan w hk o k).path (.op o)) o h k (plan w hk o k).join
            rw [slotsC_beginWait, slotsP_beginWait, slotsC_push, slotsP_push, hps.1, hps.2]
            refine ⟨fun x h => List.mem_append_left _ h, fun x h => List.mem_append_left _ h, ?_, ?_,
              st, by simpa using hops, ?_, ?_⟩
            · intro x hx
              rcases List.mem_append.mp hx with h | h
              · exact .inl h
              · cases hc : k.isCall <;> simp [hc] at h; exact .inr ⟨h, rfl⟩
            · intro x hx
              rcases List.mem_append.mp hx with h | h
              · exact .inl h
              · by_cases hc : k = .ping <;> simp [hc] at h; exact .inr ⟨h, hc⟩
            · rcases hst with ⟨hj, rfl⟩ | ⟨hj, rfl | rfl⟩ <;> simp [stKindOk, ← hpj, hj]
            · intro _
              exact ⟨fun hc => by simp [hc], fun hc => by simp [hc]⟩
          · simp only [Option.some.injEq] at hs; subst hs
            exact ⟨fun _ h => h, fun _ h => h, fun _ h => .inl h, fun _ h => .inl h, _, rfl, rfl, by simp⟩

/-! ### The invariant (for traces with fresh operation ids) -/

structure QInv06 (s : AState) (u : List Nat) : Prop where
  kind : ∀ r ∈ s.ops, stKindOk r.st r.kind = true
  skC : ∀ o ∈ slotsC s, ∀ r ∈ s.ops, r.o = o → r.kind.isCall = true
  skP : ∀ o ∈ slotsP s, ∀ r ∈ s.ops, r.o = o → r.kind = .ping
  seen : ∀ o, (o ∈ slotsC s ∨ o ∈ slotsP s) → o ∈ u
  cover : ∀ r ∈ s.ops, r.st = .pending →
    (r.kind.isCall = true → r.o ∈ slotsC s) ∧ (r.kind = .ping → r.o ∈ slotsP s)
  item : itemOk s.phase = true
  dq : DoneQ s

theorem stepCdrop_phase {s o s'} (hs : stepCdrop s o = some s') : s'.phase = s.phase := by
  unfold stepCdrop at hs
  split at hs
  · simp at hs
  · split at hs <;> (simp at hs; subst hs; simp)

theorem qinv06_init (cfg : Cfg) (h0 : Nat) (k0 : HKind) : QInv06 (AState.init cfg h0 k0) monUniq.init := by
  refine ⟨?_, ?_, ?_, ?_, ?_, rfl, doneQ_init _ _ _⟩ <;>
    simp [AState.init, slotsC, slotsP, curSlotOf, qC, qP, Chan.init]

theorem qinv06_step (w : Wiring) {s s' : AState} {u u' : List Nat} {l : Label} (hi : QInv06 s u)
    (hs : step w s l = some s') (hu : monUniq.step u l = some u') : QInv06 s' u' := by
  have hitem := itemOk_step hs hi.item
  have hdq := doneQ_step hs hi.dq
  by_cases hedge : l.isOpEdge = true
  · cases l <;> simp [Label.isOpEdge] at hedge
    case begin o h k =>
      simp only [step] at hs
      simp only [monUniq] at hu
      split at hu
      · simp at hu
      · rename_i hnew
        simp at hu hnew; subst hu
        obtain ⟨hfresh, -⟩ := stepBegin_ops hs
        have hne := findOp_none_ne hfresh
        obtain ⟨a1, a2, a3, a4, st, hops, hk, hpend⟩ := stepBegin_slots hs
        refine ⟨?_, ?_, ?_, ?_, ?_, hitem, hdq⟩
        · intro r hr
          rw [hops] at hr
          rcases List.mem_append.mp hr with hr | hr
          · exact hi.kind r hr
          · simp at hr; subst hr; exact hk
        · intro x hx r hr hrx
          rw [hops] at hr
          rcases List.mem_append.mp hr with hr | hr
          · rcases a3 x hx with h | ⟨h, _⟩
            · exact hi.skC x h r hr hrx
            · exact absurd (hrx.trans h) (hne r hr)
          · simp at hr; subst hr
            rcases a3 x hx with h | ⟨_, h⟩
            · exact absurd (hi.seen x (.inl h)) (by simp at hrx; rw [← hrx]; exact hnew)
            · exact h
        · intro x hx r hr hrx
          rw [hops] at hr
          rcases List.mem_append.mp hr with hr | hr
          · rcases a4 x hx with h | ⟨h, _⟩
            · exact hi.skP x h r hr hrx
            · exact absurd (hrx.trans h) (hne r hr)
          · simp at hr; subst hr
            rcases a4 x hx with h | ⟨_, h⟩
            · exact absurd (hi.seen x (.inr h)) (by simp at hrx; rw [← hrx]; exact hnew)
            · exact h
        · intro x hx
          rcases hx with hx | hx
          · rcases a3 x hx with h | ⟨h, _⟩
            · exact List.mem_cons_of_mem _ (hi.seen x (.inl h))
            · simp [h]
          · rcases a4 x hx with h | ⟨h, _⟩
            · exact List.mem_cons_of_mem _ (hi.seen x (.inr h))
            · simp [h]
        · intro r hr hp
          rw [hops] at hr
          rcases List.mem_append.mp hr with hr | hr
          · obtain ⟨c1, c2⟩ := hi.cover r hr hp
            exact ⟨fun h => a1 _ (c1 h), fun h => a2 _ (c2 h)⟩
          · simp at hr; subst hr; exact hpend hp
    case ret o r =>
      simp only [monUniq] at hu; simp at hu; subst hu
      simp only [step] at hs
      have hch := stepRet_chan hs
      obtain ⟨rec, hfind, hexp, hops, _⟩ := stepRet_ops hs
      have hph : s'.phase = s.phase := by
        unfold stepRet at hs
        simp only [hfind, hexp, if_true] at hs
        simp at hs; subst hs; exact retEffect_phase _ _
      have hC : slotsC s' = slotsC s := by simp [slotsC, hch, hph]
      have hP : slotsP s' = slotsP s := by simp [slotsP, hch]
      have hsub : ∀ r0 ∈ s'.ops, r0 ∈ s.ops := fun r0 h => (List.mem_filter.mp (hops ▸ h)).1
      exact ⟨fun r0 h => hi.kind r0 (hsub r0 h), fun x hx r0 h => hi.skC x (hC ▸ hx) r0 (hsub r0 h),
        fun x hx r0 h => hi.skP x (hP ▸ hx) r0 (hsub r0 h), fun x hx => hi.seen x (hC ▸ hP ▸ hx),
        fun r0 h hp => hC ▸ hP ▸ hi.cover r0 (hsub r0 h) hp, hitem, hdq⟩
    case cdrop o =>
      simp only [monUniq] at hu; simp at hu; subst hu
      simp only [step] at hs
      have hch := stepCdrop_chan hs
      have hops := stepCdrop_ops hs
      have hph := stepCdrop_phase hs
      have hC : slotsC s' = slotsC s := by simp [slotsC, hch, hph]
      have hP : slotsP s' = slotsP s := by simp [slotsP, hch]
      have hsub : ∀ r0 ∈ s'.ops, r0 ∈ s.ops := fun r0 h => (List.mem_filter.mp (hops ▸ h)).1
      exact ⟨fun r0 h => hi.kind r0 (hsub r0 h), fun x hx r0 h => hi.skC x (hC ▸ hx) r0 (hsub r0 h),
        fun x hx r0 h => hi.skP x (hP ▸ hx) r0 (hsub r0 h), fun x hx => hi.seen x (hC ▸ hP ▸ hx),
        fun r0 h hp => hC ▸ hP ▸ hi.cover r0 (hsub r0 h) hp, hitem, hdq⟩
  · have hedge' : l.isOpEdge = false := by simpa using hedge
    have huu : u' = u := by
      cases l <;> simp [Label.isOpEdge] at hedge' <;> (simp [monUniq] at hu; exact hu.symm)
    subst huu
    obtain ⟨L, c1, c2, c3, c4, c5, c7⟩ := step_cover hs hedge' hi.item
    refine ⟨?_, ?_, ?_, ?_, ?_, hitem, hdq⟩
    · intro r' hr'
      rcases c7 r' hr' with h | ⟨r, hr, ho, hk, h⟩
      · exact hi.kind r' h
      · rcases h with ⟨hx, hst⟩ | ⟨hx, hst⟩
        · have := hi.skC r.o hx r hr rfl
          rcases hst with hst | ⟨v, hst⟩ <;> simp [stKindOk, hst, hk, this]
        · have := hi.skP r.o hx r hr rfl
          rcases hst with hst | hst <;> simp [stKindOk, hst, hk, this]
    · intro x hx r' hr' hrx
      rcases c7 r' hr' with h | ⟨r, hr, ho, hk, _⟩
      · exact hi.skC x (c4 x hx) r' h hrx
      · rw [hk]; exact hi.skC x (c4 x hx) r hr (ho ▸ hrx)
    · intro x hx r' hr' hrx
      rcases c7 r' hr' with h | ⟨r, hr, ho, hk, _⟩
      · exact hi.skP x (c5 x hx) r' h hrx
      · rw [hk]; exact hi.skP x (c5 x hx) r hr (ho ▸ hrx)
    · intro x hx
      rcases hx with hx | hx
      · exact hi.seen x (.inl (c4 x hx))
      · exact hi.seen x (.inr (c5 x hx))
    · intro r' hr' hp
      obtain ⟨hin, hnL⟩ := c1 r' hr' hp
      obtain ⟨d1, d2⟩ := hi.cover r' hin hp
      refine ⟨fun h => ?_, fun h => ?_⟩
      · rcases c2 _ (d1 h) with h' | h'
        · exact absurd h' hnL
        · exact h'
      · rcases c3 _ (d2 h) with h' | h'
        · exact absurd h' hnL
        · exact h'

/-! ### Nothing hangs on a terminated actor -/

/-- once the loop task is gone every recorded operation can return -/
theorem retExpect_isSome_of_done {s : AState} {u : List Nat} (hq : QInv06 s u) (ht : TermInv s)
    (hd : s.isDone = true) {r : OpRec} (hr : r ∈ s.ops) : (s.retExpect r).isSome = true := by
  have hk := hq.kind r hr
  obtain ⟨_, hqueue, hparked⟩ := hq.dq hd
  have hslC : slotsC s = [] := by
    unfold isDone at hd
    cases hp : s.phase <;> simp [hp] at hd
    simp [slotsC, hp, curSlotOf, hqueue, qC]
  have hslP : slotsP s = [] := by simp [slotsP, hqueue, qP]
  have hlatch : s.latchRes.isSome = true := by
    have := ht.latch
    unfold isDone at hd
    cases hp : s.phase <;> simp [hp] at hd
    unfold latchRes
    cases hl : s.latch <;> simp [hl, hp, latchOk] at this ⊢
  unfold retExpect
  cases hst : r.st <;> simp only [hst, stKindOk] at hk ⊢
  case failed e => rfl
  case pending =>
    have hc := hq.cover r hr hst
    rw [hslC, hslP] at hc
    cases hkd : r.kind <;> simp [hkd, isJoinKind, OpKind.isCall, Chan.isParked, hparked, hlatch] at hk hc ⊢
  case answered v => cases hkd : r.kind <;> simp [hkd, OpKind.isCall] at hk ⊢
  case pinged => simp at hk; simp [hk]
  case cancelled => cases hkd : r.kind <;> simp [hkd, OpKind.isCall] at hk ⊢
  case joining =>
    simp only [hd, if_true]
    cases hkd : r.kind <;> simp [hkd, isJoinKind] at hk ⊢ <;> cases s.result <;> rfl
  case joinNone => cases hkd : r.kind <;> simp [hkd, isJoinKind] at hk ⊢

structure C06qInv (c : MonCtx) (s : AState) (σ : C06St) (u : List Nat) : Prop where
  f : Flags06 c s σ
  t : TermInv s
  q : QInv06 s u

theorem c06q_step (w : Wiring) (hw : w.notifyAfterStopped = true) (c : MonCtx) {s s' : AState} {σ : C06St}
    {u u' : List Nat} {l : Label} (hi : C06qInv c s σ u) (hs : step w s l = some s')
    (hu : monUniq.step u l = some u') :
    ∃ σ', (monC06q c).step σ l = some σ' ∧ C06qInv c s' σ' u' := by
  have hbad : bad06q σ l = false := by
    cases l <;> simp only [bad06q]
    case quiescent pend =>
      cases hf : σ.failed
      · rfl
      · simp only [Bool.true_and]
        have hfl := hi.f.fail
        rw [hf] at hfl
        simp only [step, stepQuiescent] at hs
        split at hs
        · rename_i hq
          simp only [Bool.and_eq_true, quiet] at hq
          have hd : s.isDone = true := by
            have hq1 := hq.1.1.1.1
            unfold isDone
            cases hp : s.phase <;> simp [hp, failing] at hfl hq1 ⊢
          have hall := hq.1.1.2
          have hops : s.ops = [] := by
            cases hl : s.ops with
            | nil => rfl
            | cons r rest =>
              have hr : r ∈ s.ops := by simp [hl]
              have h1 := retExpect_isSome_of_done hi.q hi.t hd hr
              have h2 := List.all_eq_true.mp hall r hr
              simp at h2
              simp [h2] at h1
          have hpend : pend = [] := by
            cases pend with
            | nil => rfl
            | cons o rest =>
              have := List.all_eq_true.mp hq.1.2 o (by simp)
              simp [findOp, hops] at this
          simp [hpend]
        · simp at hs
  exact ⟨next06 c σ l, by simp [monC06q, hbad],
    ⟨flags06_step w c hi.f hs, termInv_step w hw hs hi.t, qinv06_step w hi.q hs hu⟩⟩

theorem c06q_run (w : Wiring) (hw : w.notifyAfterStopped = true) (c : MonCtx) :
    ∀ (ls : List Label) (s s' : AState) (σ : C06St) (u : List Nat), C06qInv c s σ u →
      run w s ls = some s' → (monUniq.run u ls).isSome = true → ((monC06q c).run σ ls).isSome = true
  | [], _, _, _, _, _, _, _ => by simp [Mon.run]
  | l :: ls, s, s', σ, u, hi, hr, hu => by
    simp only [run] at hr
    simp only [Mon.run] at hu ⊢
    cases hs : step w s l with
    | none => simp [hs] at hr
    | some s1 =>
      simp only [hs] at hr
      cases hu1 : monUniq.step u l with
      | none => simp [hu1] at hu
      | some u1 =>
        simp only [hu1] at hu
        obtain ⟨σ1, hm, hi1⟩ := c06q_step w hw c hi hs hu1
        simp only [hm]
        exact c06q_run w hw c ls s1 s' σ1 u1 hi1 hr hu

/-- **C06, quiescence.** On traces that never reuse an operation id: at quiescence after a failure no
    operation on the actor is pending. -/
theorem C06q_holds (w : Wiring) (hw : w.notifyAfterStopped = true) (c : MonCtx) (ls : List Label) (s : AState)
    (hr : run w (AState.init c.cfg c.h0 c.k0) ls = some s) (huniq : uniqueBegins ls = true) :
    (monC06q c).ok ls = true :=
  c06q_run w hw c ls _ s _ _ ⟨(c06_init c).f, termInv_init _ _ _, qinv06_init _ _ _⟩ hr huniq

/-- the hypothesis is satisfiable and the monitor non-trivial -/
example : uniqueBegins c06Example = true := by decide
example : (monC06q c06Ctx).ok c06Example = true := by decide
example : (monC06q c06Ctx).ok [ .cbBegin .started, .cbEnd .started true, .begin 1 0 (.call 8), .cancel,
    .quiescent [1] ] = false := by decide
example : uniqueBegins [ .begin 1 0 (.call 8), .cdrop 1, .begin 1 0 (.send 8) ] = false := by decide

/-- Why fresh ids are needed: the model lets a dropped call's id be reused by a send, which the late reply
    then "answers" — that send can never return (`Props/C06Current.lean` shows the run). -/
def c06Reuse : List Label :=
  [ .cbBegin .started, .cbEnd .started true, .begin 1 0 (.call 8), .cdrop 1, .begin 1 0 (.send 9),
    .cbBegin (.handle 8), .cbEnd (.handle 8) true, .cancel, .quiescent [1] ]
example : (monC06q c06Ctx).ok c06Reuse = false := by decide
example : uniqueBegins c06Reuse = false := by decide

end Hannibal
