import Hannibal.Props.C05Q
import Hannibal.Props.C05Current
/- C05 (2), drain-then-stop, for the wiring extracted from today's source. -/
namespace Hannibal

theorem C05q_current (c : MonCtx) (ls : List Label) (s : AState)
    (hr : run Wiring.current (AState.init c.cfg c.h0 c.k0) ls = some s) (hfresh : opIdsFresh ls = true) :
    (monC05q c).ok ls = true :=
  C05q_holds _ wellWired05_current c ls s hr hfresh

/-- the example trace is a run of the model (both quiescence points included) -/
example : (run Wiring.current (AState.init c05Cfg 0 .addr) c05qExample).isSome = true := by decide
/-- ... and a guarded run -/
example : (grun Wiring.current (AState.init c05Cfg 0 .addr) c05qExample).isSome = true := by decide

/-- why the hypothesis on operation ids is needed: the model lets an id be reused after `cdrop`.  The reply
    slot of the dropped `Caller::call` 0 then answers the `try_send` that took over its id, which can never
    return and owns a strong sender for ever: the model is quiet with the loop parked on an open mailbox
    although no strong handle is left, and `monC05q` rejects. -/
def c05qReuseWitness : List Label :=
  [ .cbBegin .started, .cbEnd .started true, .mk 0 1 .caller, .mk 0 2 .weakSender,
    .begin 0 1 (.callw 5), .cdrop 0, .begin 0 2 (.trySend 6), .drop 0, .drop 1,
    .cbBegin (.handle 5), .cbEnd (.handle 5) true, .cbBegin (.handle 6), .cbEnd (.handle 6) true,
    .quiescent [0] ]
example : (run Wiring.current (AState.init c05Cfg 0 .addr) c05qReuseWitness).isSome = true := by decide
example : (monC05q c05Ctx).ok c05qReuseWitness = false := by decide
example : opIdsFresh c05qReuseWitness = false := by decide

/-- the wiring hypothesis is needed: if weak senders owned a closure the loop would stay parked on the open
    mailbox after the last strong handle is gone, at a quiescence the monitor rejects -/
example : (run Wiring.weakOwns (AState.init c05Cfg 0 .addr)
    [ .cbBegin .started, .cbEnd .started true, .mk 0 1 .weakSender, .drop 0, .quiescent [] ]).isSome = true
  ∧ (monC05q c05Ctx).ok [ .cbBegin .started, .cbEnd .started true, .mk 0 1 .weakSender, .drop 0,
      .quiescent [] ] = false := by decide

end Hannibal
