import Hannibal.Props.C10Q
import Hannibal.Generated.Wiring
/- C10q for the wiring extracted from today's source (no wiring hypothesis is needed). -/
namespace Hannibal

theorem C10q_current (c : MonCtx) (ls : List Label) (s : AState)
    (hr : run Wiring.current (AState.init c.cfg c.h0 c.k0) ls = some s) : (monC10q c).ok ls = true :=
  C10q_holds _ c ls s hr

/-- the accepted example is a run of the model, and so is its continuation to a quiescent end:
    the actor is stopped, the interval task is aborted and seen to end -/
def c10qExampleEnd : List Label :=
  c10qExample ++ [ .stopReq 0 true, .tDeq, .cbBegin .stopped, .cbEnd .stopped true, .taskDone, .timerEnd 0,
    .drop 0, .quiescent [] ]
example : (run Wiring.current (AState.init c10qCfg 0 .addr) c10qExample).isSome = true := by decide
example : (run Wiring.current (AState.init c10qCfg 0 .addr) c10qExampleEnd).isSome = true := by decide
example : (monC10q c10qCtx).ok c10qExampleEnd = true := by decide
/-- the model refuses `quiescent` while the timer task has not ended, and a tick that was never pushed -/
example : (run Wiring.current (AState.init c10qCfg 0 .addr)
    (c10qExample ++ [ .stopReq 0 true, .tDeq, .cbBegin .stopped, .cbEnd .stopped true, .taskDone,
      .quiescent [] ])).isSome = false := by decide
example : (run Wiring.current (AState.init c10qCfg 0 .addr) (c10qExample ++ [.tickBegin 0 3])).isSome = false := by
  decide

end Hannibal
