import Hannibal.Proofs.C04QInv
/-
  C04 (drain barrier): for every wiring in which strong handles own both channel closures and weak handles
  own nothing and need a live closure to upgrade (`WellWired05`; whichever path stop requests and sends
  take, and whether the loop notifies before or after `stopped()`), every run of the actor model whose
  labels use fresh message numbers and fresh operation ids (`wf01`) is accepted by `monC04q`:

  (a) a message whose submission began after an accepted stop request had returned is never handled, and a
      call carrying such a message returns an error;
  (b) at quiescence, if a stop request was accepted, the actor has not failed and is not a stream actor whose
      stream ended: the actor has terminated and every message whose `send` was acknowledged before the
      first stop request was issued has been handled.
-/
namespace Hannibal
open AState

/-- the wiring facts C04 (drain barrier) rests on: strong handles own both channel closures, weak handles
    own nothing and need a live closure to upgrade -/
def WellWired04q (w : Wiring) : Prop := WellWired05 w

instance (w : Wiring) : Decidable (WellWired04q w) := by unfold WellWired04q; infer_instance

/-- one-step simulation lifted to runs, with the well-formedness automaton and the C01 monitor (a ghost)
    running alongside -/
theorem c04q_run (w : Wiring) (hw : WellWired04q w) (c : MonCtx) :
    ∀ (ls : List Label) (s s' : AState) (σ : C04qSt) (σ1 : C01St) (g : Wf01St), C04qInv c s σ σ1 g →
      run w s ls = some s' → (monWf01.run g ls).isSome = true → ((monC04q c).run σ ls).isSome = true
  | [], _, _, _, _, _, _, _, _ => by simp [Mon.run]
  | l :: ls, s, s', σ, σ1, g, hi, hr, hwf => by
    simp only [run] at hr
    cases hs : step w s l with
    | none => simp [hs] at hr
    | some s1 =>
      simp only [hs] at hr
      simp only [Mon.run] at hwf ⊢
      have hg : wfBad g l = false := by
        cases hb : wfBad g l
        · rfl
        · simp [monWf01, hb] at hwf
      simp only [monWf01, hg] at hwf
      obtain ⟨hbad, hi1⟩ := c04q_step w hw c hi hs hg
      rw [monC04q_step, hbad]
      exact c04q_run w hw c ls s1 s' _ _ _ hi1 hr hwf

/-- **C04 (stop is a drain barrier).**  In every run of the actor model — both mailbox kinds, every handle
    kind, waiting and forcing path, timers, restarts queued before the stop, every termination cause —
    whose trace never re-uses a message number or an operation id: nothing submitted after an accepted stop
    request had returned is ever handled, a call carrying such a message returns an error; and at
    quiescence after an accepted stop request (no failure, no ended stream) the actor has terminated and
    everything whose send was acknowledged before the first stop request has been handled. -/
theorem C04q_holds (w : Wiring) (hw : WellWired04q w) (c : MonCtx) (ls : List Label) (s : AState)
    (hr : run w (AState.init c.cfg c.h0 c.k0) ls = some s) (hwf : wf01 ls = true) :
    (monC04q c).ok ls = true :=
  c04q_run w hw c ls _ s _ _ _ (c04q_init c) hr hwf

/-! ### non-vacuity -/

def c04qCfg : Cfg := { cap := none, strat := .only, timeout := none, failOnTimeout := false, stream := false }
def c04qCtx : MonCtx := { cfg := c04qCfg, h0 := 0, k0 := .addr, prompt := true }

/-- message 1 is acknowledged before the stop request and handled before the loop leaves; the send of 2
    and the call of 3 begin after the accepted stop request returned: they queue up behind it, are never
    handled, the call is cancelled; the actor terminates gracefully and the system falls quiet -/
def c04qExample : List Label :=
  [ .cbBegin .started, .cbEnd .started true,
    .begin 0 0 (.send 1), .ret 0 .ok,
    .stopReq 0 true,
    .begin 1 0 (.send 2), .begin 2 0 (.call 3), .ret 1 .ok,
    .cbBegin (.handle 1), .cbEnd (.handle 1) true,
    .tDeq, .cbBegin .stopped, .cbEnd .stopped true, .taskDone,
    .ret 2 (.err .canceled),
    .quiescent [] ]

example : (monC04q c04qCtx).ok c04qExample = true := by decide
/-- the well-formedness hypothesis is satisfiable (by the same trace) -/
example : wf01 c04qExample = true := by decide

/-- (a) a message submitted after the accepted stop request returned is handled -/
example : (monC04q c04qCtx).ok [ .cbBegin .started, .cbEnd .started true, .stopReq 0 true,
    .begin 1 0 (.send 2), .cbBegin (.handle 2) ] = false := by decide
/-- (a) a call submitted after the accepted stop request returned gets a reply -/
example : (monC04q c04qCtx).ok [ .cbBegin .started, .cbEnd .started true, .stopReq 0 true,
    .begin 2 0 (.call 3), .ret 2 (.okReply { m := 3, birth := 0, digest := [3] }) ] = false := by decide
/-- (b) the loop leaves at the stop request although an acknowledged message was never handled -/
example : (monC04q c04qCtx).ok [ .cbBegin .started, .cbEnd .started true, .begin 0 0 (.send 1), .ret 0 .ok,
    .stopReq 0 true, .tDeq, .cbBegin .stopped, .cbEnd .stopped true, .taskDone, .quiescent [] ] = false := by
  decide
/-- (b) quiescence after an accepted stop request without termination -/
example : (monC04q c04qCtx).ok [ .cbBegin .started, .cbEnd .started true, .stopReq 0 true,
    .quiescent [] ] = false := by decide

end Hannibal
