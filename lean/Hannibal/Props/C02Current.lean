import Hannibal.Props.C02
import Hannibal.Generated.Wiring
/- C02 for the wiring extracted from today's source. -/
namespace Hannibal

theorem wellWired02_current : Wiring.current.notifyAfterStopped = true := by decide

theorem C02_current (c : MonCtx) (ls : List Label) (s : AState)
    (hr : run Wiring.current (AState.init c.cfg c.h0 c.k0) ls = some s) (hfresh : opIdsFresh ls = true) :
    (monC02 c).ok ls = true :=
  C02_holds _ wellWired02_current c ls s hr hfresh

/-- the trace-only clause, and with it the property as first written, under the extra executor assumption -/
theorem C02orig_current (c : MonCtx) (ls : List Label) (s : AState)
    (hr : run Wiring.current (AState.init c.cfg c.h0 c.k0) ls = some s) (hfresh : opIdsFresh ls = true)
    (hnc : noCancelAfterStopped ls = true) : (monC02orig c).ok ls = true :=
  C02orig_holds _ wellWired02_current c ls s hr hfresh hnc

/-- the example is a run of the model under today's wiring -/
example : (run Wiring.current (AState.init c02Cfg 0 .addr) c02Example).isSome = true := by decide

/-- the runs rejected by the trace-only clause are runs of the model under today's wiring -/
example : (run Wiring.current (AState.init c02Cfg 0 .addr) c02AwaitWitness).isSome = true := by decide
example : (run Wiring.current (AState.init c02Cfg 0 .addr) c02AwaitWitness2).isSome = true := by decide

/-- the model alone admits the run that reuses an operation id -/
example : (run Wiring.current (AState.init c02Cfg 0 .addr) c02ReuseWitness).isSome = true := by decide

end Hannibal
