import Hannibal.Props.C04P
import Hannibal.Generated.Wiring
/- C02 / C04 (drain barrier, pings) for the wiring extracted from today's source. -/
namespace Hannibal

theorem C04p_current (c : MonCtx) (ls : List Label) (s : AState)
    (hr : run Wiring.current (AState.init c.cfg c.h0 c.k0) ls = some s) (hfresh : opIdsFresh ls = true) :
    monC04p.ok ls = true :=
  C04p_holds _ c ls s hr hfresh

/-- the trace of `Props/C04P.lean` is a run of the model: ping 1 (begun before the stop request) returns Ok,
    ping 2 (begun after the accepted stop request returned, while the actor was busy) is cancelled -/
example : (run Wiring.current (AState.init c04pCfg 0 .addr) c04pExample).isSome = true := by decide

/-- the actor is busy (its handler sleeps until time 5) when the stop request is accepted; the ping is begun
    afterwards; the handler finishes, the loop takes the stop, `stopped` runs, the task ends; the ping returns
    the cancellation error -/
def c04pBusy : List Label :=
  [ .cbBegin .started, .cbEnd .started true,
    .begin 0 0 (.send 1), .ret 0 .ok, .cbBegin (.handle 1), .work 5,
    .stopReq 0 true,
    .begin 2 0 .ping,
    .time 5, .cbEnd (.handle 1) true,
    .tDeq, .cbBegin .stopped, .cbEnd .stopped true, .taskDone ]

example : (run Wiring.current (AState.init c04pCfg 0 .addr) (c04pBusy ++ [.ret 2 (.err .canceled)])).isSome = true := by
  decide
example : monC04p.ok (c04pBusy ++ [.ret 2 (.err .canceled)]) = true := by decide
example : opIdsFresh (c04pBusy ++ [.ret 2 (.err .canceled)]) = true := by decide

/-- the bad continuation - the late ping returns Ok - is rejected by the monitor and refused by the model, at
    the end of the run ... -/
example : monC04p.ok (c04pBusy ++ [.ret 2 .ok]) = false := by decide
example : run Wiring.current (AState.init c04pCfg 0 .addr) (c04pBusy ++ [.ret 2 .ok]) = none := by decide
/-- ... and at every earlier point after its begin (the loop never reaches the payload) -/
example : run Wiring.current (AState.init c04pCfg 0 .addr) (c04pBusy.take 8 ++ [.ret 2 .ok]) = none := by decide
example : run Wiring.current (AState.init c04pCfg 0 .addr) (c04pBusy.take 10 ++ [.ret 2 .ok]) = none := by decide
example : run Wiring.current (AState.init c04pCfg 0 .addr) (c04pBusy.take 11 ++ [.ret 2 .ok]) = none := by decide
/-- the loop cannot take the late ping: after the stop it takes nothing any more -/
example : run Wiring.current (AState.init c04pCfg 0 .addr) (c04pBusy.take 11 ++ [.tDeq]) = none := by decide

/-- a ping begun BEFORE the stop request (and before the handler ends) legitimately returns Ok: the loop takes
    it on its way to the stop -/
def c04pEarly : List Label :=
  [ .cbBegin .started, .cbEnd .started true,
    .begin 0 0 (.send 1), .ret 0 .ok, .cbBegin (.handle 1), .work 5,
    .begin 1 0 .ping,
    .stopReq 0 true,
    .time 5, .cbEnd (.handle 1) true,
    .tDeq, .ret 1 .ok,
    .tDeq, .cbBegin .stopped, .cbEnd .stopped true, .taskDone ]
example : (run Wiring.current (AState.init c04pCfg 0 .addr) c04pEarly).isSome = true := by decide
example : monC04p.ok c04pEarly = true := by decide

/-- after `ctx.stop()` inside a handler -/
def c04pCtxStop : List Label :=
  [ .cbBegin .started, .cbEnd .started true,
    .begin 0 0 (.send 1), .ret 0 .ok, .cbBegin (.handle 1), .ctxStop true,
    .begin 2 0 .ping, .cbEnd (.handle 1) true,
    .tDeq, .cbBegin .stopped, .cbEnd .stopped true, .taskDone ]
example : (run Wiring.current (AState.init c04pCfg 0 .addr) (c04pCtxStop ++ [.ret 2 (.err .canceled)])).isSome = true := by
  decide
example : monC04p.ok (c04pCtxStop ++ [.ret 2 (.err .canceled)]) = true := by decide
example : monC04p.ok (c04pCtxStop ++ [.ret 2 .ok]) = false := by decide
example : run Wiring.current (AState.init c04pCfg 0 .addr) (c04pCtxStop ++ [.ret 2 .ok]) = none := by decide

/-- after a `halt` that returned Ok: the receiver is gone, the ping is refused at once -/
def c04pHalt : List Label :=
  [ .cbBegin .started, .cbEnd .started true, .mk 0 1 .addr, .begin 0 0 .halt, .tDeq,
    .cbBegin .stopped, .cbEnd .stopped true, .taskDone, .ret 0 .ok, .begin 2 1 .ping ]
example : (run Wiring.current (AState.init c04pCfg 0 .addr) (c04pHalt ++ [.ret 2 (.err .send)])).isSome = true := by
  decide
example : monC04p.ok (c04pHalt ++ [.ret 2 (.err .send)]) = true := by decide
example : monC04p.ok (c04pHalt ++ [.ret 2 .ok]) = false := by decide
example : run Wiring.current (AState.init c04pCfg 0 .addr) (c04pHalt ++ [.ret 2 .ok]) = none := by decide

/-- a restart queued before the stop request does not let the late ping through -/
def c04pRstCfg : Cfg := { c04pCfg with strat := .recreate }
def c04pRestart : List Label :=
  [ .cbBegin .started, .cbEnd .started true,
    .restartReq 0 true, .stopReq 0 true, .begin 2 0 .ping,
    .tDeq, .cbBegin .stopped, .cbEnd .stopped true, .vnew 1, .cbBegin .started, .cbEnd .started true,
    .tDeq, .cbBegin .stopped, .cbEnd .stopped true, .taskDone, .ret 2 (.err .canceled) ]
example : (run Wiring.current (AState.init c04pRstCfg 0 .addr) c04pRestart).isSome = true := by decide
example : monC04p.ok c04pRestart = true := by decide

/-! Why `opIdsFresh` is a hypothesis: the monitor identifies operations by the ids the trace gives them; the
    model lets a trace use an id again once the first operation's future was dropped.  Real traces never
    re-use an id (`monC02wf` checks it on every trace). -/

/-- an operation id re-used after its future was dropped: the payload of the old ping (submitted before the
    stop request) is still queued ahead of the stop; when the loop takes it, it marks the record of the late
    ping, which returns Ok -/
def c04pReuseOp : List Label :=
  [ .cbBegin .started, .cbEnd .started true, .begin 1 0 .ping, .cdrop 1, .stopReq 0 true,
    .begin 1 0 .ping, .tDeq, .ret 1 .ok ]
example : (run Wiring.current (AState.init c04pCfg 0 .addr) c04pReuseOp).isSome = true := by decide
example : (drun Wiring.current (AState.init c04pCfg 0 .addr) c04pReuseOp).isSome = true := by decide
example : monC04p.ok c04pReuseOp = false := by decide
example : opIdsFresh c04pReuseOp = false := by decide

end Hannibal
