import Hannibal.Props.C03Q
import Hannibal.Generated.Wiring
/- C03q for the wiring extracted from today's source (no wiring hypothesis is needed). -/
namespace Hannibal

theorem C03q_current (c : MonCtx) (ls : List Label) (s : AState)
    (hr : run Wiring.current (AState.init c.cfg c.h0 c.k0) ls = some s) : (monC03q c).ok ls = true :=
  C03q_holds _ c ls s hr

example : (run Wiring.current (AState.init c03qCfg 0 .addr) c03qExample).isSome = true := by decide
/-- the model refuses to be quiescent while an accepted stop request waits in the mailbox, and refuses an
    end that skips `stopped` -/
example : (run Wiring.current (AState.init c03qCfg 0 .addr)
    [ .cbBegin .started, .cbEnd .started true, .stopReq 0 true, .quiescent [] ]).isSome = false := by decide
example : (run Wiring.current (AState.init c03qCfg 0 .addr)
    [ .cbBegin .started, .cbEnd .started true, .stopReq 0 true, .tDeq, .taskDone, .quiescent [] ]).isSome = false := by
  decide

end Hannibal
