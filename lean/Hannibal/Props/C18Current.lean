import Hannibal.Props.C18
import Hannibal.Generated.SpawnWiring
/- C18 for the spawn wiring extracted from today's source (re-checked on every run). -/
namespace Hannibal

def wellWired18b (w : SpawnWiring) : Bool :=
  w.handleDropDetaches && SpawnEntry.all.all (fun e => w.disp e == .kept || w.disp e == .detached)

theorem wellWired18_of_b (w : SpawnWiring) (h : wellWired18b w = true) : WellWired18 w := by
  unfold wellWired18b at h
  simp only [Bool.and_eq_true, List.all_eq_true] at h
  refine ⟨h.1, ?_⟩
  intro e
  have := h.2 e (by cases e <;> simp [SpawnEntry.all])
  simpa using this

theorem wellWired18_current : WellWired18 SpawnWiring.current := wellWired18_of_b _ (by decide)

theorem C18_current (r : Runtime) (e : SpawnEntry) (p : List Op18) :
    outcome SpawnWiring.current r e p = outcome SpawnWiring.current .tokio e p ∧
      (afterSpawn SpawnWiring.current r e).task = .running :=
  C18_holds _ wellWired18_current r e p

end Hannibal
