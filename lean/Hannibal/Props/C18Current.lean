import Hannibal.Props.C18
import Hannibal.Generated.SpawnWiring
/- C18 for the spawn wiring extracted from today's source (re-checked on every run). -/
namespace Hannibal

def Runtime.all : List Runtime := [.tokio, .asyncStd, .smol]

def wellWired18b (w : SpawnWiring) : Bool :=
  w.lazySharedSlot && w.joinDetachPlain
    && SpawnEntry.all.all (fun e => w.disp e == .kept || w.disp e == .detached)
    && Runtime.all.all (fun r => !w.detachFn r)
    && Runtime.all.all (fun r => !dropCancels r || w.taskGuarded r)

theorem wellWired18_of_b (w : SpawnWiring) (h : wellWired18b w = true) : WellWired18 w := by
  unfold wellWired18b at h
  simp only [Bool.and_eq_true, List.all_eq_true] at h
  obtain ⟨⟨⟨⟨h1, h2⟩, h3⟩, h4⟩, h5⟩ := h
  refine ⟨h1, h2, ?_, ?_, ?_⟩
  · intro e
    have := h3 e (by cases e <;> simp [SpawnEntry.all])
    simpa using this
  · intro r
    have := h4 r (by cases r <;> simp [Runtime.all])
    simpa using this
  · intro r hc
    have := h5 r (by cases r <;> simp [Runtime.all])
    simpa [hc] using this

theorem wellWired18_current : WellWired18 SpawnWiring.current := wellWired18_of_b _ (by decide)

theorem C18_current (r : Runtime) (e : SpawnEntry) (p : List Op18) :
    outcome SpawnWiring.current r e p = outcome SpawnWiring.current .tokio e p ∧
      (afterSpawn SpawnWiring.current r e).task = .running :=
  C18_holds _ wellWired18_current r e p

end Hannibal
