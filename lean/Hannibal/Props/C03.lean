import Hannibal.Proofs.Latch
import Hannibal.Proofs.Run
import Hannibal.Monitor.C03
/-
  C03 — lifecycle callbacks follow the started / handle* / stopped protocol.

  The monitor state is a function of the model's phase: every run of the actor
  model (plain and stream-attached loops, all three restart strategies, all
  termination causes, messages and ticks still queued at termination) is
  accepted by `monC03`.
-/
namespace Hannibal
open AState

def l3of : Phase → L3
  | .unstarted => .fresh
  | .starting => .inStarted
  | .idle => .running
  | .handling _ _ _ => .inHandler
  | .rstBegin => .running
  | .rstStopping => .inStopped
  | .rstStopped _ => .afterStopped
  | .leaving => .running
  | .finishing => .inFinished
  | .finishedDone => .afterFinished
  | .stopping => .inStopped
  | .exiting true => .afterStopped
  | .exiting false => .failed
  | .done true => .ended
  | .done false => .failed

/-- a refresh is only ever in progress for restartable, plain actors -/
def RstOk (s : AState) : Prop :=
  (s.phase = .rstBegin ∨ s.phase = .rstStopping ∨ ∃ f, s.phase = .rstStopped f) →
    s.cfg.stream = false ∧ s.cfg.strat ≠ .non

/-- the loop only leaves through `finished` when a stream is attached -/
def StreamOk (s : AState) : Prop :=
  (s.phase = .finishing ∨ s.phase = .finishedDone) → s.cfg.stream = true

structure C03Inv (c : MonCtx) (s : AState) (ph : L3) : Prop where
  ph : ph = l3of s.phase
  cfg : s.cfg = c.cfg
  rst : RstOk s
  str : StreamOk s

set_option maxHeartbeats 2000000 in
theorem c03_step (w : Wiring) (c : MonCtx) {s s' : AState} {ph : L3} {l : Label}
    (hi : C03Inv c s ph) (hs : step w s l = some s') :
    ∃ ph', (monC03 c).step ph l = some ph' ∧ C03Inv c s' ph' := by
  obtain ⟨rfl, hcfg, hrst, hstr⟩ := hi
  unfold RstOk at hrst
  unfold StreamOk at hstr
  cases l <;> unfold_steps hs <;>
    ((repeat' (split at hs)) <;>
     (first
       | (simp at hs; done)
       | (simp at hs; subst hs
          refine ⟨_, ?_, ⟨rfl, ?_, ?_, ?_⟩⟩ <;>
            simp_all [monC03, l3of, RstOk, StreamOk, fail, finish, cancelSlots, killTimers, setTimer, addOp,
              removeOp, removeHandle, push, answer]
          done)
       | skip))

theorem c03_init (c : MonCtx) : C03Inv c (AState.init c.cfg c.h0 c.k0) (monC03 c).init := by
  refine ⟨rfl, rfl, ?_, ?_⟩ <;> simp [RstOk, StreamOk, AState.init]

/-- **C03.** Every run of the actor model — any client program and interleaving, every
    termination cause, plain or stream-attached, every restart strategy, with messages and
    ticks still queued at termination — produces a callback sequence accepted by `monC03`:
    `started` exactly once and completed before any handler, handlers never overlapping other
    callbacks, `stopped` (after `finished` for stream-attached actors) exactly once at the end
    or between incarnations, nothing after the end or after a failure, and no handler at all
    after a failed `started`. -/
theorem C03_holds (w : Wiring) (c : MonCtx) (ls : List Label) (s : AState)
    (hr : run w (AState.init c.cfg c.h0 c.k0) ls = some s) : (monC03 c).ok ls = true :=
  ok_of_run_lift (monC03 c) w (C03Inv c) (fun _ _ _ _ hi hs => c03_step w c hi hs) _ (c03_init c) ls s hr

/-- Non-vacuity: a restart in the middle of a run, then a graceful stop. -/
def c03Example : List Label :=
  [ .cbBegin .started, .cbEnd .started true, .begin 0 0 (.send 1), .restartReq 0 true, .stopReq 0 true,
    .cbBegin (.handle 1), .cbEnd (.handle 1) true, .tDeq, .cbBegin .stopped, .cbEnd .stopped true,
    .cbBegin .started, .cbEnd .started true, .tDeq, .cbBegin .stopped, .cbEnd .stopped true, .taskDone ]

def c03Cfg : Cfg := { cap := none, strat := .only, timeout := none, failOnTimeout := false, stream := false }

example : (monC03 { cfg := c03Cfg, h0 := 0, k0 := .addr, prompt := true }).ok c03Example = true := by decide
/-- skipping `stopped` is refused by the model and flagged by the monitor -/
example : (monC03 { cfg := c03Cfg, h0 := 0, k0 := .addr, prompt := true }).ok
    [ .cbBegin .started, .cbEnd .started true, .stopReq 0 true, .tDeq, .taskDone ] = false := by decide

end Hannibal
