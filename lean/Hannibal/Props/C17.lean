import Hannibal.Props.C04
import Hannibal.Monitor.C17
/-
  C17 (the value: once, final state, only after graceful termination): for every wiring whose loop
  notifies after `stopped()`, every run of the actor model is accepted by `monC17`.
-/
namespace Hannibal
open AState

def handedOk (handedOut : Bool) (p : Phase) (r : Option Final) : Bool :=
  match p with
  | .done true => handedOut == r.isNone
  | _ => !handedOut

/-- log / result part of the coupling -/
structure Log17 (s : AState) (hlog : List Nat) (handedOut : Bool) : Prop where
  log : hlog = s.log
  fresh : s.phase = .unstarted → s.log = []
  handed : handedOk handedOut s.phase s.result = true

def hlogNext (hlog : List Nat) : Label → List Nat
  | .cbBegin (.handle m) => hlog ++ [m]
  | .cbBegin (.item k) => hlog ++ [200000 + k]
  | .vnew _ => []
  | _ => hlog

set_option maxHeartbeats 2000000 in
/-- everything except a returning join keeps `handedOut` and moves the log in lock-step -/
theorem log17_step (w : Wiring) {s s' : AState} {hlog : List Nat} {ho : Bool} {l : Label}
    (hi : Log17 s hlog ho) (hs : step w s l = some s') (hl : ∀ o r, l ≠ .ret o r) :
    Log17 s' (hlogNext hlog l) ho := by
  obtain ⟨hlog', hfresh, hh⟩ := hi
  cases l <;> unfold_steps hs
  case ret o r => exact absurd rfl (hl o r)
  all_goals
    ((repeat' (split at hs)) <;>
     (first
       | (simp at hs; done)
       | (simp at hs; subst hs
          cases hp : s.phase <;>
            (refine ⟨?_, ?_, ?_⟩ <;>
              simp_all [hlogNext, handedOk, fail, finish, cancelSlots, killTimers, setTimer, addOp, removeOp,
                removeHandle, push, answer, openCb, curSlot, isDone])
          done)
       | (simp at hs; subst hs
          unfold answer
          split <;> cases hp : s.phase <;> (refine ⟨?_, ?_, ?_⟩ <;> simp_all [hlogNext, handedOk])
          done)))

structure C17Inv (c : MonCtx) (s : AState) (σ : C17St) : Prop where
  base : C04Inv c s σ.base
  l : Log17 s σ.hlog σ.handedOut

theorem c17_step (w : Wiring) (hw : w.notifyAfterStopped = true) (c : MonCtx) {s s' : AState} {σ : C17St}
    {l : Label} (hi : C17Inv c s σ) (hs : step w s l = some s') :
    ∃ σ', (monC17 c).step σ l = some σ' ∧ C17Inv c s' σ' := by
  obtain ⟨σb, hb, hbase'⟩ := c04_step w hw c hi.base hs
  have hσb : σb = next04 c σ.base l := by
    simp only [monC04] at hb; split at hb <;> simp at hb; exact hb.symm
  subst hσb
  by_cases hret : ∃ o r, l = .ret o r
  · obtain ⟨o, r, rfl⟩ := hret
    simp only [step] at hs
    obtain ⟨rec, hfind, hexp, hops, hro⟩ := stepRet_ops hs
    obtain ⟨hrec, _⟩ := findOp_some_mem hfind
    have hl := hi.base.h.ops rec hrec
    rw [hro] at hl
    have hjoin : joinOf σ o = isJoinKind rec.kind := by simp [joinOf, hl]
    have hres := hi.base.t.result
    have hh := hi.l.handed
    have hs' : s' = s.retEffect rec := by
      unfold stepRet at hs; simp only [hfind, hexp, if_true] at hs; simpa using hs.symm
    -- a join that took the slot and returns
    by_cases hj : rec.st = .joining
    · unfold retExpect at hexp
      simp only [hj] at hexp
      split at hexp
      · rename_i hdone
        have hk : isJoinKind rec.kind = true := by
          cases hkk : rec.kind <;> simp_all [isJoinKind]
        cases hrs : s.result with
        | none =>
          -- nothing left to hand out: the result is `none` / an error
          have hr : ∀ f, r ≠ .some f := by
            intro f hf; subst hf
            cases hkk : rec.kind <;> simp_all
          have hbad : bad17 σ (.ret o r) = false := by
            cases r <;> simp [bad17]; exact absurd rfl (hr _)
          refine ⟨next17 c σ (.ret o r), by simp [monC17, hbad], ⟨hbase', ?_⟩⟩
          have hho : (next17 c σ (.ret o r)).handedOut = σ.handedOut := by
            cases r <;> simp [next17]; exact absurd rfl (hr _)
          have hlg : (next17 c σ (.ret o r)).hlog = σ.hlog := by cases r <;> simp [next17]
          rw [hho, hlg]
          refine ⟨by rw [hs']; simpa [retEffect_log] using hi.l.log, ?_, ?_⟩
          · rw [hs']; simpa [retEffect_phase, retEffect_log] using hi.l.fresh
          · rw [hs']
            cases hp : s.phase <;> simp_all [handedOk, retEffect_phase, retEffect_result, isDone]
        | some f0 =>
          rw [hrs] at hres
          simp [resultOk] at hres
          obtain ⟨⟨⟨hp, hb1⟩, hb2⟩, hb3⟩ := hres
          have hr : r = .some f0 := by
            cases hkk : rec.kind <;> simp_all [isJoinKind]
          subst hr
          have hho : σ.handedOut = false := by simpa [handedOk, hp, hrs] using hh
          have hterm : σ.base.terminated = true := by rw [hi.base.term]; simp [isDone, hp]
          have hsd : σ.base.stoppedDone = true := hi.base.f.stopd (by simp [hp, gracefulEnd])
          have hfl : σ.base.failure = false := by rw [hi.base.f.fail]; simp [hp, failing]
          have hbad : bad17 σ (.ret o (.some f0)) = false := by
            simp [bad17, hjoin, hk, hterm, hsd, hfl, hho, hb2, hi.l.log, hb3]
          refine ⟨next17 c σ (.ret o (.some f0)), by simp [monC17, hbad], ⟨hbase', ?_⟩⟩
          refine ⟨by rw [hs']; simpa [next17, retEffect_log] using hi.l.log, ?_, ?_⟩
          · rw [hs']; simp [retEffect_phase, hp]
          · rw [hs']
            simp [next17, hjoin, hk, handedOk, retEffect_phase, hp, retEffect_result, hj]
      · simp at hexp
    · -- any other returning operation: no value is handed out, the result slot is untouched
      have hr : ∀ f, r = .some f → isJoinKind rec.kind = false := by
        intro f hf; subst hf
        unfold retExpect at hexp
        cases hst : rec.st <;> simp only [hst] at hexp <;> simp_all
        all_goals (cases hkk : rec.kind <;> simp_all [isJoinKind])
      have hbad : bad17 σ (.ret o r) = false := by
        cases r <;> simp [bad17]
        rename_i f; simp [hjoin, hr f rfl]
      refine ⟨next17 c σ (.ret o r), by simp [monC17, hbad], ⟨hbase', ?_⟩⟩
      have hho : (next17 c σ (.ret o r)).handedOut = σ.handedOut := by
        cases r <;> simp [next17]
        rename_i f; simp [hjoin, hr f rfl]
      have hlg : (next17 c σ (.ret o r)).hlog = σ.hlog := by cases r <;> simp [next17]
      rw [hho, hlg]
      refine ⟨by rw [hs']; simpa [retEffect_log] using hi.l.log, ?_, ?_⟩
      · rw [hs']; simpa [retEffect_phase, retEffect_log] using hi.l.fresh
      · rw [hs']
        simp only [retEffect_phase, retEffect_result, hj, if_false]
        exact hh
  · have hl : ∀ o r, l ≠ .ret o r := fun o r h => hret ⟨o, r, h⟩
    have hbad : bad17 σ l = false := by cases l <;> simp [bad17]; exact absurd rfl (hl _ _)
    have hL := log17_step w hi.l hs hl
    refine ⟨next17 c σ l, by simp [monC17, hbad], ⟨hbase', ?_⟩⟩
    have h1 : (next17 c σ l).hlog = hlogNext σ.hlog l := by
      cases l <;> simp [next17, hlogNext]
      all_goals (rename_i cb; cases cb <;> simp)
    have h2 : (next17 c σ l).handedOut = σ.handedOut := by
      cases l <;> simp [next17]; exact absurd rfl (hl _ _)
    rw [h1, h2]; exact hL

end Hannibal

namespace Hannibal
open AState

theorem c17_init (c : MonCtx) : C17Inv c (AState.init c.cfg c.h0 c.k0) (monC17 c).init := by
  refine ⟨c04_init c, ⟨?_, ?_, ?_⟩⟩ <;> simp [monC17, AState.init, handedOk]

/-- **C17 (the value).** In every run — submissions through the owning address and derived handles mixed
    with join / consume / detach at any position, repeated and concurrent joins, every termination cause —
    a join or consume yields the actor value only after graceful termination, in its final state (digest =
    fold of everything handled, `stopped` seen), and at most once. -/
theorem C17_holds (w : Wiring) (hw : w.notifyAfterStopped = true) (c : MonCtx) (ls : List Label) (s : AState)
    (hr : run w (AState.init c.cfg c.h0 c.k0) ls = some s) : (monC17 c).ok ls = true :=
  ok_of_run_lift (monC17 c) w (C17Inv c) (fun _ _ _ _ hi hs => c17_step w hw c hi hs) _ (c17_init c) ls s hr

/-- Non-vacuity: two joins, the first gets the value, the second `None`; handing out twice is flagged. -/
def c17Example : List Label :=
  [ .cbBegin .started, .cbEnd .started true, .begin 0 0 (.send 5), .ret 0 .ok, .cbBegin (.handle 5),
    .cbEnd (.handle 5) true, .mk 0 1 .addr, .stopReq 1 true, .tDeq, .cbBegin .stopped, .cbEnd .stopped true,
    .taskDone, .begin 1 0 .join, .ret 1 (.some { birth := 0, stoppedSeen := true, digest := [5] }),
    .begin 2 0 .join, .ret 2 .none ]
def c17Cfg : Cfg := { cap := none, strat := .only, timeout := none, failOnTimeout := false, stream := false }
def c17Ctx : MonCtx := { cfg := c17Cfg, h0 := 0, k0 := .owning, prompt := true }
example : (monC17 c17Ctx).ok c17Example = true := by decide
example : (monC17 c17Ctx).ok (c17Example.take 14 ++
    [ .begin 2 0 .join, .ret 2 (.some { birth := 0, stoppedSeen := true, digest := [5] }) ]) = false := by decide

end Hannibal
