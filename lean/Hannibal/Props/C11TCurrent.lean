import Hannibal.Props.C11T
import Hannibal.Generated.Wiring
/- C11 (timing clauses, prompt schedules) for the wiring extracted from today's source. -/
namespace Hannibal

theorem C11t_current (c : MonCtx) (ls : List Label) (s : AState)
    (hr : prun Wiring.current (AState.init c.cfg c.h0 c.k0) ls = some s) : (monC11t c).ok ls = true :=
  C11t_holds _ c ls s hr

/-- (a) satisfiable: a prompt run with t = 5 in which one invocation (work 3) completes, the next (work 9) is
    abandoned exactly at begin + 5 = 8, and a third message is still handled. -/
example : (prun Wiring.current (AState.init c11tCfg 0 .addr) c11tExample).isSome = true := by decide
example : (monC11t c11tCtx).ok c11tExample = true := by decide

/-- (b) the hypothesis is needed: a run that is *not* prompt (the clock advances from 3 to 5 although the handler,
    whose announced work ended at 3, is runnable) in which an invocation that needs less than t is abandoned.
    The model accepts it, the monitor (with `prompt := true`) rejects it, and it is not a prompt run. -/
def c11tLate : List Label :=
  [ .cbBegin .started, .cbEnd .started true, .begin 0 0 (.send 1),
    .cbBegin (.handle 1), .work 3, .time 3, .time 5, .cbAbandon (.handle 1) ]
example : (run Wiring.current (AState.init c11tCfg 0 .addr) c11tLate).isSome = true := by decide
example : (monC11t c11tCtx).ok c11tLate = false := by decide
example : (prun Wiring.current (AState.init c11tCfg 0 .addr) c11tLate).isSome = false := by decide

/-- (c) bad traces (abandoned too early / completed although it needed more than t) are rejected by the monitor,
    and they are not runs of the model at all. -/
def c11tEarly : List Label :=
  [ .cbBegin .started, .cbEnd .started true, .begin 0 0 (.send 1),
    .cbBegin (.handle 1), .work 9, .time 4, .cbAbandon (.handle 1) ]
def c11tOver : List Label :=
  [ .cbBegin .started, .cbEnd .started true, .begin 0 0 (.send 1),
    .cbBegin (.handle 1), .work 9, .time 9, .cbEnd (.handle 1) true ]
example : (monC11t c11tCtx).ok c11tEarly = false := by decide
example : (monC11t c11tCtx).ok c11tOver = false := by decide
example : (run Wiring.current (AState.init c11tCfg 0 .addr) c11tEarly).isSome = false := by decide
example : (run Wiring.current (AState.init c11tCfg 0 .addr) c11tOver).isSome = false := by decide

end Hannibal
