import Hannibal.Props.C02
import Hannibal.Monitor.C17R
/-
  C17: a join / consume never hangs once the actor has terminated - a special case of C02's "nothing hangs".
-/
namespace Hannibal

theorem bad17r_bad02 (st : C02St) (l : Label) (h : bad17r st l = true) : bad02 st l = true := by
  cases l <;> simp [bad17r] at h
  case quiescent pend =>
    obtain ⟨ht, o, ho, hk⟩ := h
    simp only [bad02, Bool.not_eq_true', List.all_eq_false]
    refine ⟨o, ho, ?_⟩
    cases hl : lookup o st.ops with
    | none => simp [hl] at hk
    | some p =>
      obtain ⟨k, late⟩ := p
      simp [pendOk, ht]

theorem c17r_run (c : MonCtx) : ∀ (ls : List Label) (st : C02St),
    ((monC02 c).run st ls).isSome = true → ((monC17r c).run st ls).isSome = true
  | [], _, _ => rfl
  | l :: ls, st, h => by
    simp only [Mon.run, monC02] at h
    cases hb : bad02 st l
    · simp only [hb] at h
      have h17 : bad17r st l = false := by
        cases h' : bad17r st l
        · rfl
        · rw [bad17r_bad02 st l h'] at hb; simp at hb
      simp only [Mon.run, monC17r, h17]
      exact c17r_run c ls (next02 st l) (by simpa [monC02] using h)
    · simp [hb] at h

/-- **C17, resolves.** At every quiescent point after the actor's termination no join / consume is pending. -/
theorem C17r_holds (w : Wiring) (hw : w.notifyAfterStopped = true) (c : MonCtx) (ls : List Label) (s : AState)
    (hr : run w (AState.init c.cfg c.h0 c.k0) ls = some s) (hfresh : opIdsFresh ls = true) :
    (monC17r c).ok ls = true := by
  have := C02_holds w hw c ls s hr hfresh
  unfold Mon.ok at *
  exact c17r_run c ls _ this

example : (monC17r default).ok [ .begin 0 0 .join, .cbBegin .started, .cbEnd .started true, .taskDone,
    .quiescent [0] ] = false := by decide
example : (monC17r default).ok [ .begin 0 0 .join, .cbBegin .started, .cbEnd .started true, .quiescent [0] ] = true := by
  decide

end Hannibal
