import Hannibal.Props.C01P
import Hannibal.Generated.Wiring
/- C01 (the mailbox is FIFO, said of pings) for the wiring extracted from today's source. -/
namespace Hannibal

theorem C01p_current (c : MonCtx) (ls : List Label) (s : AState)
    (hr : run Wiring.current (AState.init c.cfg c.h0 c.k0) ls = some s) (hwf : wf01 ls = true) :
    monC01p.ok ls = true :=
  C01p_holds _ c ls s hr hwf

theorem C01p_current_fresh (c : MonCtx) (ls : List Label) (s : AState)
    (hr : run Wiring.current (AState.init c.cfg c.h0 c.k0) ls = some s) (hfresh : opIdsFresh ls = true) :
    monC01p.ok ls = true :=
  C01p_holds_fresh _ c ls s hr hfresh

def c01pCfg : Cfg := { cap := none, strat := .only, timeout := none, failOnTimeout := false, stream := false }

/-- the trace of `Props/C01P.lean` is a run of the model -/
example : (run Wiring.current (AState.init c01pCfg 0 .addr) c01pExample).isSome = true := by decide

/-- the actor is busy with message 1 (its handler sleeps until time 5) when the send of message 2 is
    acknowledged; ping 2 begins; the handler finishes, the actor handles message 2, takes the ping; the ping
    returns Ok -/
def c01pBusy : List Label :=
  [ .cbBegin .started, .cbEnd .started true,
    .begin 0 0 (.send 1), .ret 0 .ok, .cbBegin (.handle 1), .work 5,
    .begin 1 0 (.send 2), .ret 1 .ok,
    .begin 2 0 .ping,
    .time 5, .cbEnd (.handle 1) true,
    .cbBegin (.handle 2), .cbEnd (.handle 2) true,
    .tDeq, .ret 2 .ok ]

example : (run Wiring.current (AState.init c01pCfg 0 .addr) c01pBusy).isSome = true := by decide
example : (drun Wiring.current (AState.init c01pCfg 0 .addr) c01pBusy).isSome = true := by decide
example : monC01p.ok c01pBusy = true := by decide
example : wf01 c01pBusy = true := by decide
example : opIdsFresh c01pBusy = true := by decide

/-- the bad continuation - the ping returns Ok before `cbBegin (.handle 2)` - is rejected by the monitor and
    refused by the model at every point after the ping's begin: while the actor is busy, ... -/
example : monC01p.ok (c01pBusy.take 9 ++ [.ret 2 .ok]) = false := by decide
example : run Wiring.current (AState.init c01pCfg 0 .addr) (c01pBusy.take 9 ++ [.ret 2 .ok]) = none := by decide
/-- ... once it is idle again, ... -/
example : monC01p.ok (c01pBusy.take 11 ++ [.ret 2 .ok]) = false := by decide
example : run Wiring.current (AState.init c01pCfg 0 .addr) (c01pBusy.take 11 ++ [.ret 2 .ok]) = none := by decide
/-- ... and the loop cannot take the ping's payload ahead of message 2 -/
example : run Wiring.current (AState.init c01pCfg 0 .addr) (c01pBusy.take 11 ++ [.tDeq]) = none := by decide
/-- once message 2 is being handled the ping still cannot return before the loop takes its payload (the model is
    stricter than the monitor here) -/
example : monC01p.ok (c01pBusy.take 12 ++ [.ret 2 .ok]) = true := by decide
example : run Wiring.current (AState.init c01pCfg 0 .addr) (c01pBusy.take 12 ++ [.ret 2 .ok]) = none := by decide

/-! ### corner cases -/

/-- a ping whose submission fails (the receiver is gone) is never enqueued and returns an error although the
    acknowledged message 1 was dropped with the mailbox, never handled -/
def c01pRefused : List Label :=
  [ .cbBegin .started, .cbEnd .started true,
    .stopReq 0 true, .begin 0 0 (.send 1), .ret 0 .ok,
    .tDeq, .cbBegin .stopped, .cbEnd .stopped true, .taskDone,
    .begin 1 0 .ping ]
example : (run Wiring.current (AState.init c01pCfg 0 .addr) (c01pRefused ++ [.ret 1 (.err .send)])).isSome = true := by
  decide
example : monC01p.ok (c01pRefused ++ [.ret 1 (.err .send)]) = true := by decide
example : monC01p.ok (c01pRefused ++ [.ret 1 .ok]) = false := by decide
example : run Wiring.current (AState.init c01pCfg 0 .addr) (c01pRefused ++ [.ret 1 .ok]) = none := by decide

/-- a stop marker sits ahead of the acknowledged message 1: it is never handled; the ping is behind the stop
    too, its payload is dropped with the mailbox (`dropRx`), it is cancelled and never returns Ok -/
def c01pBehindStop : List Label :=
  [ .cbBegin .started, .cbEnd .started true,
    .stopReq 0 true, .begin 0 0 (.send 1), .ret 0 .ok, .begin 1 0 .ping,
    .tDeq, .cbBegin .stopped, .cbEnd .stopped true, .taskDone ]
example : (run Wiring.current (AState.init c01pCfg 0 .addr) (c01pBehindStop ++ [.ret 1 (.err .canceled)])).isSome = true := by
  decide
example : monC01p.ok (c01pBehindStop ++ [.ret 1 (.err .canceled)]) = true := by decide
example : monC01p.ok (c01pBehindStop ++ [.ret 1 .ok]) = false := by decide
example : run Wiring.current (AState.init c01pCfg 0 .addr) (c01pBehindStop ++ [.ret 1 .ok]) = none := by decide
example : run Wiring.current (AState.init c01pCfg 0 .addr) (c01pBehindStop.take 6 ++ [.ret 1 .ok]) = none := by decide
example : run Wiring.current (AState.init c01pCfg 0 .addr) (c01pBehindStop.take 7 ++ [.ret 1 .ok]) = none := by decide
/-- after the stop the loop takes nothing any more -/
example : run Wiring.current (AState.init c01pCfg 0 .addr) (c01pBehindStop.take 7 ++ [.tDeq]) = none := by decide

/-- the actor fails (its handler panics) with message 2 and the ping queued: both are dropped, the ping is
    cancelled -/
def c01pPanic : List Label :=
  [ .cbBegin .started, .cbEnd .started true,
    .begin 0 0 (.send 1), .ret 0 .ok, .cbBegin (.handle 1),
    .begin 1 0 (.send 2), .ret 1 .ok, .begin 2 0 .ping,
    .cbPanic (.handle 1), .taskDone ]
example : (run Wiring.current (AState.init c01pCfg 0 .addr) (c01pPanic ++ [.ret 2 (.err .canceled)])).isSome = true := by
  decide
example : monC01p.ok (c01pPanic ++ [.ret 2 (.err .canceled)]) = true := by decide
example : run Wiring.current (AState.init c01pCfg 0 .addr) (c01pPanic ++ [.ret 2 .ok]) = none := by decide

/-- a restart keeps the mailbox: message 2 and the ping, queued behind the restart request, are taken in order
    by the restarted actor -/
def c01pRstCfg : Cfg := { c01pCfg with strat := .recreate }
def c01pRestart : List Label :=
  [ .cbBegin .started, .cbEnd .started true,
    .begin 0 0 (.send 1), .ret 0 .ok, .cbBegin (.handle 1),
    .restartReq 0 true, .begin 1 0 (.send 2), .ret 1 .ok, .begin 2 0 .ping,
    .cbEnd (.handle 1) true,
    .tDeq, .cbBegin .stopped, .cbEnd .stopped true, .vnew 1, .cbBegin .started, .cbEnd .started true,
    .cbBegin (.handle 2), .cbEnd (.handle 2) true, .tDeq, .ret 2 .ok ]
example : (run Wiring.current (AState.init c01pRstCfg 0 .addr) c01pRestart).isSome = true := by decide
example : monC01p.ok c01pRestart = true := by decide
example : wf01 c01pRestart = true := by decide
/-- the ping does not return Ok during the restart -/
example : run Wiring.current (AState.init c01pRstCfg 0 .addr) (c01pRestart.take 16 ++ [.ret 2 .ok]) = none := by decide
example : monC01p.ok (c01pRestart.take 16 ++ [.ret 2 .ok]) = false := by decide
example : run Wiring.current (AState.init c01pRstCfg 0 .addr) (c01pRestart.take 16 ++ [.tDeq]) = none := by decide

/-- a stream-attached actor: stream items are handled in between, the mailbox stays FIFO -/
def c01pStreamCfg : Cfg := { c01pCfg with stream := true }
def c01pStream : List Label :=
  [ .cbBegin .started, .cbEnd .started true,
    .streamReady 1, .cbBegin (.item 1),
    .begin 0 0 (.send 1), .ret 0 .ok, .begin 1 0 .ping, .streamReady 2,
    .cbEnd (.item 1) true, .cbBegin (.item 2), .cbEnd (.item 2) true,
    .cbBegin (.handle 1), .cbEnd (.handle 1) true, .tDeq, .ret 1 .ok ]
example : (run Wiring.current (AState.init c01pStreamCfg 0 .addr) c01pStream).isSome = true := by decide
example : monC01p.ok c01pStream = true := by decide
example : run Wiring.current (AState.init c01pStreamCfg 0 .addr) (c01pStream.take 11 ++ [.tDeq]) = none := by decide
example : run Wiring.current (AState.init c01pStreamCfg 0 .addr) (c01pStream.take 11 ++ [.ret 1 .ok]) = none := by
  decide
example : monC01p.ok (c01pStream.take 11 ++ [.ret 1 .ok]) = false := by decide

/-- a broadcast of the parent (`ext`) and a tick of an interval timer wait in the mailbox ahead of message 1:
    they become user messages in place, the order of the rest is untouched -/
def c01pExtTick : List Label :=
  [ .cbBegin .started, .ctxTimer 0 .interval 3, .timerArm 0 3, .cbEnd .started true,
    .begin 0 0 (.send 1), .ret 0 .ok, .cbBegin (.handle 1),
    .extPush 7, .time 3, .timerArm 0 6,
    .begin 1 0 (.send 2), .ret 1 .ok, .begin 2 0 .ping,
    .cbEnd (.handle 1) true,
    .extBegin 7 100, .cbBegin (.handle 100), .cbEnd (.handle 100) true,
    .tickBegin 0 101, .cbBegin (.handle 101), .cbEnd (.handle 101) true,
    .cbBegin (.handle 2), .cbEnd (.handle 2) true, .tDeq, .ret 2 .ok ]
example : (run Wiring.current (AState.init c01pCfg 0 .addr) c01pExtTick).isSome = true := by decide
example : monC01p.ok c01pExtTick = true := by decide
example : wf01 c01pExtTick = true := by decide
example : run Wiring.current (AState.init c01pCfg 0 .addr) (c01pExtTick.take 14 ++ [.tDeq]) = none := by decide
example : run Wiring.current (AState.init c01pCfg 0 .addr) (c01pExtTick.take 20 ++ [.tDeq]) = none := by decide
example : run Wiring.current (AState.init c01pCfg 0 .addr) (c01pExtTick.take 20 ++ [.ret 2 .ok]) = none := by decide
example : monC01p.ok (c01pExtTick.take 20 ++ [.ret 2 .ok]) = false := by decide

/-- bounded mailbox (capacity 0): the send of message 2 is acknowledged only when the loop has taken it; a ping
    begun before that is not constrained by it, a ping begun afterwards finds it begun -/
def c01pBoundedCfg : Cfg := { c01pCfg with cap := some 0 }
def c01pBounded : List Label :=
  [ .cbBegin .started, .cbEnd .started true,
    .begin 0 0 (.send 1), .cbBegin (.handle 1), .ret 0 .ok,
    .begin 1 0 (.send 2), .begin 2 0 .ping,
    .cbEnd (.handle 1) true, .cbBegin (.handle 2), .ret 1 .ok, .begin 3 0 .ping, .cbEnd (.handle 2) true,
    .tDeq, .ret 2 .ok, .tDeq, .ret 3 .ok ]
example : (run Wiring.current (AState.init c01pBoundedCfg 0 .addr) c01pBounded).isSome = true := by decide
example : monC01p.ok c01pBounded = true := by decide
/-- the send of message 2 cannot be acknowledged while it is parked -/
example : run Wiring.current (AState.init c01pBoundedCfg 0 .addr) (c01pBounded.take 7 ++ [.ret 1 .ok]) = none := by
  decide

/-! ### the hypothesis

  `opIdsFresh` (the part of `wf01` that is used) is needed: the monitor identifies operations by the ids the trace
  gives them; the model lets a trace use an id again once the first operation's future was dropped.  Real traces
  never re-use an id (`monC02wf` / `monWf01` check it on every trace). -/

/-- an operation id re-used after its future was dropped: the payload of the old ping 9 is still queued, ahead of
    message 1; when the loop takes it, it marks the record of the new ping 9, which returns Ok although the
    acknowledged message 1 has not been handled.  Accepted by `run`, `grun` and `drun`, rejected by the monitor. -/
def c01pReuseOp : List Label :=
  [ .cbBegin .started, .cbEnd .started true, .begin 9 0 .ping, .cdrop 9,
    .begin 0 0 (.send 1), .ret 0 .ok, .begin 9 0 .ping, .tDeq, .ret 9 .ok ]
example : (run Wiring.current (AState.init c01pCfg 0 .addr) c01pReuseOp).isSome = true := by decide
example : (grun Wiring.current (AState.init c01pCfg 0 .addr) c01pReuseOp).isSome = true := by decide
example : (drun Wiring.current (AState.init c01pCfg 0 .addr) c01pReuseOp).isSome = true := by decide
example : monC01p.ok c01pReuseOp = false := by decide
example : opIdsFresh c01pReuseOp = false := by decide
example : wf01 c01pReuseOp = false := by decide

/-- freshness of message numbers is not needed: a trace that re-uses message number 1 (so `wf01` fails) with
    fresh operation ids is covered by `C01p_holds_fresh` -/
def c01pReuseMsg : List Label :=
  [ .cbBegin .started, .cbEnd .started true,
    .begin 0 0 (.send 1), .ret 0 .ok, .cbBegin (.handle 1), .cbEnd (.handle 1) true,
    .begin 1 0 (.send 1), .ret 1 .ok, .begin 2 0 .ping, .cbBegin (.handle 1), .cbEnd (.handle 1) true,
    .tDeq, .ret 2 .ok ]
example : (run Wiring.current (AState.init c01pCfg 0 .addr) c01pReuseMsg).isSome = true := by decide
example : wf01 c01pReuseMsg = false := by decide
example : opIdsFresh c01pReuseMsg = true := by decide
example : monC01p.ok c01pReuseMsg = true := by decide

end Hannibal
