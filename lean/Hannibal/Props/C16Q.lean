import Hannibal.Proofs.C16QSys
/-
  C16q (`send_to_children` delivers the message exactly once to every child registered under that message
  type - the "at least once" half): in every run of every system, at every quiescent point of an actor that was
  never cut (nobody asked it to stop or restart, it has not failed, no handler of it timed out, its stream - if
  it is stream-attached - has not ended) nothing is owed to it any more: it has taken every broadcast up
  exactly once per registration (`monC16` gives "at most once, only if registered", `monC16q` "no copy
  missing").

  The clause as first written (`monC16qOrig` below: `streamEnd` not among the cuts) is FALSE of the model:
  a stream-attached child leaves its loop when its stream ends, whatever is queued (`c16qStreamWitness`).
  `Monitor/C16.lean` therefore exempts actors whose stream has ended (C13 says such an actor terminates with
  its stream); the repaired monitor accepts every trace the first one accepts (`monC16q_lenient`) and differs
  from it only on actors that had a `streamEnd`.
-/
namespace Hannibal
open AState C16Q

theorem c16q_run {w : Wiring} (hw : WellWired05 w) : ∀ (ls : List SLabel) (S S' : Sys) (σ : C16qSt),
    SInv S → C16Inv S σ.base → QInv S σ → srun w S ls = some S' → ∃ σ', monC16q.run σ ls = some σ'
  | [], _, _, σ, _, _, _, _ => ⟨σ, rfl⟩
  | l :: ls, S, S', σ, hsi, hci, hqi, hr => by
    simp only [srun] at hr
    cases hs : sstep w S l with
    | none => simp [hs] at hr
    | some S1 =>
      simp only [hs] at hr
      obtain ⟨hb, hq1⟩ := qinv_step hw hsi hci.kids hqi hs
      obtain ⟨_, hc1⟩ := c16_step hci hs
      obtain ⟨σ', hm⟩ := c16q_run hw ls S1 S' (next16q σ l) (sinv_step hsi hs) hc1 hq1 hr
      refine ⟨σ', ?_⟩
      have hstep : monC16q.step σ l = some (next16q σ l) := by rw [monC16q_step, hb]; rfl
      simp only [SMon.run, hstep]; exact hm

/-- **C16, every registered child gets every broadcast.**  For every wiring in which the strong handle kinds own
    the channel closures and the weak kinds own nothing and must upgrade, in every run of every system (any
    number of actors, any parent → child graph: several parents, a child registered twice, an actor that is its
    own parent, cycles): whenever an actor is quiescent and was never cut - no stop or restart request was issued
    for it, it has not failed, no handler of it timed out, its stream has not ended - it has taken up every
    broadcast sent so far to it exactly once per registration it had under the broadcast's type with the
    broadcasting parent when the broadcast was sent. -/
theorem C16q_holds (w : Wiring) (hw : WellWired05 w) (ls : List SLabel) (S : Sys)
    (hr : srun w Sys.init ls = some S) : monC16q.ok ls = true := by
  unfold SMon.ok
  obtain ⟨σ', hm⟩ := c16q_run hw ls Sys.init S monC16q.init sinv_init
    ⟨rfl, by intro c sc b hg; simp [Sys.init, Sys.get] at hg⟩
    ⟨fun _ _ _ => rfl, by intro c sc hg; simp [Sys.init, Sys.get] at hg⟩ hr
  simp [hm]

/-! ### the clause as first written, and why it had to be repaired -/

/-- the cuts of the clause as first written: the end of the stream is missing -/
def cutsOrig (l : Label) : Bool :=
  issuesStop l || l.isFailure || (match l with | .cbAbandon _ | .restartReq _ _ | .ctxRestart _ => true | _ => false)

/-- `monC16q` as first written -/
def monC16qOrig : SMon C16qSt where
  init := { base := { kids := [], owed := fun _ _ => 0, issued := [] }, stopped := [] }
  step st l :=
    let st' : C16qSt := { st with base := next16 st.base l }
    match l with
    | .act a (.quiescent _) =>
      if !st.stopped.contains a && st.base.issued.any (fun b => st.base.owed b a > 0) then none else some st'
    | .act a l' => if cutsOrig l' then some { st' with stopped := a :: st'.stopped } else some st'
    | _ => some st'

theorem cuts_of_orig {l : Label} (h : cutsOrig l = true) : cuts l = true := by
  cases l <;> simp_all [cutsOrig, cuts]

/-- the repair only exempts: whatever the clause as first written accepts, `monC16q` accepts -/
theorem monC16q_lenient_run : ∀ (ls : List SLabel) (σo σn : C16qSt), σo.base = σn.base →
    (∀ a, σo.stopped.contains a = true → σn.stopped.contains a = true) →
    (monC16qOrig.run σo ls).isSome = true → (monC16q.run σn ls).isSome = true
  | [], _, _, _, _, _ => rfl
  | l :: ls, σo, σn, hb, hst, hok => by
    simp only [SMon.run] at hok ⊢
    have key : ∀ σo', monC16qOrig.step σo l = some σo' → ∃ σn', monC16q.step σn l = some σn' ∧ σo'.base = σn'.base ∧
        (∀ a, σo'.stopped.contains a = true → σn'.stopped.contains a = true) := by
      intro σo' ho
      cases l with
      | spawn a cfg h0 k0 => simp only [monC16qOrig, Option.some.injEq] at ho; subst ho; exact ⟨_, rfl, by simp [hb], hst⟩
      | addChild p ty c h => simp only [monC16qOrig, Option.some.injEq] at ho; subst ho; exact ⟨_, rfl, by simp [hb], hst⟩
      | bcast p ty b => simp only [monC16qOrig, Option.some.injEq] at ho; subst ho; exact ⟨_, rfl, by simp [hb], hst⟩
      | act a l =>
        by_cases hq : ∃ pend, l = .quiescent pend
        · obtain ⟨pend, rfl⟩ := hq
          simp only [monC16qOrig] at ho
          split at ho
          · simp at ho
          · rename_i hno
            simp only [Option.some.injEq] at ho; subst ho
            refine ⟨{ σn with base := next16 σn.base (.act a (.quiescent pend)) }, ?_, by simp [hb], hst⟩
            simp only [monC16q]
            have : ¬ ((!σn.stopped.contains a && σn.base.issued.any (fun b => σn.base.owed b a > 0)) = true) := by
              intro hc
              apply hno
              rw [hb]
              simp only [Bool.and_eq_true, Bool.not_eq_true'] at hc ⊢
              refine ⟨?_, hc.2⟩
              cases h : σo.stopped.contains a
              · rfl
              · rw [hst a h] at hc; simp at hc
            rw [if_neg this]
        · have hne : ∀ pend, l ≠ .quiescent pend := fun pend e => hq ⟨pend, e⟩
          have ho' : σo' = (if cutsOrig l then { base := next16 σo.base (.act a l), stopped := a :: σo.stopped }
              else { base := next16 σo.base (.act a l), stopped := σo.stopped }) := by
            cases l <;> simp only [monC16qOrig] at ho <;>
              first
                | exact absurd rfl (hne _)
                | (split at ho <;> simp only [Option.some.injEq] at ho <;> subst ho <;> simp_all)
          have hn' : monC16q.step σn (.act a l) =
              some (if cuts l then { base := next16 σn.base (.act a l), stopped := a :: σn.stopped }
                else { base := next16 σn.base (.act a l), stopped := σn.stopped }) := by
            cases l <;> simp only [monC16q] <;>
              first
                | exact absurd rfl (hne _)
                | (split <;> rfl)
          refine ⟨_, hn', ?_, ?_⟩
          · rw [ho']; split <;> split <;> simp [hb]
          · intro c hc
            rw [ho'] at hc
            by_cases hco : cutsOrig l = true
            · simp only [hco, if_true, cuts_of_orig hco] at hc ⊢
              simp only [List.contains_cons, Bool.or_eq_true] at hc ⊢
              rcases hc with h | h
              · exact .inl h
              · exact .inr (hst c h)
            · simp only [hco] at hc
              have := hst c hc
              split
              · simp only [List.contains_cons, Bool.or_eq_true]; exact .inr this
              · exact this
    cases ho : monC16qOrig.step σo l with
    | none => simp [ho] at hok
    | some σo' =>
      simp only [ho] at hok
      obtain ⟨σn', hn, hb', hst'⟩ := key σo' ho
      simp only [hn]
      exact monC16q_lenient_run ls σo' σn' hb' hst' hok

theorem monC16q_lenient (ls : List SLabel) (h : monC16qOrig.ok ls = true) : monC16q.ok ls = true :=
  monC16q_lenient_run ls _ _ rfl (fun _ h => h) h

/-! ### non-vacuity -/

def c16qStreamCfg : Cfg := { cap := none, strat := .only, timeout := none, failOnTimeout := false, stream := true }

/-- the witness against the clause as first written: child 1 is stream-attached and registered with parent 0;
    its stream ends and its loop leaves; the parent broadcasts 7 (the child's mailbox is still open); the child
    runs `finished` and `stopped` and terminates, the queued broadcast is dropped with the mailbox.  Nobody
    stopped the child, it has not failed.  (`Props/C16QCurrent.lean`: a run of the model under today's wiring) -/
def c16qStreamWitness : List SLabel :=
  [ .spawn 0 c16Cfg 0 .addr, .spawn 1 c16qStreamCfg 1 .addr, .act 1 (.mk 1 11 .sender),
    .act 0 (.cbBegin .started), .addChild 0 1 1 11,
    .act 1 (.cbBegin .started), .act 1 (.cbEnd .started true),
    .act 1 .streamEnd, .act 1 .tStreamEnd, .bcast 0 1 7,
    .act 1 (.cbBegin .finished), .act 1 (.cbEnd .finished true),
    .act 1 (.cbBegin .stopped), .act 1 (.cbEnd .stopped true), .act 1 .taskDone,
    .act 1 (.quiescent []) ]
example : monC16qOrig.ok c16qStreamWitness = false := by decide
example : monC16q.ok c16qStreamWitness = true := by decide

/-- parent 0 registers child 1 twice under type 1 (handles 11 and 12) and itself once (handle 10); it broadcasts
    7; the child takes it up twice, the parent once; then both are quiescent -/
def c16qExample : List SLabel :=
  [ .spawn 0 c16Cfg 0 .addr, .spawn 1 c16Cfg 1 .addr, .act 1 (.mk 1 11 .sender), .act 1 (.mk 1 12 .sender),
    .act 0 (.mk 0 10 .sender),
    .act 0 (.cbBegin .started), .addChild 0 1 1 11, .addChild 0 1 1 12, .addChild 0 1 0 10, .bcast 0 1 7,
    .act 0 (.cbEnd .started true),
    .act 1 (.cbBegin .started), .act 1 (.cbEnd .started true),
    .act 1 (.extBegin 7 100), .act 1 (.cbBegin (.handle 100)), .act 1 (.cbEnd (.handle 100) true),
    .act 1 (.extBegin 7 101), .act 1 (.cbBegin (.handle 101)), .act 1 (.cbEnd (.handle 101) true),
    .act 1 (.quiescent []),
    .act 0 (.extBegin 7 102), .act 0 (.cbBegin (.handle 102)), .act 0 (.cbEnd (.handle 102) true),
    .act 0 (.quiescent []) ]
example : monC16q.ok c16qExample = true := by decide
example : monC16.ok c16qExample = true := by decide

-- a registered child is quiescent without having taken the broadcast up
example : monC16q.ok [ .spawn 0 c16Cfg 0 .addr, .spawn 1 c16Cfg 1 .addr, .act 1 (.mk 1 11 .sender),
    .act 0 (.cbBegin .started), .addChild 0 1 1 11, .bcast 0 1 7, .act 1 (.quiescent []) ] = false := by decide
-- a child registered twice took it up only once
example : monC16q.ok [ .spawn 0 c16Cfg 0 .addr, .spawn 1 c16Cfg 1 .addr, .act 1 (.mk 1 11 .sender),
    .act 1 (.mk 1 12 .sender), .act 0 (.cbBegin .started), .addChild 0 1 1 11, .addChild 0 1 1 12, .bcast 0 1 7,
    .act 1 (.extBegin 7 100), .act 1 (.quiescent []) ] = false := by decide
-- a child that was asked to stop is exempt
example : monC16q.ok [ .spawn 0 c16Cfg 0 .addr, .spawn 1 c16Cfg 1 .addr, .act 1 (.mk 1 11 .sender),
    .act 0 (.cbBegin .started), .addChild 0 1 1 11, .act 1 (.stopReq 1 true), .bcast 0 1 7,
    .act 1 (.quiescent []) ] = true := by decide

end Hannibal
