import Hannibal.Proofs.C04PQueue
import Hannibal.Monitor.C02
/-
  C02 / C04 (drain barrier, said of pings): for every wiring, every run of the actor model whose `begin`
  labels carry pairwise distinct operation ids (`opIdsFresh`) is accepted by `monC04p`:

    a `ping` begun after some stop request was accepted and had returned (`stopReq _ true`, `ctxStop true`, or
    a `halt` / `try_halt` that returned Ok) never returns Ok.

  The invariant is the one of `C04q_holds` (`Proofs/C04QInv.lean`), said of ping payloads instead of user
  messages: an accepted stop request waits in the mailbox as long as the loop takes entries (`b`), no late
  ping waits ahead of the first stop request (`a`), and a recorded late ping is never `pinged` (`p`) - the
  loop marks a ping only when it takes its payload from the head of the mailbox.  Neither the wiring
  hypothesis of `C04q_holds` nor freshness of message numbers is needed; freshness of operation ids is
  (`Props/C04PCurrent.lean`, `c04pReuseOp`).
-/
namespace Hannibal
open AState

/-! ### the monitor's update -/

theorem monC04p_step (σ : C04pSt) (l : Label) :
    monC04p.step σ l = if bad04p σ l then none else some (next04p σ l) := rfl

theorem next04p_ops (σ : C04pSt) (l : Label) : (next04p σ l).ops = opsNext4 σ.ops l := by
  cases l <;> simp only [next04p, opsNext4]
  case ret o r => (repeat' split) <;> rfl

theorem next04p_acc_cases {σ : C04pSt} {l : Label} (h : (next04p σ l).stopAccepted = true) :
    σ.stopAccepted = true ∨ (∃ h, l = .stopReq h true) ∨ l = .ctxStop true ∨
      (∃ o k, l = .ret o .ok ∧ lookup o σ.ops = some k ∧ haltKind k = true) := by
  cases l <;> simp only [next04p] at h <;> try exact .inl h
  case stopReq h' ok =>
    simp only [Bool.or_eq_true] at h
    rcases h with h | rfl
    · exact .inl h
    · exact .inr (.inl ⟨h', rfl⟩)
  case ctxStop ok =>
    simp only [Bool.or_eq_true] at h
    rcases h with h | rfl
    · exact .inl h
    · exact .inr (.inr (.inl rfl))
  case ret o r =>
    cases hl : lookup o σ.ops with
    | none => simp only [hl] at h; exact .inl h
    | some k =>
      by_cases hr : r = .ok
      · subst hr
        cases k <;> simp only [hl] at h <;>
          first
            | exact .inl h
            | exact .inr (.inr (.inr ⟨o, _, rfl, hl, rfl⟩))
      · have hr' : (r == Res.ok) = false := by simpa using hr
        cases k <;> simp only [hl, hr', Bool.false_eq_true, if_false] at h <;> exact .inl h

theorem next04p_late_cases {σ : C04pSt} {l : Label} {o : Nat} (h : o ∈ (next04p σ l).late) :
    o ∈ σ.late ∨ (∃ h, l = .begin o h .ping ∧ σ.stopAccepted = true) := by
  cases l <;> simp only [next04p] at h <;> try exact .inl h
  case begin o' h' k =>
    cases k <;> simp only at h <;> try exact .inl h
    by_cases hsa : σ.stopAccepted = true
    · rw [if_pos hsa] at h
      rcases List.mem_cons.mp h with rfl | h
      · exact .inr ⟨h', rfl, hsa⟩
      · exact .inl h
    · rw [if_neg hsa] at h; exact .inl h
  case ret o' r =>
    revert h
    (repeat' split) <;> exact fun h => .inl h

/-! ### fresh operation ids (the ghost state of `monC02wf`) -/

def seenNext04p (seen : List Nat) : Label → List Nat
  | .begin o _ _ => o :: seen
  | _ => seen

/-- the label does not re-use an operation id -/
def Fresh04p (seen : List Nat) (l : Label) : Prop := ∀ o h k, l = .begin o h k → o ∉ seen

theorem wf_step04p {c : MonCtx} {seen seen1 : List Nat} {l : Label} (h : (monC02wf c).step seen l = some seen1) :
    Fresh04p seen l ∧ seen1 = seenNext04p seen l := by
  cases l
  case begin o h' k =>
    simp only [monC02wf] at h
    split at h
    · simp at h
    · rename_i hc
      simp at h; subst h
      refine ⟨fun o' _ _ he => ?_, rfl⟩
      cases he
      simpa using hc
  all_goals
    simp only [monC02wf, Option.some.injEq] at h
    subst h
    refine ⟨?_, rfl⟩
    intro o h k he
    cases he

theorem seenNext04p_mono (seen : List Nat) (l : Label) {o : Nat} (h : o ∈ seen) : o ∈ seenNext04p seen l := by
  cases l <;> simp only [seenNext04p] <;> first | exact h | exact List.mem_cons_of_mem _ h

/-! ### the invariant -/

structure C04pInv (s : AState) (σ : C04pSt) (seen : List Nat) : Prop where
  ops : OpsT s σ.ops
  lp : LatchPast s
  /-- an accepted stop request waits in the mailbox as long as the loop takes entries -/
  b : σ.stopAccepted = true → loopAlive s.phase = true → hasStop s.chan.queue = true
  lateSeen : ∀ o ∈ σ.late, o ∈ seen
  qSeen : ∀ o ∈ qpings04p s.chan.queue, o ∈ seen
  /-- no late ping waits ahead of the first stop request -/
  a : loopAlive s.phase = true → ∀ o ∈ σ.late, o ∉ aheadP04p s.chan.queue
  /-- a recorded late operation is a ping the loop has not taken -/
  p : ∀ rec ∈ s.ops, rec.o ∈ σ.late → rec.kind = .ping ∧ rec.st ≠ .pinged

theorem inv04p_b_step {w s s' σ seen l} (hi : C04pInv s σ seen) (hs : step w s l = some s')
    (hacc : (next04p σ l).stopAccepted = true) (hal' : loopAlive s'.phase = true) :
    hasStop s'.chan.queue = true := by
  have hal := alive_mono hs hal'
  have ht := step_trel hs
  rw [hal'] at ht
  rcases next04p_acc_cases hacc with h | ⟨h0, rfl⟩ | rfl | ⟨o, k, rfl, hlk, hk⟩
  · exact trel_stop_mono ht (hi.b h hal)
  · simp only [TRel] at ht; rw [ht.2]; simp
  · simp only [TRel] at ht; rw [ht.2]; simp
  · exfalso
    simp only [step] at hs
    obtain ⟨rec, hfind, hexp, -, hro⟩ := stepRet_ops hs
    obtain ⟨hrec, _⟩ := findOp_mem hfind
    have hkind := hi.ops rec hrec
    rw [hro, hlk] at hkind
    simp at hkind; subst hkind
    have hl := retExpect_halt_ok hk hexp
    rw [hi.lp hl] at hal; simp at hal

theorem inv04p_a_step {w s s' σ seen l} (hi : C04pInv s σ seen) (hs : step w s l = some s')
    (hf : Fresh04p seen l) (hal' : loopAlive s'.phase = true) :
    ∀ o ∈ (next04p σ l).late, o ∉ aheadP04p s'.chan.queue := by
  intro o ho hoa
  have hal := alive_mono hs hal'
  have hp := (step_prel04p hs).2 hal' o hoa
  rcases next04p_late_cases ho with hl | ⟨h, rfl, hsa⟩
  · rcases hp with hold | ⟨⟨h, rfl⟩, _⟩
    · exact hi.a hal o hl hold
    · exact hf o h _ rfl (hi.lateSeen o hl)
  · rcases hp with hold | ⟨_, hst⟩
    · exact hf o h _ rfl (hi.qSeen o (aheadP04p_sub _ o hold))
    · rw [hi.b hsa hal] at hst; simp at hst

theorem inv04p_p_step {w s s' σ seen l} (hi : C04pInv s σ seen) (hs : step w s l = some s')
    (hf : Fresh04p seen l) :
    ∀ rec ∈ s'.ops, rec.o ∈ (next04p σ l).late → rec.kind = .ping ∧ rec.st ≠ .pinged := by
  intro rec hrec hlate
  by_cases hedge : l.isOpEdge = true
  · cases l <;> simp [Label.isOpEdge] at hedge
    case begin o h k =>
      simp only [step] at hs
      obtain ⟨hfresh, st, hops, hst⟩ := stepBegin_fresh hs
      have hne := findOp_none hfresh
      rw [hops] at hrec
      rcases List.mem_append.mp hrec with hrec | hrec
      · rcases next04p_late_cases hlate with hl | ⟨h1, he, _⟩
        · exact hi.p rec hrec hl
        · simp only [Label.begin.injEq] at he
          exact absurd he.1.symm (hne rec hrec)
      · simp at hrec; subst hrec
        rcases next04p_late_cases hlate with hl | ⟨h1, he, _⟩
        · exact absurd (hi.lateSeen o hl) (hf o h k rfl)
        · cases he
          refine ⟨rfl, ?_⟩
          intro h2
          simp only at h2
          rw [h2] at hst; simp [OpSt.fresh] at hst
    case ret o r =>
      simp only [step] at hs
      obtain ⟨_, _, _, hops, _⟩ := stepRet_ops hs
      rw [hops] at hrec
      rcases next04p_late_cases hlate with hl | ⟨h1, he, _⟩
      · exact hi.p rec (List.mem_filter.mp hrec).1 hl
      · cases he
    case cdrop o =>
      simp only [step] at hs
      have hops := stepCdrop_ops hs
      rw [hops] at hrec
      rcases next04p_late_cases hlate with hl | ⟨h1, he, _⟩
      · exact hi.p rec (List.mem_filter.mp hrec).1 hl
      · cases he
  · have hedge' : l.isOpEdge = false := by simpa using hedge
    have hl : rec.o ∈ σ.late := by
      rcases next04p_late_cases hlate with hl | ⟨h1, he, _⟩
      · exact hl
      · subst he; simp [Label.isOpEdge] at hedge'
    by_cases hdeq : l = .tDeq
    · subst hdeq
      simp only [step] at hs
      obtain ⟨hph, hops | ⟨o, tok, rest, hq, hops⟩⟩ := stepDeq_ops04p hs
      · rw [hops] at hrec; exact hi.p rec hrec hl
      · rw [hops] at hrec
        obtain ⟨r, hr, rfl⟩ := List.mem_map.mp hrec
        have hal : loopAlive s.phase = true := by rw [hph]; rfl
        unfold pingMap at hl ⊢
        split
        · rename_i hc
          rw [if_pos hc] at hl
          simp at hc hl
          exfalso
          refine hi.a hal r.o hl ?_
          rw [hq, aheadP04p_cons]
          simp [isStopP, pingL04p, pingNo04p, hc.1]
        · rename_i hc
          rw [if_neg hc] at hl
          exact hi.p r hr hl
    · obtain ⟨f, hops, hfine⟩ := step_ops_fine hs hedge'
      rw [hops] at hrec
      obtain ⟨r, hr, rfl⟩ := List.mem_map.mp hrec
      obtain ⟨ho, hk, -, hst⟩ := hfine r
      rw [ho] at hl
      obtain ⟨hk0, hst0⟩ := hi.p r hr hl
      refine ⟨by rw [hk]; exact hk0, ?_⟩
      rcases hst with hst | ⟨_, hst | ⟨he, _⟩ | ⟨m, b, d, _, hst⟩⟩
      · rw [hst]; exact hst0
      · rw [hst]; simp
      · exact absurd he hdeq
      · rw [hst]; simp

theorem inv04p_bad {w s s' σ seen l} (hi : C04pInv s σ seen) (hs : step w s l = some s') :
    bad04p σ l = false := by
  cases l <;> try rfl
  case ret o r =>
    simp only [bad04p]
    cases hlate : σ.late.contains o
    · rfl
    · by_cases hr : r = .ok
      · exfalso
        subst hr
        simp only [step] at hs
        obtain ⟨rec, hfind, hexp, -, hro⟩ := stepRet_ops hs
        obtain ⟨hrec, _⟩ := findOp_mem hfind
        obtain ⟨hk, hst⟩ := hi.p rec hrec (by rw [hro]; simpa using hlate)
        exact hst (retExpect_ping_ok04p hk hexp)
      · simpa using hr

theorem c04p_step (w : Wiring) {s s' : AState} {σ : C04pSt} {seen : List Nat} {l : Label}
    (hi : C04pInv s σ seen) (hs : step w s l = some s') (hf : Fresh04p seen l) :
    bad04p σ l = false ∧ C04pInv s' (next04p σ l) (seenNext04p seen l) := by
  refine ⟨inv04p_bad hi hs, ?_⟩
  refine
    { ops := by rw [next04p_ops]; exact opsT_step hi.ops hs
      lp := latchPast_step hs hi.lp
      b := fun hacc hal' => inv04p_b_step hi hs hacc hal'
      lateSeen := ?_
      qSeen := ?_
      a := fun hal' => inv04p_a_step hi hs hf hal'
      p := inv04p_p_step hi hs hf }
  · intro o ho
    rcases next04p_late_cases ho with hl | ⟨h, rfl, _⟩
    · exact seenNext04p_mono _ _ (hi.lateSeen o hl)
    · simp [seenNext04p]
  · intro o ho
    rcases (step_prel04p hs).1 o ho with hq | ⟨h, rfl⟩
    · exact seenNext04p_mono _ _ (hi.qSeen o hq)
    · simp [seenNext04p]

theorem c04p_init (cfg : Cfg) (h0 : Nat) (k0 : HKind) : C04pInv (AState.init cfg h0 k0) monC04p.init [] := by
  refine
    { ops := by intro r hr; simp [AState.init] at hr
      lp := latchPast_init _ _ _
      b := by simp [monC04p]
      lateSeen := by simp [monC04p]
      qSeen := by simp [AState.init, Chan.init]
      a := by simp [monC04p]
      p := by intro r hr; simp [AState.init] at hr }

/-- one-step simulation lifted to runs, with the freshness automaton `monC02wf` running alongside -/
theorem c04p_run (w : Wiring) (c : MonCtx) :
    ∀ (ls : List Label) (s s' : AState) (σ : C04pSt) (seen : List Nat), C04pInv s σ seen →
      run w s ls = some s' → ((monC02wf c).run seen ls).isSome = true → (monC04p.run σ ls).isSome = true
  | [], _, _, _, _, _, _, _ => by simp [Mon.run]
  | l :: ls, s, s', σ, seen, hi, hr, hwf => by
    simp only [run] at hr
    cases hs : step w s l with
    | none => simp [hs] at hr
    | some s1 =>
      simp only [hs] at hr
      simp only [Mon.run] at hwf ⊢
      cases hws : (monC02wf c).step seen l with
      | none => simp [hws] at hwf
      | some seen1 =>
        simp only [hws] at hwf
        obtain ⟨hf, rfl⟩ := wf_step04p hws
        obtain ⟨hbad, hi1⟩ := c04p_step w hi hs hf
        rw [monC04p_step, hbad]
        exact c04p_run w c ls s1 s' _ _ hi1 hr hwf

/-- **C02 / C04 (stop is a drain barrier, pings).**  In every run of the actor model — every wiring, both
    mailbox kinds, every handle kind, waiting and forcing path, timers, restarts queued before the stop, every
    termination cause — whose trace never re-uses an operation id: a `ping` begun after an accepted stop
    request had returned (`stopReq _ true`, `ctxStop true`, a `halt` / `try_halt` that returned Ok) never
    returns Ok. -/
theorem C04p_holds (w : Wiring) (c : MonCtx) (ls : List Label) (s : AState)
    (hr : run w (AState.init c.cfg c.h0 c.k0) ls = some s) (hfresh : opIdsFresh ls = true) :
    monC04p.ok ls = true := by
  unfold Mon.ok
  exact c04p_run w default ls _ s _ [] (c04p_init _ _ _) hr
    (by simpa [opIdsFresh, Mon.ok, monC02wf] using hfresh)

/-- the same under the hypotheses of `C04q_holds` (`wf01` implies `opIdsFresh`; the wiring hypothesis is
    not used) -/
theorem wf01_opIdsFresh04p (ls : List Label) (h : wf01 ls = true) : opIdsFresh ls = true := by
  have key : ∀ (ls : List Label) (g : Wf01St), (monWf01.run g ls).isSome = true →
      ((monC02wf default).run g.seenO ls).isSome = true := by
    intro ls
    induction ls with
    | nil => intro g _; simp [Mon.run]
    | cons l ls ih =>
      intro g hg
      simp only [Mon.run] at hg ⊢
      have hb : wfBad g l = false := by
        cases hb : wfBad g l
        · rfl
        · simp [monWf01, hb] at hg
      simp only [monWf01, hb] at hg
      have hstep : (monC02wf default).step g.seenO l = some (wfNext g l).seenO := by
        cases l <;> simp only [monC02wf, wfNext] <;> try rfl
        case begin o h k =>
          simp only [wfBad, Bool.or_eq_false_iff] at hb
          have hb1 : o ∉ g.seenO := by simpa using hb.1
          simp [hb1]
        case fire t mo => cases mo <;> rfl
      rw [hstep]
      exact ih _ hg
  exact key ls monWf01.init h

theorem C04p_holds' (w : Wiring) (_hw : WellWired05 w) (c : MonCtx) (ls : List Label) (s : AState)
    (hr : run w (AState.init c.cfg c.h0 c.k0) ls = some s) (hwf : wf01 ls = true) : monC04p.ok ls = true :=
  C04p_holds w c ls s hr (wf01_opIdsFresh04p ls hwf)

/-! ### non-vacuity -/

def c04pCfg : Cfg := { cap := none, strat := .only, timeout := none, failOnTimeout := false, stream := false }

/-- the actor is busy with message 1 when the stop request is accepted; ping 2 is begun afterwards; the actor
    finishes its handler, takes the stop, stops gracefully; the ping returns an error.  Ping 1, begun before
    the stop request, returns Ok. -/
def c04pExample : List Label :=
  [ .cbBegin .started, .cbEnd .started true,
    .begin 0 0 (.send 1), .ret 0 .ok, .cbBegin (.handle 1),
    .begin 1 0 .ping,
    .stopReq 0 true,
    .begin 2 0 .ping,
    .cbEnd (.handle 1) true,
    .tDeq, .ret 1 .ok,
    .tDeq, .cbBegin .stopped, .cbEnd .stopped true, .taskDone,
    .ret 2 (.err .canceled) ]

example : monC04p.ok c04pExample = true := by decide
/-- the freshness hypothesis is satisfiable (by the same trace) -/
example : opIdsFresh c04pExample = true := by decide
example : wf01 c04pExample = true := by decide

/-- a ping begun after an accepted `stopReq` had returned gets Ok -/
example : monC04p.ok [ .cbBegin .started, .cbEnd .started true, .stopReq 0 true, .begin 2 0 .ping,
    .ret 2 .ok ] = false := by decide
/-- a ping begun after an accepted `ctx.stop()` had returned gets Ok -/
example : monC04p.ok [ .cbBegin .started, .ctxStop true, .cbEnd .started true, .begin 2 0 .ping,
    .ret 2 .ok ] = false := by decide
/-- a ping begun after a `halt` returned Ok gets Ok -/
example : monC04p.ok [ .cbBegin .started, .cbEnd .started true, .mk 0 1 .addr, .begin 0 0 .halt, .tDeq,
    .cbBegin .stopped, .cbEnd .stopped true, .taskDone, .ret 0 .ok, .begin 2 1 .ping, .ret 2 .ok ] = false := by
  decide
/-- a refused stop request does not count: the ping may return Ok as far as this monitor is concerned -/
example : monC04p.ok [ .cbBegin .started, .cbEnd .started true, .stopReq 0 false, .begin 2 0 .ping,
    .ret 2 .ok ] = true := by decide

end Hannibal
