import Hannibal.Props.C04Q
import Hannibal.Generated.Wiring
/- C04 (drain barrier) for the wiring extracted from today's source. -/
namespace Hannibal

theorem wellWired04q_current : WellWired04q Wiring.current := by decide

theorem C04q_current (c : MonCtx) (ls : List Label) (s : AState)
    (hr : run Wiring.current (AState.init c.cfg c.h0 c.k0) ls = some s) (hwf : wf01 ls = true) :
    (monC04q c).ok ls = true :=
  C04q_holds _ wellWired04q_current c ls s hr hwf

example : (run Wiring.current (AState.init c04qCfg 0 .addr) c04qExample).isSome = true := by decide

/-- a restart queued before the stop request does not let anything through: the loop restarts (a new value),
    handles what was acknowledged before the stop, and leaves at the stop; the late message is never handled -/
def c04qRstCfg : Cfg := { c04qCfg with strat := .recreate }
def c04qRestart : List Label :=
  [ .cbBegin .started, .cbEnd .started true,
    .restartReq 0 true, .begin 0 0 (.send 1), .ret 0 .ok, .stopReq 0 true, .begin 1 0 (.send 2), .ret 1 .ok,
    .tDeq, .cbBegin .stopped, .cbEnd .stopped true, .vnew 1, .cbBegin .started, .cbEnd .started true,
    .cbBegin (.handle 1), .cbEnd (.handle 1) true,
    .tDeq, .cbBegin .stopped, .cbEnd .stopped true, .taskDone, .quiescent [] ]
example : (run Wiring.current (AState.init c04qRstCfg 0 .addr) c04qRestart).isSome = true := by decide
example : (monC04q { c04qCtx with cfg := c04qRstCfg }).ok c04qRestart = true := by decide
example : wf01 c04qRestart = true := by decide

/-! Why `wf01` is a hypothesis: the monitor identifies messages and operations by the names the trace
    gives them; the model lets a trace use a name twice.  Real traces never re-use a name. -/

/-- a message number used before and after the stop request: the first submission is handled, the monitor
    takes it for the late one -/
def c04qReuseMsg : List Label :=
  [ .cbBegin .started, .cbEnd .started true, .begin 0 0 (.send 1), .stopReq 0 true, .begin 1 0 (.send 1),
    .cbBegin (.handle 1) ]
example : (run Wiring.current (AState.init c04qCfg 0 .addr) c04qReuseMsg).isSome = true := by decide
example : (monC04q c04qCtx).ok c04qReuseMsg = false := by decide
example : wf01 c04qReuseMsg = false := by decide

/-- an operation id re-used after its future was dropped: the reply of the old call (submitted before the
    stop request) is filled into the record of the late call -/
def c04qReuseOp : List Label :=
  [ .cbBegin .started, .cbEnd .started true, .begin 1 0 (.call 1), .cdrop 1, .stopReq 0 true,
    .begin 1 0 (.call 2), .cbBegin (.handle 1), .cbEnd (.handle 1) true,
    .ret 1 (.okReply { m := 1, birth := 0, digest := [1] }) ]
example : (run Wiring.current (AState.init c04qCfg 0 .addr) c04qReuseOp).isSome = true := by decide
example : (monC04q c04qCtx).ok c04qReuseOp = false := by decide
example : wf01 c04qReuseOp = false := by decide

/-! Why the wiring hypothesis: if a `Sender` owned no closure (it would not keep the channel open) and a weak
    address needed nothing to upgrade, the loop could leave because "all senders are gone", a send through
    the surviving `Sender` would still be acknowledged, a stop request through the weak address accepted —
    and the acknowledged message dropped with the mailbox. -/
def Wiring.hollowSender : Wiring :=
  { Wiring.current with
    holds := fun k => match k with
      | .sender => []
      | k => Wiring.current.holds k
    upgradeReq := fun k => match k with
      | .weakAddr => []
      | k => Wiring.current.upgradeReq k }
def c04qHollow : List Label :=
  [ .cbBegin .started, .cbEnd .started true, .mk 0 1 .sender, .mk 0 2 .weakAddr, .drop 0, .tChanEnd,
    .begin 0 1 (.send 1), .ret 0 .ok, .stopReq 2 true, .cbBegin .stopped, .cbEnd .stopped true, .taskDone,
    .quiescent [] ]
example : ¬ WellWired04q Wiring.hollowSender := by decide
example : (run Wiring.hollowSender (AState.init c04qCfg 0 .addr) c04qHollow).isSome = true := by decide
example : wf01 c04qHollow = true := by decide
example : (monC04q c04qCtx).ok c04qHollow = false := by decide

end Hannibal
