import Hannibal.Props.C01Current
import Hannibal.Props.C12
import Hannibal.Props.C04Q
import Hannibal.Props.C05Q
import Hannibal.Props.C06Send
/-
  `WeakSender::try_force_send` (`OpKind.tryForce`): upgrade the weak sender, then force-send.
  Non-vacuity examples for the wiring extracted from today's source: the operation never waits for
  mailbox space (it returns at once, also on a full bounded mailbox), its messages are handled in
  submission order, and it fails when the weak sender no longer upgrades or the mailbox is gone.
-/
namespace Hannibal

def tfCfg : Cfg := { cap := some 1, strat := .only, timeout := none, failOnTimeout := false, stream := false }
def tfCtx : MonCtx := { cfg := tfCfg, h0 := 0, k0 := .addr, prompt := true }

/-- capacity 1: message 1 (an ordinary `send`) fills the mailbox and is being handled; meanwhile the weak
    sender 1 force-sends 2 and 3, both operations return `Ok` immediately (nobody is parked), and the actor
    handles 1, 2, 3 in that order -/
def tfExample : List Label :=
  [ .cbBegin .started, .cbEnd .started true,
    .mk 0 1 .weakSender,
    .begin 0 0 (.send 1), .ret 0 .ok,
    .cbBegin (.handle 1),
    .begin 1 1 (.tryForce 2), .ret 1 .ok,
    .begin 2 1 (.tryForce 3), .ret 2 .ok,
    .cbEnd (.handle 1) true,
    .cbBegin (.handle 2), .cbEnd (.handle 2) true,
    .cbBegin (.handle 3), .cbEnd (.handle 3) true ]

example : (run Wiring.current (AState.init tfCfg 0 .addr) tfExample).isSome = true := by decide
example : (monC01 tfCtx).ok tfExample = true := by decide
example : wf01 tfExample = true := by decide
example : (monC12 (some 1)).ok tfExample = true := by decide

/-- the same on a rendezvous mailbox (capacity 0), submitted while `started` is still running -/
def tfCfg0 : Cfg := { tfCfg with cap := some 0 }
def tfExample0 : List Label :=
  [ .cbBegin .started,
    .mk 0 1 .weakSender,
    .begin 0 1 (.tryForce 1), .ret 0 .ok,
    .begin 1 1 (.tryForce 2), .ret 1 .ok,
    .cbEnd .started true,
    .cbBegin (.handle 1), .cbEnd (.handle 1) true,
    .cbBegin (.handle 2), .cbEnd (.handle 2) true ]

example : (run Wiring.current (AState.init tfCfg0 0 .addr) tfExample0).isSome = true := by decide
example : (monC01 { tfCtx with cfg := tfCfg0 }).ok tfExample0 = true := by decide
example : (monC12 (some 0)).ok tfExample0 = true := by decide

/-- contrast: the waiting twin `try_send` is parked in the same situation, the model refuses its `ret` … -/
example : (run Wiring.current (AState.init tfCfg0 0 .addr)
    [ .cbBegin .started, .mk 0 1 .weakSender, .begin 0 1 (.trySend 1), .ret 0 .ok ]).isSome = false := by decide
/-- … and handling out of submission order is what `monC01` flags for `tryForce` as for any acknowledged send -/
example : (monC01 tfCtx).ok
    [ .cbBegin .started, .cbEnd .started true, .mk 0 1 .weakSender, .begin 0 1 (.tryForce 1), .ret 0 .ok,
      .begin 1 1 (.tryForce 2), .ret 1 .ok, .cbBegin (.handle 2) ] = false := by decide
example : (run Wiring.current (AState.init tfCfg 0 .addr)
    [ .cbBegin .started, .cbEnd .started true, .mk 0 1 .weakSender, .begin 0 1 (.tryForce 1), .ret 0 .ok,
      .begin 1 1 (.tryForce 2), .ret 1 .ok, .cbBegin (.handle 2) ]).isSome = false := by decide

/-- no strong handle left: the weak sender no longer upgrades, the operation returns `AlreadyStopped` and
    nothing was submitted (the loop sees the channel end on an empty mailbox) -/
def tfDead : List Label :=
  [ .cbBegin .started, .cbEnd .started true,
    .mk 0 1 .weakSender, .drop 0,
    .begin 0 1 (.tryForce 5), .ret 0 (.err .alreadyStopped),
    .tChanEnd, .cbBegin .stopped, .cbEnd .stopped true, .taskDone ]

example : (run Wiring.current (AState.init tfCfg 0 .addr) tfDead).isSome = true := by decide
example : (monC01 tfCtx).ok tfDead = true := by decide
example : (monC12 (some 1)).ok tfDead = true := by decide
/-- `Ok` is refused there -/
example : (run Wiring.current (AState.init tfCfg 0 .addr) (tfDead.take 5 ++ [ .ret 0 .ok ])).isSome = false := by
  decide

/-- a strong handle is left but the actor has stopped: the upgrade succeeds, the mailbox refuses the message -/
def tfClosed : List Label :=
  [ .cbBegin .started, .cbEnd .started true,
    .mk 0 1 .weakSender, .stopReq 0 true, .tDeq, .cbBegin .stopped, .cbEnd .stopped true, .taskDone,
    .begin 0 1 (.tryForce 5), .ret 0 (.err .send) ]

example : (run Wiring.current (AState.init tfCfg 0 .addr) tfClosed).isSome = true := by decide
example : (monC01 tfCtx).ok tfClosed = true := by decide

/-! ### the monitors that count `tryForce` as an acknowledged submission -/

/-- `monC05q` / `monC04q`: an acknowledged `tryForce` message is handled before the actor stops -/
def tfDrain : List Label :=
  [ .cbBegin .started, .cbEnd .started true, .mk 0 1 .weakSender,
    .begin 0 1 (.tryForce 7), .ret 0 .ok, .drop 0,
    .cbBegin (.handle 7), .cbEnd (.handle 7) true,
    .tChanEnd, .cbBegin .stopped, .cbEnd .stopped true, .taskDone, .quiescent [] ]

example : (run Wiring.current (AState.init c05Cfg 0 .addr) tfDrain).isSome = true := by decide
example : (monC05q c05Ctx).ok tfDrain = true := by decide
example : (monC05 c05Ctx).ok tfDrain = true := by decide
/-- skipped: rejected by `monC05q` (and by the model) -/
example : (monC05q c05Ctx).ok [ .cbBegin .started, .cbEnd .started true, .mk 0 1 .weakSender,
    .begin 0 1 (.tryForce 7), .ret 0 .ok, .drop 0,
    .tChanEnd, .cbBegin .stopped, .cbEnd .stopped true, .taskDone, .quiescent [] ] = false := by decide
example : (run Wiring.current (AState.init c05Cfg 0 .addr) [ .cbBegin .started, .cbEnd .started true,
    .mk 0 1 .weakSender, .begin 0 1 (.tryForce 7), .ret 0 .ok, .drop 0, .tChanEnd ]).isSome = false := by decide
/-- acknowledged before the stop request, never handled: rejected by `monC04q` -/
example : (monC04q c04qCtx).ok [ .cbBegin .started, .cbEnd .started true, .mk 0 1 .weakSender,
    .begin 0 1 (.tryForce 1), .ret 0 .ok,
    .stopReq 0 true, .tDeq, .cbBegin .stopped, .cbEnd .stopped true, .taskDone, .quiescent [] ] = false := by
  decide
/-- `monC06s`: begun after the failed actor's task is gone, it never returns `Ok` -/
example : (monC06s c06Ctx).ok [ .cbBegin .started, .cbPanic .started, .taskDone, .mk 0 1 .weakSender,
    .begin 1 1 (.tryForce 5), .ret 1 .ok ] = false := by decide
/-- `monC05` (3): while a `tryForce` is in flight its upgraded `Sender` is a strong holder, like that of a
    `try_send` in flight: another weak handle upgrades although every strong *handle* is gone -/
example : (run Wiring.current (AState.init c05Cfg 0 .addr) [ .cbBegin .started, .cbEnd .started true,
    .mk 0 1 .weakSender, .begin 0 1 (.tryForce 7), .drop 0, .upgrade 1 (some 2), .ret 0 .ok ]).isSome = true := by
  decide
example : (monC05 c05Ctx).ok [ .cbBegin .started, .cbEnd .started true,
    .mk 0 1 .weakSender, .begin 0 1 (.tryForce 7), .drop 0, .upgrade 1 (some 2), .ret 0 .ok ] = true := by decide

end Hannibal
