import Hannibal.Props.C07O
import Hannibal.Props.C05Current
/- C07 (order / ignored restart) for the wiring extracted from today's source. -/
namespace Hannibal

theorem C07o_current (c : MonCtx) (ls : List Label) (s : AState)
    (hr : run Wiring.current (AState.init c.cfg c.h0 c.k0) ls = some s) (hwf : wf01 ls = true) :
    (monC07o c).ok ls = true :=
  C07o_holds _ wellWired05_current c ls s hr hwf

example : (run Wiring.current (AState.init c07oCfg 0 .addr) c07oExample).isSome = true := by decide
example : (run Wiring.current (AState.init c07oCfgN 0 .addr) c07oExampleN).isSome = true := by decide
/-- the reuse witness is a run of the model -/
example : (run Wiring.current (AState.init c07oCfg 0 .addr) c07o_reuse_witness).isSome = true := by decide
/-- the wiring witness is a run only under the broken wiring -/
example : (run (senderTxOnly07 Wiring.current) (AState.init c07oCfgN 0 .addr) c07o_wiring_witness).isSome = true := by
  decide
example : (run Wiring.current (AState.init c07oCfgN 0 .addr) c07o_wiring_witness).isSome = false := by decide
example : WellWired05 (senderTxOnly07 Wiring.current) = False := by simp; decide

end Hannibal
