import Hannibal.Props.C06
/-
  C06, send part that *is* a theorem of the model: a send begun after the failed actor's task is gone
  (failure + `taskDone` / `taskPanic` / `cancel`) never returns Ok (`monC06s`).  No wiring hypothesis.
-/
namespace Hannibal
open AState

/-- once the loop task is gone the receiver is gone -/
def DoneRx (s : AState) : Prop := s.isDone = true → s.chan.rx = false

theorem doneRx_init (cfg : Cfg) (h0 : Nat) (k0 : HKind) : DoneRx (AState.init cfg h0 k0) := by
  simp [DoneRx, AState.init, isDone]

theorem doneRx_step {w : Wiring} {s s' : AState} {l : Label} (hs : step w s l = some s') (hi : DoneRx s) :
    DoneRx s' := by
  unfold DoneRx at *
  cases l <;> unfold_steps hs <;>
    ((repeat' (split at hs)) <;>
     (first
       | (simp at hs; done)
       | (simp at hs; subst hs;
          simp_all [isDone, fail, finish, cancelSlots, killTimers, setTimer, addOp, removeOp, removeHandle, push,
            Chan.deq, Chan.dropRx]; done)
       | (simp at hs; subst hs; unfold answer; split <;> simp_all [isDone]; done)
       | (simp at hs; subst hs; cases hp : s.phase <;>
            simp_all [isDone, openCb, cancelSlots, curSlot, Chan.dropRx, Chan.deq]; done)))

/-- a send submitted to a closed mailbox is refused -/
theorem stepBegin_closed {w s o h k s'} (hs : stepBegin w s o h k = some s') (hrx : s.chan.rx = false)
    (hk : k.isSend = true) :
    s.findOp o = none ∧ ∃ e, s'.ops = s.ops ++ [{ o, h, kind := k, st := .failed e }] := by
  obtain ⟨hfresh, -⟩ := stepBegin_ops hs
  refine ⟨hfresh, ?_⟩
  unfold stepBegin at hs
  cases hk0 : s.handleKind h with
  | none => simp [hk0] at hs
  | some hk' =>
    simp only [hk0] at hs
    split at hs
    · simp at hs
    · split at hs
      · simp at hs; subst hs; exact ⟨_, rfl⟩
      · cases k <;> simp [OpKind.isSend] at hk <;> simp [plan, hrx] at hs <;> subst hs <;> exact ⟨_, rfl⟩

def lift06 (σ : C06sSt) : C06St :=
  { failed := σ.failed, terminated := σ.terminated, ops := [], finishedOk := [], timers := [] }

theorem Flags06.congr {c s} {σ1 σ2 : C06St} (h : Flags06 c s σ1) (hf : σ1.failed = σ2.failed)
    (ht : σ1.terminated = σ2.terminated) : Flags06 c s σ2 := by
  obtain ⟨⟨sd, h1⟩, h2⟩ := h
  exact ⟨⟨sd, hf ▸ h1⟩, ht ▸ h2⟩

theorem bor_ite (a b : Bool) : (a || b) = if b then true else a := by cases a <;> cases b <;> rfl

theorem next06s_failed (c σ l) :
    (next06s c σ l).failed = (if fails06 c.cfg.failOnTimeout l then true else σ.failed) := by
  cases l
  case begin => simp [next06s, fails06, Label.isFailure]
  all_goals (simp only [next06s]; exact bor_ite _ _)

theorem next06s_terminated (c σ l) :
    (next06s c σ l).terminated = (if l.terminates then true else σ.terminated) := by
  cases l
  case begin => simp [next06s, Label.terminates]
  all_goals (simp only [next06s]; exact bor_ite _ _)

theorem next06s_ops (c σ l) :
    (next06s c σ l).ops = (match l with
      | .begin o _ k => (o, (k, σ.failed && σ.terminated)) :: σ.ops
      | _ => σ.ops) := by
  cases l <;> rfl

/-- a live send begun after the task was gone has been refused -/
def OpsInv06s (s : AState) (σ : C06sSt) : Prop :=
  ∀ r ∈ s.ops, ∃ g, lookup r.o σ.ops = some (r.kind, g) ∧
    (g = true → r.kind.isSend = true → ∃ e, r.st = .failed e)

structure C06sInv (c : MonCtx) (s : AState) (σ : C06sSt) : Prop where
  f : Flags06 c s (lift06 σ)
  rx : DoneRx s
  ops : OpsInv06s s σ

theorem c06s_step (w : Wiring) (c : MonCtx) {s s' : AState} {σ : C06sSt} {l : Label}
    (hi : C06sInv c s σ) (hs : step w s l = some s') :
    ∃ σ', (monC06s c).step σ l = some σ' ∧ C06sInv c s' σ' := by
  have hF : Flags06 c s' (lift06 (next06s c σ l)) :=
    (flags06_step w c hi.f hs).congr (by simp [lift06, next06s_failed]) (by simp [lift06, next06s_terminated])
  have hR := doneRx_step hs hi.rx
  have hfl : σ.failed = failing s.phase := hi.f.fail
  have htm : σ.terminated = s.isDone := hi.f.term
  have hO : OpsInv06s s' (next06s c σ l) := by
    by_cases hedge : l.isOpEdge = true
    · cases l <;> simp [Label.isOpEdge] at hedge
      case begin o h k =>
        simp only [step] at hs
        obtain ⟨hfresh, st, hops⟩ := stepBegin_ops hs
        have hne := findOp_none_ne hfresh
        intro r hr
        rw [hops] at hr
        rcases List.mem_append.mp hr with hr | hr
        · obtain ⟨g, h1, h2⟩ := hi.ops r hr
          refine ⟨g, ?_, h2⟩
          simp only [next06s_ops]
          rw [lookup_cons_ne (hne r hr).symm]
          exact h1
        · simp at hr; subst hr
          refine ⟨σ.failed && σ.terminated, by simp [next06s_ops, lookup], ?_⟩
          intro hg hk
          simp at hg
          have hrx := hi.rx (htm ▸ hg.2)
          obtain ⟨_, e, hops'⟩ := stepBegin_closed hs hrx hk
          rw [hops] at hops'
          have := List.append_cancel_left hops'
          simp at this
          exact ⟨e, this⟩
      case ret o r =>
        simp only [step] at hs
        obtain ⟨_, _, _, hops, _⟩ := stepRet_ops hs
        intro r0 hr0
        rw [hops] at hr0
        exact hi.ops r0 (List.mem_filter.mp hr0).1
      case cdrop o =>
        simp only [step] at hs
        have hops := stepCdrop_ops hs
        intro r0 hr0
        rw [hops] at hr0
        exact hi.ops r0 (List.mem_filter.mp hr0).1
    · have hedge' : l.isOpEdge = false := by simpa using hedge
      obtain ⟨f, hf, pf⟩ := step_ops_fine hs hedge'
      have hσops : (next06s c σ l).ops = σ.ops := by
        cases l <;> simp [Label.isOpEdge] at hedge' <;> rfl
      intro r' hr'
      rw [hf] at hr'
      obtain ⟨r, hr, rfl⟩ := List.mem_map.mp hr'
      obtain ⟨ho, hk, _, hst⟩ := pf r
      obtain ⟨g, h1, h2⟩ := hi.ops r hr
      refine ⟨g, by rw [hσops, ho, hk]; exact h1, ?_⟩
      intro hg hks
      obtain ⟨e, he⟩ := h2 hg (hk ▸ hks)
      rcases hst with hst | ⟨hpend, _⟩
      · exact ⟨e, hst.trans he⟩
      · rw [he] at hpend; cases hpend
  have hbad : bad06s σ l = false := by
    cases l <;> simp only [bad06s]
    case ret o r =>
      simp only [step] at hs
      obtain ⟨rec, hfind, hexp, _, hro⟩ := stepRet_ops hs
      obtain ⟨hrec, _⟩ := findOp_some_mem hfind
      obtain ⟨g, h1, h2⟩ := hi.ops rec hrec
      rw [hro] at h1
      simp only [h1]
      cases g
      · rfl
      · simp only
        cases hks : rec.kind.isSend
        · rfl
        · obtain ⟨e, he⟩ := h2 rfl hks
          unfold retExpect at hexp
          simp [he] at hexp
          subst hexp
          simp
  exact ⟨next06s c σ l, by simp [monC06s, hbad], ⟨hF, hR, hO⟩⟩

theorem c06s_init (c : MonCtx) : C06sInv c (AState.init c.cfg c.h0 c.k0) (monC06s c).init := by
  refine ⟨?_, doneRx_init _ _ _, ?_⟩
  · exact (c06_init c).f.congr rfl rfl
  · intro r hr; simp [AState.init] at hr

/-- **C06, sends after the task is gone.** A send begun after the failed actor's task has ended is
    refused: it never returns Ok. -/
theorem C06s_holds (w : Wiring) (c : MonCtx) (ls : List Label) (s : AState)
    (hr : run w (AState.init c.cfg c.h0 c.k0) ls = some s) : (monC06s c).ok ls = true :=
  ok_of_run_lift (monC06s c) w (C06sInv c) (fun _ _ _ _ hi hs => c06s_step w c hi hs) _ (c06s_init c) ls s hr

example : (monC06s c06Ctx).ok c06Example = true := by decide
example : (monC06s c06Ctx).ok c06LateSend = true := by decide
example : (monC06s c06Ctx).ok [ .cbBegin .started, .cbPanic .started, .taskDone, .begin 1 0 (.send 5), .ret 1 .ok ]
    = false := by decide
example : (monC06s c06Ctx).ok [ .cbBegin .started, .cbEnd .started true, .cancel, .begin 1 0 (.send 5), .ret 1 .ok ]
    = false := by decide

end Hannibal
