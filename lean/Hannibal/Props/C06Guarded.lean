import Hannibal.Props.C06Quiet
import Hannibal.Props.C06Send
import Hannibal.Props.C06Split
import Hannibal.Proofs.Guarded
/-
  C06 for guarded runs (the runs the acceptor accepts): between the failure of the loop and the end of its
  task nothing else happens to the actor, so "a send begun after the failure never returns Ok" - false of
  unguarded runs (`c06LateSend`) - is a theorem, and with it the single-actor part of C06 as first written
  (`monC06orig`).
-/
namespace Hannibal
open AState

/-- the return clause of `monC06t` on its own -/
def bad06r (st : C06St) : Label → Bool
  | .ret o r =>
    st.failed &&
      (match lookup o st.ops with
       | none => false
       | some (k, late) => retBad06t k late r)
  | _ => false

def monC06r (c : MonCtx) : Mon C06St where
  init := { failed := false, ops := [], finishedOk := [], timers := [], terminated := false }
  step st l := if bad06r st l then none else some (next06 c st l)

theorem bad06t_split (st : C06St) (l : Label) : bad06t st l = (bad06r st l || bad06q st l) := by
  cases l <;> (try (first | rfl | (simp [bad06t, bad06r, bad06q]; done)))
  case ret o r =>
    simp only [bad06t, bad06r, bad06q, Bool.or_false]
    cases lookup o st.ops with
    | none => rfl
    | some p => obtain ⟨k, late⟩ := p; rfl

theorem monC06t_split_run (c : MonCtx) : ∀ (ls : List Label) (st : C06St),
    ((monC06t c).run st ls).isSome = (((monC06r c).run st ls).isSome && ((monC06q c).run st ls).isSome)
  | [], st => by simp [Mon.run]
  | l :: ls, st => by
    have ht : (monC06t c).step st l = if (bad06r st l || bad06q st l) = true then none else some (next06 c st l) := by
      simp only [monC06t, bad06t_split]
    have hr : (monC06r c).step st l = if bad06r st l = true then none else some (next06 c st l) := rfl
    have hq : (monC06q c).step st l = if bad06q st l = true then none else some (next06 c st l) := rfl
    simp only [Mon.run, ht, hr, hq]
    cases h1 : bad06r st l <;> cases h2 : bad06q st l <;> simp
    · exact monC06t_split_run c ls (next06 c st l)

theorem monC06t_split (c : MonCtx) (ls : List Label) :
    (monC06t c).ok ls = ((monC06r c).ok ls && (monC06q c).ok ls) := monC06t_split_run c ls _

/-- coupling of `monC06r`'s state with `monC06s`'s along a guarded run: on guarded runs an operation begun
    after the failure is begun after the end of the task -/
structure RInv (c : MonCtx) (s : AState) (σ : C06St) (σs : C06sSt) : Prop where
  inv : C06sInv c s σs
  ops : σ.ops = σs.ops
  failed : σ.failed = σs.failed
  term : σ.terminated = σs.terminated

theorem r_step (w : Wiring) (c : MonCtx) {s s' : AState} {σ : C06St} {σs : C06sSt} {l : Label}
    (hi : RInv c s σ σs) (hs : gstep w s l = some s') :
    bad06r σ l = false ∧ ∃ σs', RInv c s' (next06 c σ l) σs' := by
  have hst := gstep_step hs
  have hal := gstep_allows hs
  obtain ⟨σs', hm, hinv'⟩ := c06s_step w c hi.inv hst
  have hσs' : σs' = next06s c σs l := by
    simp only [monC06s] at hm
    split at hm <;> simp at hm
    exact hm.symm
  subst hσs'
  have hbs : bad06s σs l = false := by
    simp only [monC06s] at hm
    cases hb : bad06s σs l
    · rfl
    · simp [hb] at hm
  refine ⟨?_, next06s c σs l, hinv', ?_, ?_, ?_⟩
  · -- the return clause
    cases l <;> simp only [bad06r]
    case ret o r =>
      simp only [bad06s] at hbs
      rw [hi.ops]
      cases hl : lookup o σs.ops with
      | none => simp
      | some p =>
        obtain ⟨k, late⟩ := p
        simp only [hl] at hbs
        cases late
        · simp [retBad06t]
        · simp only at hbs
          simp [retBad06t, hbs]
  · -- the tables stay equal: at a guarded `begin` after the failure the task is gone
    rw [next06_ops, next06s_ops]
    cases l <;> simp only [hi.ops]
    case begin o h k =>
      have hfl : σs.failed = failing s.phase := hi.inv.f.fail
      have htm : σs.terminated = s.isDone := hi.inv.f.term
      congr 2
      rw [hi.failed]
      cases hf : σs.failed
      · simp
      · rw [hf] at hfl
        cases hph : s.phase <;> simp [hph, failing] at hfl
        · rename_i g; cases g <;> simp at hfl; simp [hph, Phase.allows] at hal
        · rename_i g; cases g <;> simp at hfl; simp [htm, hph, isDone]
  · rw [next06_failed, next06s_failed, hi.failed]
  · rw [next06_terminated, next06s_terminated, hi.term]

theorem r_run (w : Wiring) (c : MonCtx) : ∀ (ls : List Label) (s s' : AState) (σ : C06St) (σs : C06sSt),
    RInv c s σ σs → grun w s ls = some s' → ((monC06r c).run σ ls).isSome = true
  | [], _, _, _, _, _, _ => rfl
  | l :: ls, s, s', σ, σs, hi, hr => by
    simp only [grun] at hr
    cases hg : gstep w s l with
    | none => simp [hg] at hr
    | some s1 =>
      simp only [hg] at hr
      obtain ⟨hb, σs', hi'⟩ := r_step w c hi hg
      simp only [Mon.run, monC06r, hb]
      exact r_run w c ls s1 s' _ σs' hi' hr

/-- on guarded runs a send begun after the failure never returns Ok -/
theorem C06r_holds (w : Wiring) (c : MonCtx) (ls : List Label) (s : AState)
    (hr : grun w (AState.init c.cfg c.h0 c.k0) ls = some s) : (monC06r c).ok ls = true :=
  r_run w c ls _ s _ (monC06s c).init ⟨c06s_init c, rfl, rfl, rfl⟩ hr

/-- **C06 (single-actor part) as first written, for guarded runs.** -/
theorem C06g_holds (w : Wiring) (hw : w.notifyAfterStopped = true) (c : MonCtx) (ls : List Label) (s : AState)
    (hr : grun w (AState.init c.cfg c.h0 c.k0) ls = some s) (huniq : uniqueBegins ls = true) :
    (monC06orig c).ok ls = true := by
  have hrun := grun_run ls _ s hr
  rw [monC06_split, monC06t_split, C06_holds w hw c ls s hrun, C06r_holds w c ls s hr,
    C06q_holds w hw c ls s hrun huniq]
  rfl

end Hannibal
