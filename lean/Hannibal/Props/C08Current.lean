import Hannibal.Props.C08
import Hannibal.Generated.Wiring
import Hannibal.Generated.SysFacts
/- C08 for the wiring extracted from today's source. -/
namespace Hannibal

theorem wellWired08_current : WellWired08 Wiring.current := by decide

/-- the registry model is written for code of this shape: lookup, spawn and insert of `from_registry` under one
    write guard, `register` replacing only a stopped entry, `replace` / `unregister` returning the previous entry,
    `try_from_registry` handing out only a running one (read off the source on every run) -/
theorem shape08_current : SysFacts.current.ok08 = true := by decide

theorem C08_current (ls : List RLabel) (s : RegSt) (hr : rrun Wiring.current RegSt.init ls = some s) :
    monC08.ok ls = true :=
  C08_holds _ wellWired08_current ls s hr

example : (rrun Wiring.current RegSt.init c08Example).isSome = true := by decide

/-- both hypotheses are needed: with the polarity of `already_running` reversed, or with a liveness query
    that only sees awaited terminations, the model has runs the specification rejects -/
def Wiring.badPolarity : Wiring := { Wiring.current with alreadyRunningPolarity := false }
def Wiring.peekOnly : Wiring := { Wiring.current with livenessQuery := .peekOnly }
def c08Bad1 : List RLabel :=
  [ .rbegin 0 (.fromRegistry 1), .rspawn 0 7, .rret 0 (.inst 7), .rbegin 1 (.alreadyRunning 1), .ract 1,
    .rret 1 (.running (some false)) ]
def c08Bad2 : List RLabel :=
  [ .rbegin 0 (.fromRegistry 1), .rspawn 0 7, .rret 0 (.inst 7), .term 7, .rbegin 1 (.fromRegistry 1), .ract 1,
    .rret 1 (.inst 7) ]
example : (rrun Wiring.badPolarity RegSt.init c08Bad1).isSome = true ∧ monC08.ok c08Bad1 = false := by decide
example : (rrun Wiring.peekOnly RegSt.init c08Bad2).isSome = true ∧ monC08.ok c08Bad2 = false := by decide

end Hannibal
