import Hannibal.Props.C11
import Hannibal.Generated.Wiring
/- C11 for the wiring extracted from today's source. -/
namespace Hannibal

theorem C11_current (c : MonCtx) (ls : List Label) (s : AState)
    (hr : run Wiring.current (AState.init c.cfg c.h0 c.k0) ls = some s) : (monC11 c).ok ls = true :=
  C11_holds _ c ls s hr

example : (run Wiring.current (AState.init c11Cfg 0 .addr) c11Example).isSome = true := by decide

end Hannibal
