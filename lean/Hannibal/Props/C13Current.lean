import Hannibal.Props.C13
import Hannibal.Generated.Wiring
/- C13 for the wiring extracted from today's source. -/
namespace Hannibal

theorem C13_current (c : MonCtx) (ls : List Label) (s : AState)
    (hr : run Wiring.current (AState.init c.cfg c.h0 c.k0) ls = some s) : (monC13 c).ok ls = true :=
  C13_holds _ c ls s hr

example : (run Wiring.current (AState.init c13Cfg 0 .addr) c13Example).isSome = true := by decide
example : (monC13 c13Ctx).ok c13Example = true := by decide

end Hannibal
