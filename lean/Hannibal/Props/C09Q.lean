import Hannibal.Proofs.C09Q
/-
  C09, liveness at quiescence (broker): in every run of the broker model in which no publication number is
  published twice (`wf09`) and that ends in a *settled* state - every begun operation has entered the broker's
  mailbox (`pend = []`), the broker has handled its whole mailbox (`mbox = []`) and nothing is on its way to a
  subscriber (`flight = []`) - the end-of-trace check `C09St.quiescentOk` of Monitor/C09.lean holds: every
  publication whose publish returned has been taken up by every required subscriber.

  Proof: `required c P` gives a subscribe `S` of `c` that returned before `P` began, every unsubscribe of `c`
  returned before `S` began.  All operations are in the ghost handling order `H` (nothing pending, nothing
  queued); real-time order implies enqueue order (`enq_order`), so in `H`: every `unsub c` < `S` < `P`, i.e. `c`
  is in the table when `pub m` is handled (`SubAt`, `SubConv`), and `c` is not dead then because it is not
  dead at the end.  `DelInv`: `(c, m)` was taken up or is still on its way; `flight = []` excludes the latter.

  No hypothesis beyond `wf09` (already needed by `C09_holds`) and settledness is needed.  The corners:
  a subscribe not yet handled is excluded by `mbox = []`; a terminated subscriber is excused by `required`
  (`dead`), and `dead` of the monitor and of the model coincide; subscribing twice is harmless (`SubConv` only
  looks at the *last* handled subscribe / unsubscribe item); operation ids can only be re-used by the model once
  the earlier operation returned (`bbegin` refuses an id in `pend` or `sent`), which `next09 (.bret o)` handles.

  `required` demands *less* than the model guarantees: an unsubscribe of `c` that began after the publish
  returned cannot un-send what the broker already sent.  `C09qs_holds` proves the check with the stronger
  `requiredS` (every unsubscribe of `c` definitely before `S` *or definitely after `P`*).
-/
namespace Hannibal

/-- the model-side reading of the driver's `settled` (Driver/Brk09.lean) -/
def BrSt.settled (s : BrSt) : Bool := s.pend.isEmpty && s.mbox.isEmpty && s.flight.isEmpty

theorem settled_iff (s : BrSt) : s.settled = true ↔ s.pend = [] ∧ s.mbox = [] ∧ s.flight = [] := by
  unfold BrSt.settled
  simp [List.isEmpty_iff, and_assoc]

/-- like `required`, but an unsubscribe that lies definitely *after* the publish does not excuse either -/
def C09St.requiredS (st : C09St) (c : Nat) (P : Op9) : Bool :=
  P.tr.isSome && !st.dead.contains c &&
  st.ops.any (fun S => S.it == .sub c && defBefore S P &&
    st.ops.all (fun U => !(U.it == .unsub c) || defBefore U S || defBefore P U))

def C09St.quiescentOkS (st : C09St) : Bool :=
  st.ops.all (fun P =>
    match P.it with
    | .pub m =>
      st.ops.all (fun S =>
        match S.it with
        | .sub c => !st.requiredS c P || st.seq.contains (c, m)
        | _ => true)
    | _ => true)

theorem required_requiredS {st : C09St} {c : Nat} {P : Op9} (h : st.required c P = true) :
    st.requiredS c P = true := by
  unfold C09St.required at h
  unfold C09St.requiredS
  simp only [Bool.and_eq_true, List.any_eq_true, List.all_eq_true, Bool.or_eq_true] at h ⊢
  obtain ⟨h1, S, hS, h2, h3⟩ := h
  exact ⟨h1, S, hS, h2, fun U hU => Or.inl (h3 U hU)⟩

theorem quiescentOk_of_S {st : C09St} (h : st.quiescentOkS = true) : st.quiescentOk = true := by
  unfold C09St.quiescentOkS at h
  unfold C09St.quiescentOk
  rw [List.all_eq_true] at h ⊢
  intro P hP
  have hP' := h P hP
  cases hPit : P.it with
  | sub c => rfl
  | unsub c => rfl
  | pub m =>
    simp only [hPit] at hP' ⊢
    rw [List.all_eq_true] at hP' ⊢
    intro S hS
    have hS' := hP' S hS
    cases hSit : S.it with
    | unsub c => rfl
    | pub m' => rfl
    | sub c =>
      simp only [hSit] at hS' ⊢
      cases hreq : st.required c P with
      | false => rfl
      | true => simpa [required_requiredS hreq] using hS'

theorem c09q_final {s : BrSt} {σ : C09St} {W : List Nat} {H : List GE} (hi : C09Inv s σ W H []) (hq : QInv09 s σ H)
    (hf : s.flight = []) : σ.quiescentOkS = true := by
  unfold C09St.quiescentOkS
  rw [List.all_eq_true]
  intro P hP
  cases hPit : P.it with
  | sub c => rfl
  | unsub c => rfl
  | pub m =>
    simp only
    rw [List.all_eq_true]
    intro S0 hS0
    cases hS0it : S0.it with
    | unsub c => rfl
    | pub m' => rfl
    | sub c =>
      simp only
      cases hreq : σ.requiredS c P with
      | false => rfl
      | true =>
        unfold C09St.requiredS at hreq
        simp only [Bool.and_eq_true, List.any_eq_true, List.all_eq_true, Bool.or_eq_true, beq_iff_eq,
          Bool.not_eq_eq_eq_not, Bool.not_true] at hreq
        obtain ⟨⟨hr, hd⟩, S, hS, ⟨hSit, hSP⟩, hU⟩ := hreq
        obtain ⟨r, hr⟩ := Option.isSome_iff_exists.mp hr
        have hd' : c ∉ σ.dead := by simpa using hd
        have := c09q_core hi hq hf hP hPit hr hd' hS hSit hSP (by
          intro U hUm hUit
          rcases hU U hUm with (h | h) | h
          · rw [hUit] at h; simp at h
          · exact Or.inl h
          · exact Or.inr h)
        simpa using this

/-- **C09 at quiescence (broker), strong form**: `requiredS` instead of `required`, and `pend = []` is not
    needed (an operation still in `pend` has not returned, and only returned operations - and unsubscribes,
    which when pending have not reached the broker - matter). -/
theorem C09qs_holds (ls : List BLabel) (s : BrSt) (hr : brun BrSt.init ls = some s) (hwf : wf09 ls = true)
    (hmb : s.mbox = []) (hfl : s.flight = []) :
    ∀ σ, monC09.run monC09.init ls = some σ → σ.quiescentOkS = true := by
  intro σ hσ
  unfold wf09 BMon.ok at hwf
  cases hw : wfC09.run wfC09.init ls with
  | none => simp [hw] at hwf
  | some W' =>
    obtain ⟨σ', H, Q, hm, hi, hq⟩ :=
      c09q_run ls BrSt.init s monC09.init wfC09.init W' [] [] c09_init c09q_init hr hw
    rw [hm] at hσ
    cases hσ
    have hQ : Q = [] := by
      have := hi.mb
      rw [hmb] at this
      exact List.map_eq_nil_iff.mp this.symm
    subst hQ
    exact c09q_final hi hq hfl

/-- **C09 at quiescence (broker).**  The end-of-trace check of the monitor, as written. -/
theorem C09q_holds (ls : List BLabel) (s : BrSt) (hr : brun BrSt.init ls = some s) (hwf : wf09 ls = true)
    (hset : s.pend = [] ∧ s.mbox = [] ∧ s.flight = []) :
    ∀ σ, monC09.run monC09.init ls = some σ → σ.quiescentOk = true :=
  fun σ hσ => quiescentOk_of_S (C09qs_holds ls s hr hwf hset.2.1 hset.2.2 σ hσ)

/-- the same with the Bool-valued `settled` and with the existence of the monitor state (`C09_holds`) -/
theorem C09q_holds' (ls : List BLabel) (s : BrSt) (hr : brun BrSt.init ls = some s) (hwf : wf09 ls = true)
    (hset : s.settled = true) :
    ∃ σ, monC09.run monC09.init ls = some σ ∧ σ.quiescentOk = true := by
  have hok := C09_holds ls s hr hwf
  unfold BMon.ok at hok
  obtain ⟨σ, hσ⟩ := Option.isSome_iff_exists.mp hok
  exact ⟨σ, hσ, C09q_holds ls s hr hwf ((settled_iff s).mp hset) σ hσ⟩

/-! ### non-vacuity -/

def qOk09 (ls : List BLabel) : Bool :=
  match monC09.run monC09.init ls with
  | some σ => σ.quiescentOk
  | none => false

def qOkS09 (ls : List BLabel) : Bool :=
  match monC09.run monC09.init ls with
  | some σ => σ.quiescentOkS
  | none => false

def isSettled (ls : List BLabel) : Bool :=
  match brun BrSt.init ls with
  | some s => s.settled
  | none => false

/-- two subscribers (one subscribes twice, with a re-used operation id), concurrent publications, an unsubscribe
    followed by a re-subscribe, a subscriber that terminates with a publication on its way; settled at the end -/
def c09qExample : List BLabel :=
  [ .bbegin 0 (.sub 1), .benq 0, .bproc, .bret 0, .bbegin 1 (.sub 2), .benq 1, .bret 1, .bproc,
    .bbegin 0 (.sub 1), .benq 0, .bret 0, .bproc,
    .bbegin 2 (.pub 5), .bbegin 3 (.pub 6), .benq 3, .benq 2, .bret 2, .bproc, .bproc, .bret 3,
    .deliver 1 6, .deliver 2 6, .deliver 1 5, .bbegin 4 (.unsub 1), .benq 4, .bproc, .bret 4,
    .bbegin 5 (.pub 7), .benq 5, .bproc, .bret 5, .deliver 2 5, .deliver 2 7,
    .bbegin 6 (.sub 1), .benq 6, .bproc, .bret 6, .bbegin 7 (.pub 8), .benq 7, .bret 7, .bproc,
    .deliver 1 8, .term 2 ]

/-- the hypotheses of `C09q_holds` are satisfiable by a non-trivial run ... -/
example : isSettled c09qExample = true ∧ wf09 c09qExample = true := by decide
/-- ... on which the check is not vacuous: some `(c, P)` is required (and was taken up) -/
example : qOk09 c09qExample = true ∧ qOkS09 c09qExample = true := by decide
example : (match monC09.run monC09.init c09qExample with
    | some σ => σ.ops.any (fun P => σ.required 1 P) && σ.ops.any (fun P => !σ.required 1 P && σ.requiredS 1 P)
    | none => false) = true := by decide

/-- the check rejects: a subscriber definitely subscribed before the publish never takes the publication up -/
example : qOk09 [ .bbegin 0 (.sub 1), .bret 0, .bbegin 1 (.pub 5), .bret 1 ] = false := by decide
/-- one of two subscribers is left out -/
example : qOk09 [ .bbegin 0 (.sub 1), .bret 0, .bbegin 1 (.sub 2), .bret 1, .bbegin 2 (.pub 5), .bret 2,
    .deliver 1 5 ] = false := by decide
/-- re-subscribed after an unsubscribe that returned: required again -/
example : qOk09 [ .bbegin 0 (.sub 1), .bret 0, .bbegin 1 (.unsub 1), .bret 1, .bbegin 2 (.sub 1), .bret 2,
    .bbegin 3 (.pub 5), .bret 3 ] = false := by decide
/-- excused: the subscriber terminated / the subscribe overlaps the publish / the publish has not returned -/
example : qOk09 [ .bbegin 0 (.sub 1), .bret 0, .bbegin 1 (.pub 5), .bret 1, .term 1 ] = true := by decide
example : qOk09 [ .bbegin 0 (.sub 1), .bbegin 1 (.pub 5), .bret 0, .bret 1 ] = true := by decide
example : qOk09 [ .bbegin 0 (.sub 1), .bret 0, .bbegin 1 (.pub 5) ] = true := by decide
/-- an unsubscribe after the publish returned excuses under `required`, not under `requiredS` -/
example : qOk09 [ .bbegin 0 (.sub 1), .bret 0, .bbegin 1 (.pub 5), .bret 1, .bbegin 2 (.unsub 1), .bret 2 ] = true ∧
    qOkS09 [ .bbegin 0 (.sub 1), .bret 0, .bbegin 1 (.pub 5), .bret 1, .bbegin 2 (.unsub 1), .bret 2 ] = false := by
  decide

/-! `mbox = []` and `flight = []` are needed: runs of the model that fail the check because ... -/
/-- ... the publication is still on its way (`flight ≠ []`) -/
example : (brun BrSt.init [ .bbegin 0 (.sub 1), .benq 0, .bproc, .bret 0, .bbegin 1 (.pub 5), .benq 1, .bproc,
      .bret 1 ]).isSome = true ∧
    qOk09 [ .bbegin 0 (.sub 1), .benq 0, .bproc, .bret 0, .bbegin 1 (.pub 5), .benq 1, .bproc, .bret 1 ] = false := by
  decide
/-- ... the broker has not handled the publish yet (`mbox ≠ []`; a publish returns once it is in the mailbox) -/
example : (brun BrSt.init [ .bbegin 0 (.sub 1), .benq 0, .bproc, .bret 0, .bbegin 1 (.pub 5), .benq 1,
      .bret 1 ]).isSome = true ∧
    qOk09 [ .bbegin 0 (.sub 1), .benq 0, .bproc, .bret 0, .bbegin 1 (.pub 5), .benq 1, .bret 1 ] = false := by
  decide

/-- `pend = []` is not needed (`C09qs_holds`): an unsubscribe and a publish that have begun and not yet entered the
    mailbox at the end of the run -/
example : (match brun BrSt.init [ .bbegin 0 (.sub 1), .benq 0, .bproc, .bret 0, .bbegin 1 (.pub 5), .benq 1, .bproc,
      .bret 1, .deliver 1 5, .bbegin 2 (.unsub 1), .bbegin 3 (.pub 6) ] with
    | some s => !s.pend.isEmpty && s.mbox.isEmpty && s.flight.isEmpty
    | none => false) = true ∧
    qOkS09 [ .bbegin 0 (.sub 1), .benq 0, .bproc, .bret 0, .bbegin 1 (.pub 5), .benq 1, .bproc,
      .bret 1, .deliver 1 5, .bbegin 2 (.unsub 1), .bbegin 3 (.pub 6) ] = true := by decide

end Hannibal
