import Hannibal.Model.Types
/-
  C19 — ill-typed uses of the API are rejected at compile time.

  If every entry point carries (at least) the trait bounds listed in `required`
  — read off the source's generics and where-clauses by the translator — then
  for ALL actor and message profiles every use the compiler accepts is
  legitimate: a handler exists, fire-and-forget paths carry unit responses,
  restart needs a restartable actor, a stream only attaches to a
  non-restartable builder, recreate-from-default needs Default.
-/
namespace Hannibal

def WellWired19 (bounds : ApiEntry → List Bound) : Prop :=
  ∀ e, ∀ b ∈ required e, b ∈ bounds e

theorem wellWired19_of_b (bounds : ApiEntry → List Bound) (h : wellWired19b bounds = true) : WellWired19 bounds := by
  intro e b hb
  unfold wellWired19b at h
  rw [List.all_eq_true] at h
  have he := h e (by cases e <;> simp [ApiEntry.all])
  rw [List.all_eq_true] at he
  simpa using he b hb

theorem sat_of_accepts {bounds : ApiEntry → List Bound} (hw : WellWired19 bounds) {u : Use}
    (ha : accepts bounds u = true) {b : Bound} (hb : b ∈ required u.entry) : sat u b = true := by
  unfold accepts at ha
  rw [List.all_eq_true] at ha
  exact ha b (hw u.entry b hb)

/-- **C19.** For every profile of actor and message types (no bound on the number of types). -/
theorem C19_holds (bounds : ApiEntry → List Bound) (hw : WellWired19 bounds) (u : Use)
    (ha : accepts bounds u = true) : Legit u := by
  have hs := fun b hb => sat_of_accepts hw ha (b := b) hb
  unfold Legit
  refine ⟨?_, ?_, ?_, ?_, ?_, ?_, ?_⟩
  · intro h
    have := hs .handler (by cases he : u.entry <;> simp_all [ApiEntry.needsHandler, required])
    simpa [sat] using this
  · intro h
    have := hs .unitResponse (by cases he : u.entry <;> simp_all [ApiEntry.fireAndForget, required])
    simpa [sat] using this
  · intro h
    have := hs .restartable (by rcases h with h | h <;> simp [h, required])
    simpa [sat] using this
  · intro h
    have h1 := hs .nonRestartableState (by simp [h, required])
    have h2 := hs .streamHandler (by simp [h, required])
    exact ⟨by simpa [sat] using h1, by simpa [sat] using h2⟩
  · intro h
    have h1 := hs .default (by simp [h, required])
    have h2 := hs .restartable (by simp [h, required])
    exact ⟨by simpa [sat] using h1, by simpa [sat] using h2⟩
  · intro h
    have := hs .streamHandler (by rcases h with h | h <;> simp [h, required])
    simpa [sat] using this
  · intro h
    have := hs .streamHandler (by rcases h with h | h <;> simp [h, required])
    simpa [sat] using this

/-- No bypass through type-erased or weak handles: `Sender<M>`, `Caller<M>`, `WeakSender<M>`,
    `WeakCaller<M>` can only be produced by entry points that carry the handler bound (and the
    unit-response bound for the fire-and-forget ones), so every chain of conversions starting from an
    `Addr<A>` ends in a handle for a message `A` handles. -/
inductive Conv where
  | sender | weakSender | caller | weakCaller | ctxWeakSender | ctxWeakCaller
  deriving Repr, DecidableEq

def Conv.entry : Conv → ApiEntry
  | .sender => .addrSender | .weakSender => .addrWeakSender | .caller => .addrCaller
  | .weakCaller => .addrWeakCaller | .ctxWeakSender => .ctxWeakSender | .ctxWeakCaller => .ctxWeakCaller

theorem C19_no_bypass (bounds : ApiEntry → List Bound) (hw : WellWired19 bounds) (c : Conv) (a : ActorTy) (m : MsgTy)
    (item : Nat) (st : BState)
    (ha : accepts bounds { entry := c.entry, actor := a, msg := m, item := item, state := st } = true) :
    a.handles.contains m.id = true ∧ (c.entry.fireAndForget = true → m.unitResponse = true) := by
  have := C19_holds bounds hw _ ha
  exact ⟨this.1 (by cases c <;> rfl), this.2.1⟩

/-- Non-vacuity and necessity: dropping the unit-response bound from `Addr::sender` lets an ill-typed
    use through. -/
def looseBounds : ApiEntry → List Bound := fun e => if e = .addrSender then [.handler] else required e
def badUse : Use :=
  { entry := .addrSender, actor := { handles := [1], restartable := false, hasDefault := false, streamItems := [] },
    msg := { id := 1, unitResponse := false }, item := 0, state := .restartOnly }
example : accepts looseBounds badUse = true := by decide
example : ¬ Legit badUse := by unfold Legit; decide
example : accepts required badUse = false := by decide

/-- The same for the entry points added last: an `Addr<Broker<T>>::publish` without the unit-response bound and a
    `spawn_on_stream` without the `StreamHandler` bound each let an illegitimate use through. -/
def looseBounds2 : ApiEntry → List Bound := fun e =>
  if e = .brokerAddrPublish ∨ e = .spawnOnStream then [] else required e
def badUse2 : Use :=
  { entry := .brokerAddrPublish, actor := { handles := [], restartable := false, hasDefault := false, streamItems := [] },
    msg := { id := 2, unitResponse := false }, item := 0, state := .restartOnly }
def badUse3 : Use :=
  { entry := .spawnOnStream, actor := { handles := [1], restartable := false, hasDefault := true, streamItems := [] },
    msg := { id := 1, unitResponse := true }, item := 10, state := .restartOnly }
example : accepts looseBounds2 badUse2 = true ∧ accepts looseBounds2 badUse3 = true := by decide
example : ¬ Legit badUse2 := by unfold Legit; decide
example : ¬ Legit badUse3 := by unfold Legit; decide
example : accepts required badUse2 = false ∧ accepts required badUse3 = false := by decide

end Hannibal
