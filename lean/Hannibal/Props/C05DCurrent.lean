import Hannibal.Props.C05D
import Hannibal.Props.C05Current
/- C05, drain completeness for dropped calls, for the wiring extracted from today's source. -/
namespace Hannibal

theorem C05d_current (c : MonCtx) (ls : List Label) (s : AState)
    (hr : drun Wiring.current (AState.init c.cfg c.h0 c.k0) ls = some s) (hwf : wf01 ls = true) :
    (monC05d c).ok ls = true :=
  C05d_holds _ wellWired05_current c ls s hr hwf

/-- the example trace (a call submitted while the actor is busy, its future dropped, the last strong handle
    dropped; the message is still handled, then the actor stops gracefully and is quiescent) is a `drun` of the
    model, hence a guarded run and a run -/
example : (drun Wiring.current (AState.init c05Cfg 0 .addr) c05dExample).isSome = true := by decide
example : (grun Wiring.current (AState.init c05Cfg 0 .addr) c05dExample).isSome = true := by decide
example : (run Wiring.current (AState.init c05Cfg 0 .addr) c05dExample).isSome = true := by decide

/-- why the guard `cdropOk` of `dstep` is needed: the model (`grun`, `run`) lets a client drop the future of a call
    whose submission failed.  Here the actor has drained and stopped because no strong holder is left; a
    `try_call` through a weak caller fails at its upgrade (`failed alreadyStopped`: nothing was submitted), and its
    future is dropped instead of being polled to `Err(AlreadyStopped)`.  The monitor files message 5 as the message
    of a dropped call that must be handled, and rejects at quiescence.  `drun` refuses the `cdrop`. -/
def c05dGuardWitness : List Label :=
  [ .cbBegin .started, .cbEnd .started true, .mk 0 1 .weakCaller, .drop 0,
    .tChanEnd, .cbBegin .stopped, .cbEnd .stopped true, .taskDone,
    .begin 0 1 (.tryCall 5), .cdrop 0, .quiescent [] ]
example : (grun Wiring.current (AState.init c05Cfg 0 .addr) c05dGuardWitness).isSome = true := by decide
example : (run Wiring.current (AState.init c05Cfg 0 .addr) c05dGuardWitness).isSome = true := by decide
example : wf01 c05dGuardWitness = true := by decide
example : (monC05d c05Ctx).ok c05dGuardWitness = false := by decide
example : (drun Wiring.current (AState.init c05Cfg 0 .addr) c05dGuardWitness).isSome = false := by decide
/-- what a client that polls the future sees instead: the error, and the monitor accepts -/
example : (drun Wiring.current (AState.init c05Cfg 0 .addr)
    (c05dGuardWitness.take 9 ++ [ .ret 0 (.err .alreadyStopped), .quiescent [] ])).isSome = true
  ∧ (monC05d c05Ctx).ok (c05dGuardWitness.take 9 ++ [ .ret 0 (.err .alreadyStopped), .quiescent [] ]) = true := by
  decide

/-- a call to a mailbox that is already closed fails at its submission (`failed send`); dropping its future is
    also refused by `drun`, but harmless for the monitor: a strong handle to a closed mailbox exists only after a
    stop or a failure, which excuses clause (q), and nothing is handled any more, so clause (f) cannot fire -/
def c05dClosedWitness : List Label :=
  [ .cbBegin .started, .cbEnd .started true, .stopReq 0 true, .tDeq, .cbBegin .stopped, .cbEnd .stopped true,
    .taskDone, .begin 0 0 (.call 5), .cdrop 0, .quiescent [] ]
example : (grun Wiring.current (AState.init c05Cfg 0 .addr) c05dClosedWitness).isSome = true := by decide
example : (drun Wiring.current (AState.init c05Cfg 0 .addr) c05dClosedWitness).isSome = false := by decide
example : (monC05d c05Ctx).ok c05dClosedWitness = true := by decide

/-- why `wf01` is a hypothesis: the monitor identifies submissions by their message numbers.  Here number 5 is
    used twice; the second 5 is submitted after the call's message 7, but the monitor, looking for "5" in its
    submission order, takes the already handled first 5 for a message submitted after 7 and rejects the drop. -/
def c05dReuseWitness : List Label :=
  [ .cbBegin .started, .cbEnd .started true, .begin 0 0 (.send 5), .cbBegin (.handle 5), .cbEnd (.handle 5) true,
    .begin 1 0 (.call 7), .begin 2 0 (.send 5), .cdrop 1 ]
example : (drun Wiring.current (AState.init c05Cfg 0 .addr) c05dReuseWitness).isSome = true := by decide
example : (monC05d c05Ctx).ok c05dReuseWitness = false := by decide
example : wf01 c05dReuseWitness = false := by decide

/-- why the wiring hypothesis is needed for clause (q): if `Addr` owned no channel closure the loop would leave
    (`tChanEnd`: no sender alive) while an `Addr` exists; a call submitted through it afterwards is accepted by the
    still open mailbox and dropped with it at the end of the task -/
def Wiring.addrOwnsNothing05d : Wiring := { Wiring.current with holds := fun k => match k with
  | .addr => [] | k => Wiring.current.holds k }
example : WellWired05 Wiring.addrOwnsNothing05d = False := by simp; decide
def c05dWiringWitness : List Label :=
  [ .cbBegin .started, .cbEnd .started true, .tChanEnd, .begin 0 0 (.call 5), .cdrop 0, .drop 0,
    .cbBegin .stopped, .cbEnd .stopped true, .taskDone, .quiescent [] ]
example : (drun Wiring.addrOwnsNothing05d (AState.init c05Cfg 0 .addr) c05dWiringWitness).isSome = true := by decide
example : wf01 c05dWiringWitness = true := by decide
example : (monC05d c05Ctx).ok c05dWiringWitness = false := by decide
/-- clause (f) does not depend on the wiring -/
example : (monC05df c05Ctx).ok c05dWiringWitness = true := by decide

end Hannibal
