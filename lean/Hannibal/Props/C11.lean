import Hannibal.Proofs.Latch
import Hannibal.Proofs.Run
import Hannibal.Props.C04
import Hannibal.Monitor.C11
/-
  C11 (who may be abandoned, and when): every run of the actor model is accepted by `monC11`.
  No wiring hypothesis: the deadline is part of the loop model (`timeout_fut`).
-/
namespace Hannibal
open AState

def curOk (cur : Option (Nat × Nat)) (tmo : Option Nat) : Phase → Bool
  | .handling (.handle m) _ dl =>
    (match cur with
     | some (m', b) => m' == m && dl == tmo.map (fun t => b + t)
     | none => false)
  | .handling _ _ dl => dl == none
  | _ => true

def cbPhase : Phase → Bool
  | .starting | .handling _ _ _ | .rstStopping | .finishing | .stopping => true
  | _ => false

structure C11Inv (c : MonCtx) (s : AState) (σ : C11St) : Prop where
  cfg : s.cfg = c.cfg
  clock : σ.clock = s.clock
  cur : curOk σ.cur (tmoOf c.cfg) s.phase = true
  after : σ.afterAbandon = true → cbPhase s.phase = false
  dead : σ.dead = true → failing s.phase = true
  canc : s.abandon.isSome = true → σ.cancelled = true

set_option maxHeartbeats 4000000 in
theorem c11_step (w : Wiring) (c : MonCtx) {s s' : AState} {σ : C11St} {l : Label}
    (hi : C11Inv c s σ) (hs : step w s l = some s') :
    bad11 c σ l = false ∧ C11Inv c s' (next11 c σ l) := by
  obtain ⟨hcfg, hclock, hcur, hafter, hdead, hcanc⟩ := hi
  cases l
  case cbAbandon cb =>
    simp only [step, stepCbAbandon] at hs
    cases hp : s.phase <;> simp only [hp] at hs
    case handling cb' slot dl =>
      cases dl with
      | none => simp at hs
      | some d =>
        simp only at hs
        split at hs
        · rename_i hc
          simp at hc
          obtain ⟨rfl, hdl⟩ := hc
          rw [hp] at hcur
          -- only a handler invocation carries a deadline, and it is begin + t
          cases cb with
          | handle m =>
            cases hcu : σ.cur with
            | none => simp [curOk, hcu] at hcur
            | some mb =>
              obtain ⟨m', b⟩ := mb
              simp [curOk, hcu] at hcur
              obtain ⟨rfl, hdl'⟩ := hcur
              cases ht : tmoOf c.cfg with
              | none => simp [ht] at hdl'
              | some t =>
                simp [ht] at hdl'
                subst hdl'
                have hdead' : σ.dead = false := by
                  cases hd : σ.dead
                  · rfl
                  · have := hdead hd; simp [hp, failing] at this
                split at hs <;> simp at hs <;> subst hs
                all_goals
                  (refine ⟨?_, ⟨?_, ?_, ?_, ?_, ?_, ?_⟩⟩ <;>
                    (try simp_all [bad11, next11, curOk, cbPhase, failing, cancelSlots]) <;> (try omega))
                all_goals (cases hcc : σ.cancelled <;> simp_all [cbPhase, failing])
          | started | item | finished | stopped => simp [curOk] at hcur
        · simp at hs
    case done g =>
      cases g <;> simp at hs
      obtain ⟨hab, rfl⟩ := hs
      have hc : σ.cancelled = true := hcanc (by simp [hab])
      refine ⟨by simp [bad11, hc], ⟨hcfg, ?_, ?_, ?_, ?_, ?_⟩⟩ <;>
        simp_all [next11, curOk, cbPhase, failing]
    all_goals simp at hs
  all_goals unfold_steps hs
  all_goals
    ((repeat' (split at hs)) <;>
     (first
       | (simp at hs; done)
       | (simp at hs; subst hs
          refine ⟨?_, ⟨?_, ?_, ?_, ?_, ?_, ?_⟩⟩ <;>
            (try simp_all [bad11, next11, curOk, cbPhase, failing, tmoOf, inCallback, deadlineAt, fail, finish,
              cancelSlots, killTimers, setTimer, addOp, removeOp, removeHandle, push, answer]) <;>
            (try omega)
          done)
       | (simp at hs; subst hs
          cases hp : s.phase <;>
            (refine ⟨?_, ⟨?_, ?_, ?_, ?_, ?_, ?_⟩⟩ <;>
              (try simp_all [bad11, next11, curOk, cbPhase, failing, tmoOf, inCallback, deadlineAt, fail, finish,
                cancelSlots, killTimers, openCb, curSlot, isDone]) <;>
              (try omega))
          done)
       | (simp at hs; subst hs
          unfold answer
          split <;>
            (refine ⟨?_, ⟨?_, ?_, ?_, ?_, ?_, ?_⟩⟩ <;>
              (try simp_all [bad11, next11, curOk, cbPhase, failing, tmoOf]) <;> (try omega))
          done)
       | (simp at hs; subst hs
          cases hp : s.phase <;> cases hc : σ.cur <;> cases ht : c.cfg.timeout <;> cases hst : c.cfg.stream <;>
            (refine ⟨?_, ⟨?_, ?_, ?_, ?_, ?_, ?_⟩⟩ <;>
              (try simp_all [bad11, next11, curOk, cbPhase, failing, tmoOf, inCallback, deadlineAt, fail, finish,
                cancelSlots, killTimers, openCb, curSlot, isDone, push]) <;>
              (try omega))
          done)))

end Hannibal

namespace Hannibal
open AState

theorem c11_init (c : MonCtx) : C11Inv c (AState.init c.cfg c.h0 c.k0) (monC11 c).init := by
  refine ⟨rfl, rfl, ?_, ?_, ?_, ?_⟩ <;> simp [monC11, AState.init, curOk]

/-- **C11 (who may be abandoned, and when).** For all timeout values, handler durations, message
    sequences, both mailbox kinds, fail_on_timeout on or off: an invocation is abandoned only with a
    configured timeout t (never on stream-attached actors), only a handler invocation, never before
    begin + t on the virtual clock; afterwards it produces no context effects; with fail_on_timeout no
    callback ever begins again; without a configured timeout nothing is ever abandoned. -/
theorem C11_holds (w : Wiring) (c : MonCtx) (ls : List Label) (s : AState)
    (hr : run w (AState.init c.cfg c.h0 c.k0) ls = some s) : (monC11 c).ok ls = true :=
  ok_of_run_lift (monC11 c) w (C11Inv c)
    (fun s s' σ l hi hs => by
      obtain ⟨hb, hi'⟩ := c11_step w c hi hs
      exact ⟨next11 c σ l, by simp [monC11, hb], hi'⟩)
    _ (c11_init c) ls s hr

/-- Non-vacuity: a slow invocation is abandoned at begin + t, the next message is still handled;
    abandoning earlier is flagged. -/
def c11Cfg : Cfg := { cap := none, strat := .only, timeout := some 5, failOnTimeout := false, stream := false }
def c11Ctx : MonCtx := { cfg := c11Cfg, h0 := 0, k0 := .addr, prompt := true }
def c11Example : List Label :=
  [ .cbBegin .started, .cbEnd .started true, .begin 0 0 (.call 1), .begin 1 0 (.send 2), .cbBegin (.handle 1),
    .work 9, .time 5, .cbAbandon (.handle 1), .ret 0 (.err .canceled), .cbBegin (.handle 2),
    .cbEnd (.handle 2) true ]
example : (monC11 c11Ctx).ok c11Example = true := by decide
example : (monC11 c11Ctx).ok [ .cbBegin .started, .cbEnd .started true, .begin 0 0 (.call 1),
    .cbBegin (.handle 1), .work 9, .time 4, .cbAbandon (.handle 1) ] = false := by decide

end Hannibal
