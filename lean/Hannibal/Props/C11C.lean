import Hannibal.Monitor.C11
import Hannibal.Proofs.C11CQueue
import Hannibal.Props.C01
/-
  C11c (the caller of an abandoned invocation receives an error): every run of the actor model whose
  labels use fresh message numbers and fresh operation ids (`wf01`, the hypothesis of C01) is accepted by
  `monC11c`, the third clause of `monC11p`.

  Why: a call operation `o` submits `msg m (some o)`; as long as message numbers are fresh this is the only
  mailbox entry that ever carries `m`, so the invocation `handling (handle m) slot _` that is abandoned has
  `slot = some o` (unless the submission was refused: the operation failed at once).  `stepCbAbandon` cancels
  that slot; the operation cannot have been answered before (C01: the reply of `m` is produced at the end of
  its handler, which has not ended), and a status other than `pending` never changes.  `retExpect` of a
  call that is `cancelled` / `failed` is an error.
-/
namespace Hannibal
open AState

/-! ### the monitor -/

theorem monC11c_step (c : MonCtx) (σ : C11cSt) (l : Label) :
    (monC11c c).step σ l = if bad11c σ l then none else some (next11c σ l) := rfl

theorem next11c_ops_of_not_begin {σ : C11cSt} {l : Label} (h : ∀ o h k, l ≠ .begin o h k) :
    (next11c σ l).ops = σ.ops := by
  cases l <;> try rfl
  case begin => exact absurd rfl (h _ _ _)
  case cbAbandon cb =>
    cases cb <;> try rfl
    simp only [next11c]; split <;> rfl

theorem next11c_abandoned {σ : C11cSt} {l : Label} (h : ∀ m, l ≠ .cbAbandon (.handle m)) :
    (next11c σ l).abandoned = σ.abandoned := by
  cases l <;> try rfl
  case begin o h' k => simp only [next11c]; cases callMsg11c k <;> rfl
  case cbAbandon cb => cases cb <;> first | rfl | exact absurd rfl (h _)

theorem next11c_cancelled {σ : C11cSt} {l : Label} (h : l ≠ .cancel) :
    (next11c σ l).cancelled = σ.cancelled := by
  cases l <;> try rfl
  case begin o h' k => simp only [next11c]; cases callMsg11c k <;> rfl
  case cbAbandon cb =>
    cases cb <;> try rfl
    simp only [next11c]; split <;> rfl
  case cancel => exact absurd rfl h

/-! ### `monC11c` is at least as strict as the third clause of `monC11p`

  Run both monitors side by side: they keep the same operation table and `cancelled` flag, and whatever
  `monC11p` calls abandoned `monC11c` calls abandoned too; so a `ret` that `monC11p` rejects is rejected
  by `monC11c`.  (The other rejections of `monC11p` — at `cbEnd` / `cbAbandon` — are its timing clauses.) -/

def Rel11c (σ : C11cSt) (π : C11pSt) : Prop :=
  σ.ops = π.ops ∧ σ.cancelled = π.cancelled ∧ ∀ m ∈ π.abandoned, m ∈ σ.abandoned

theorem callMsg11c_eq (k : OpKind) :
    callMsg11c k = (match k.isCall, k.msg? with | true, some m => some m | _, _ => none) := by
  cases k <;> rfl

theorem c11c_covers_init (c : MonCtx) : Rel11c (monC11c c).init (monC11p c).init := by
  simp [Rel11c, monC11c, monC11p]

/-- the two monitors stay related as long as `monC11p` does not reject -/
theorem c11c_covers_next (c : MonCtx) {σ : C11cSt} {π π' : C11pSt} {l : Label} (h : Rel11c σ π)
    (hp : (monC11p c).step π l = some π') : Rel11c (next11c σ l) π' := by
  obtain ⟨h1, h2, h3⟩ := h
  cases l <;> simp only [monC11p] at hp <;> simp only [next11c]
  case begin o hh k =>
    cases k <;> simp [OpKind.isCall, OpKind.msg?] at hp <;> subst hp <;>
      simp [callMsg11c, Rel11c, h1, h2] <;> exact h3
  case ret o r =>
    cases hl : lookup o π.ops <;> simp only [hl] at hp
    · simp at hp; subst hp; exact ⟨h1, h2, h3⟩
    · split at hp <;> simp at hp; subst hp; exact ⟨h1, h2, h3⟩
  case cbBegin cb =>
    cases cb <;> simp at hp <;> subst hp <;> exact ⟨h1, h2, h3⟩
  case work d =>
    cases hc : π.cur with
    | none => simp [hc] at hp; subst hp; exact ⟨h1, h2, h3⟩
    | some x => obtain ⟨m, b, w⟩ := x; simp [hc] at hp; subst hp; exact ⟨h1, h2, h3⟩
  case cbEnd cb ok =>
    cases cb <;> simp at hp <;> (try (subst hp; exact ⟨h1, h2, h3⟩))
    (repeat' (split at hp)) <;> simp at hp <;> (first | subst hp | (obtain ⟨_, rfl⟩ := hp)) <;>
      exact ⟨h1, h2, h3⟩
  case cbAbandon cb =>
    cases cb <;> simp at hp <;> (try (subst hp; exact ⟨h1, h2, h3⟩))
    rename_i m
    by_cases hc : π.cancelled = true
    · simp [hc] at hp; subst hp
      simp [h2, hc]; exact ⟨h1, by simp [h2, hc], h3⟩
    · simp [hc] at hp
      have hc' : σ.cancelled = false := by rw [h2]; simpa using hc
      dsimp only
      rw [if_neg (by simp [hc'])]
      (repeat' (split at hp)) <;> simp at hp <;> (first | subst hp | (obtain ⟨_, rfl⟩ := hp)) <;>
        refine ⟨h1, by simp_all, ?_⟩ <;> intro x hx <;> simp at hx ⊢
      all_goals first
        | (rcases hx with rfl | hx; exact .inl rfl; exact .inr (h3 x hx))
        | exact .inr (h3 x hx)
  case time t => simp at hp; subst hp; exact ⟨h1, h2, h3⟩
  case cancel => simp at hp; subst hp; exact ⟨h1, by simp, h3⟩
  all_goals (simp at hp; subst hp; exact ⟨h1, h2, h3⟩)

/-- a `ret` rejected by `monC11p` is rejected by `monC11c` -/
theorem c11c_covers_ret (c : MonCtx) {σ : C11cSt} {π : C11pSt} {o : Nat} {r : Res} (h : Rel11c σ π)
    (hp : (monC11p c).step π (.ret o r) = none) : bad11c σ (.ret o r) = true := by
  obtain ⟨h1, h2, h3⟩ := h
  simp only [monC11p] at hp
  simp only [bad11c, h1]
  cases hl : lookup o π.ops <;> simp only [hl] at hp
  · simp at hp
  · rename_i m
    split at hp
    · rename_i hc
      simp at hc ⊢
      exact ⟨h3 m hc.1, hc.2⟩
    · simp at hp

/-! ### model facts -/

/-- statuses other than `pending` / `answered`: they never change, and a call operation in one of them
    can only return an error -/
def errLike11c : OpSt → Bool
  | .pending | .answered _ => false
  | _ => true

theorem errLike11c_not_pending {st : OpSt} (h : errLike11c st = true) : st ≠ .pending := by
  intro he; subst he; simp [errLike11c] at h

theorem retExpect_err11c {s : AState} {rec : OpRec} {m : Nat} {r : Res} (hk : callMsg11c rec.kind = some m)
    (he : errLike11c rec.st = true) (h : s.retExpect rec = some r) : r.isErr = true := by
  unfold retExpect at h
  cases hst : rec.st <;> simp only [hst] at h he
  case pending => simp [errLike11c] at he
  case answered => simp [errLike11c] at he
  case failed e => simp at h; subst h; rfl
  case joining =>
    split at h
    · cases hkk : rec.kind <;> simp [hkk, callMsg11c] at hk <;> simp [hkk] at h
    · simp at h
  all_goals (cases hkk : rec.kind <;> simp [hkk, callMsg11c] at hk <;> simp [hkk] at h <;> subst h <;> rfl)

/-! ### the invariant -/

/-- every recorded call operation carries a message number that was seen -/
def Seen11c (s : AState) (g : Wf01St) : Prop :=
  ∀ rec ∈ s.ops, ∀ m, callMsg11c rec.kind = some m → m ∈ g.seenM

/-- the message `m` (waiting with reply slot `slot`, or being handled with it) was seen, and a call
    operation that submitted `m` is the owner of that slot unless it is past answering -/
def Own11c (s : AState) (g : Wf01St) (m : Nat) (slot : Option Nat) : Prop :=
  m ∈ g.seenM ∧ ∀ rec ∈ s.ops, callMsg11c rec.kind = some m → errLike11c rec.st = true ∨ slot = some rec.o

theorem wfBad_begin_msg11c {g : Wf01St} {o h : Nat} {k : OpKind} {m : Nat}
    (hg : wfBad g (.begin o h k) = false) (hk : k.msg? = some m) : m ∉ g.seenM := by
  simp only [wfBad, Bool.or_eq_false_iff, hk] at hg
  simpa using hg.2

theorem new11c_fresh {g : Wf01St} {l : Label} {x : Nat × Option Nat} (hn : New11c l x)
    (hg : wfBad g l = false) : x.1 ∉ g.seenM ∧ x.1 ∈ (wfNext g l).seenM := by
  cases l <;> simp only [New11c] at hn <;> try exact absurd hn id
  case begin o h k =>
    exact ⟨wfBad_begin_msg11c hg hn.1, by simp [wfNext, hn.1]⟩
  case fire t mo =>
    subst hn
    exact ⟨by simpa [wfBad] using hg, by simp [wfNext]⟩
  case tickBegin t m =>
    subst hn
    exact ⟨by simpa [wfBad] using hg, by simp [wfNext]⟩
  case extBegin b m =>
    subst hn
    exact ⟨by simpa [wfBad] using hg, by simp [wfNext]⟩

theorem seen11c_step {w s l s'} {g : Wf01St} (hi : Seen11c s g) (hs : step w s l = some s') :
    Seen11c s' (wfNext g l) := by
  intro rec' hrec' m hm
  by_cases hedge : l.isOpEdge = true
  · cases l <;> simp [Label.isOpEdge] at hedge
    case begin o h k =>
      simp only [step] at hs
      obtain ⟨_, st, hops⟩ := stepBegin_ops hs
      rw [hops] at hrec'
      rcases List.mem_append.mp hrec' with hrec' | hrec'
      · exact wf_seenM_mono g _ m (hi rec' hrec' m hm)
      · simp at hrec'; subst hrec'
        simp [wfNext, callMsg11c_msg hm]
    case ret o r =>
      simp only [step] at hs
      obtain ⟨_, _, _, hops, _⟩ := stepRet_ops hs
      rw [hops] at hrec'
      exact wf_seenM_mono g _ m (hi rec' (List.mem_filter.mp hrec').1 m hm)
    case cdrop o =>
      simp only [step] at hs
      have hops := stepCdrop_ops hs
      rw [hops] at hrec'
      exact wf_seenM_mono g _ m (hi rec' (List.mem_filter.mp hrec').1 m hm)
  · obtain ⟨f, hf, pf⟩ := step_ops hs (by simpa using hedge)
    rw [hf] at hrec'
    obtain ⟨r, hr, rfl⟩ := List.mem_map.mp hrec'
    rw [pf.kind] at hm
    exact wf_seenM_mono g _ m (hi r hr m hm)

/-- ownership of a slot is kept by every step -/
theorem own11c_step {w s l s'} {g : Wf01St} {m : Nat} {slot : Option Nat} (hi : Own11c s g m slot)
    (hs : step w s l = some s') (hg : wfBad g l = false) : Own11c s' (wfNext g l) m slot := by
  refine ⟨wf_seenM_mono g l m hi.1, ?_⟩
  intro rec' hrec' hm
  by_cases hedge : l.isOpEdge = true
  · cases l <;> simp [Label.isOpEdge] at hedge
    case begin o h k =>
      simp only [step] at hs
      obtain ⟨_, st, hops⟩ := stepBegin_ops hs
      rw [hops] at hrec'
      rcases List.mem_append.mp hrec' with hrec' | hrec'
      · exact hi.2 rec' hrec' hm
      · simp at hrec'; subst hrec'
        exact absurd hi.1 (wfBad_begin_msg11c hg (callMsg11c_msg hm))
    case ret o r =>
      simp only [step] at hs
      obtain ⟨_, _, _, hops, _⟩ := stepRet_ops hs
      rw [hops] at hrec'
      exact hi.2 rec' (List.mem_filter.mp hrec').1 hm
    case cdrop o =>
      simp only [step] at hs
      have hops := stepCdrop_ops hs
      rw [hops] at hrec'
      exact hi.2 rec' (List.mem_filter.mp hrec').1 hm
  · obtain ⟨f, hf, pf⟩ := step_ops hs (by simpa using hedge)
    rw [hf] at hrec'
    obtain ⟨r, hr, rfl⟩ := List.mem_map.mp hrec'
    rw [pf.kind] at hm
    rw [pf.o]
    rcases hi.2 r hr hm with he | he
    · left; rw [pf.keep r (errLike11c_not_pending he)]; exact he
    · exact .inr he

/-- a freshly named message that enters the mailbox is owned by the call that submitted it -/
theorem own11c_new {w s l s'} {g : Wf01St} {x : Nat × Option Nat} (hn : New11c l x) (hseen : Seen11c s g)
    (hs : step w s l = some s') (hg : wfBad g l = false) : Own11c s' (wfNext g l) x.1 x.2 := by
  obtain ⟨hfresh, hin⟩ := new11c_fresh hn hg
  refine ⟨hin, ?_⟩
  intro rec' hrec' hm
  by_cases hedge : l.isOpEdge = true
  · cases l <;> simp [Label.isOpEdge] at hedge
    case begin o h k =>
      simp only [New11c] at hn
      simp only [step] at hs
      obtain ⟨_, st, hops⟩ := stepBegin_ops hs
      rw [hops] at hrec'
      rcases List.mem_append.mp hrec' with hrec' | hrec'
      · exact absurd (hseen rec' hrec' _ hm) hfresh
      · simp at hrec'; subst hrec'
        exact .inr (hn.2 hm)
    case ret o r => exact absurd hn (by simp [New11c])
    case cdrop o => exact absurd hn (by simp [New11c])
  · obtain ⟨f, hf, pf⟩ := step_ops hs (by simpa using hedge)
    rw [hf] at hrec'
    obtain ⟨r, hr, rfl⟩ := List.mem_map.mp hrec'
    rw [pf.kind] at hm
    exact absurd (hseen r hr _ hm) hfresh

structure Inv11c (s : AState) (σ : C11cSt) (g : Wf01St) : Prop where
  /-- the invariant of C01 (for some state of its monitor): a reply is produced at the end of its handler -/
  c01 : ∃ σ1 : C01St, C01Inv s σ1 g
  tbl : ∀ rec ∈ s.ops, lookup rec.o σ.ops = callMsg11c rec.kind
  fresh : ∀ o, o ∉ g.seenO → lookup o σ.ops = none
  seen : Seen11c s g
  abseen : ∀ m ∈ σ.abandoned, m ∈ g.seenM
  /-- the clause: the call that submitted an abandoned message is past answering -/
  abn : ∀ rec ∈ s.ops, ∀ m, callMsg11c rec.kind = some m → m ∈ σ.abandoned → errLike11c rec.st = true
  cur : ∀ m slot dl, s.phase = .handling (.handle m) slot dl → Own11c s g m slot
  que : ∀ x ∈ qms11c s.chan, Own11c s g x.1 x.2
  canc : σ.cancelled = false → s.abandon = none

/-! ### one step -/

theorem tbl11c_step {w s l s'} {σ : C11cSt} {g : Wf01St} (hi : Inv11c s σ g) (hs : step w s l = some s')
    (hg : wfBad g l = false) :
    (∀ rec ∈ s'.ops, lookup rec.o (next11c σ l).ops = callMsg11c rec.kind) ∧
      (∀ o, o ∉ (wfNext g l).seenO → lookup o (next11c σ l).ops = none) := by
  by_cases hedge : l.isOpEdge = true
  · cases l <;> simp [Label.isOpEdge] at hedge
    case begin o h k =>
      simp only [step] at hs
      obtain ⟨hfresh, st, hops⟩ := stepBegin_ops hs
      have ho : o ∉ g.seenO := by
        simp only [wfBad, Bool.or_eq_false_iff] at hg; simpa using hg.1
      have hne := findOp_none hfresh
      simp only [next11c, wfNext]
      cases hk : callMsg11c k with
      | none =>
        refine ⟨?_, ?_⟩
        · intro rec hrec
          rw [hops] at hrec
          rcases List.mem_append.mp hrec with hrec | hrec
          · exact hi.tbl rec hrec
          · simp at hrec; subst hrec
            simp only [hk]
            exact hi.fresh o ho
        · intro o' ho'
          exact hi.fresh o' (fun hh => ho' (List.mem_cons_of_mem _ hh))
      | some m =>
        refine ⟨?_, ?_⟩
        · intro rec hrec
          rw [hops] at hrec
          rcases List.mem_append.mp hrec with hrec | hrec
          · simp only
            rw [lookup_cons_other _ _ (fun he => hne rec hrec he.symm)]
            exact hi.tbl rec hrec
          · simp at hrec; subst hrec
            simp only [hk]
            exact lookup_cons_self _ _ _
        · intro o' ho'
          have : o ≠ o' := fun he => ho' (by simp [he])
          simp only
          rw [lookup_cons_other _ _ this]
          exact hi.fresh o' (fun hh => ho' (List.mem_cons_of_mem _ hh))
    case ret o r =>
      simp only [step] at hs
      obtain ⟨_, _, _, hops, _⟩ := stepRet_ops hs
      refine ⟨?_, hi.fresh⟩
      intro rec hrec
      rw [hops] at hrec
      exact hi.tbl rec (List.mem_filter.mp hrec).1
    case cdrop o =>
      simp only [step] at hs
      have hops := stepCdrop_ops hs
      refine ⟨?_, hi.fresh⟩
      intro rec hrec
      rw [hops] at hrec
      exact hi.tbl rec (List.mem_filter.mp hrec).1
  · have hedge' : l.isOpEdge = false := by simpa using hedge
    have hnb : ∀ o h k, l ≠ .begin o h k := by
      intro o h k he; subst he; simp [Label.isOpEdge] at hedge'
    obtain ⟨f, hf, pf⟩ := step_ops hs hedge'
    rw [next11c_ops_of_not_begin hnb]
    refine ⟨?_, ?_⟩
    · intro rec hrec
      rw [hf] at hrec
      obtain ⟨r, hr, rfl⟩ := List.mem_map.mp hrec
      rw [pf.o, pf.kind]; exact hi.tbl r hr
    · intro o ho
      rw [wfNext_seenO_of_not_begin hnb] at ho
      exact hi.fresh o ho

/-- while `handle m` is open, the call that submitted `m` has not been answered (C01: the reply is
    produced when the handler ends) -/
theorem not_answered11c {s : AState} {σ1 : C01St} {g : Wf01St} (h01 : C01Inv s σ1 g) {m : Nat}
    {slot dl : Option Nat} (hp : s.phase = .handling (.handle m) slot dl) {rec : OpRec} (hrec : rec ∈ s.ops)
    (hm : callMsg11c rec.kind = some m) (rep : Reply) : rec.st ≠ .answered rep := by
  intro hst
  have h1 := (h01.ans.ans rec hrec rep hst m (callMsg11c_msg hm)).2
  have h2 := (h01.ans.cur m slot dl hp).2.1
  rw [h2] at h1; simp at h1

theorem abn11c_keep {s s' : AState} {A : List Nat}
    (hi : ∀ rec ∈ s.ops, ∀ m, callMsg11c rec.kind = some m → m ∈ A → errLike11c rec.st = true)
    (hm : OpsMap s s') :
    ∀ rec ∈ s'.ops, ∀ m, callMsg11c rec.kind = some m → m ∈ A → errLike11c rec.st = true := by
  obtain ⟨f, hf, pf⟩ := hm
  intro rec' hrec' m hk hin
  rw [hf] at hrec'
  obtain ⟨r, hr, rfl⟩ := List.mem_map.mp hrec'
  rw [pf.kind] at hk
  have he := hi r hr m hk hin
  rw [pf.keep r (errLike11c_not_pending he)]; exact he

/-- the clause itself: abandoning `handle m` cancels the reply slot of the call that submitted `m` -/
theorem abn11c_step {w s l s'} {σ : C11cSt} {g : Wf01St} (hi : Inv11c s σ g) (hs : step w s l = some s')
    (hg : wfBad g l = false) :
    ∀ rec ∈ s'.ops, ∀ m, callMsg11c rec.kind = some m → m ∈ (next11c σ l).abandoned →
      errLike11c rec.st = true := by
  by_cases hab : ∃ m0, l = .cbAbandon (.handle m0) ∧ σ.cancelled = false
  · obtain ⟨m0, rfl, hc⟩ := hab
    obtain ⟨σ1, h01⟩ := hi.c01
    simp only [step] at hs
    have hnone := hi.canc hc
    rcases stepCbAbandon_spec11c hs with ⟨slot, dl, slots, hp, hmem, hops⟩ | ⟨habn, _⟩
    · intro rec' hrec' m hk hin
      simp only [next11c, hc] at hin
      rw [hops, cancelSlots_ops11c] at hrec'
      obtain ⟨r, hr, rfl⟩ := List.mem_map.mp hrec'
      rw [cancelRec11c_kind] at hk
      have hold : errLike11c r.st = true → errLike11c (cancelRec11c slots r).st = true := by
        intro he
        rw [cancelRec11c_keep _ (errLike11c_not_pending he)]; exact he
      rcases List.mem_cons.mp (by simpa using hin) with rfl | hin
      · rcases (hi.cur m slot (some dl) hp).2 r hr hk with he | hsl
        · exact hold he
        · have hro := hmem r.o hsl
          cases hst : r.st with
          | pending => rw [cancelRec11c_pending hst hro]; rfl
          | answered rep => exact absurd hst (not_answered11c h01 hp hr hk rep)
          | _ => exact hold (by rw [hst]; rfl)
      · exact hold (hi.abn r hr m hk hin)
    · rw [hnone] at habn; simp at habn
  · have hsame : (next11c σ l).abandoned = σ.abandoned := by
      by_cases hl : ∃ m0, l = .cbAbandon (.handle m0)
      · obtain ⟨m0, rfl⟩ := hl
        have hc : σ.cancelled = true := by
          cases hcc : σ.cancelled
          · exact absurd ⟨m0, rfl, hcc⟩ hab
          · rfl
        simp [next11c, hc]
      · exact next11c_abandoned (fun m0 he => hl ⟨m0, he⟩)
    rw [hsame]
    by_cases hedge : l.isOpEdge = true
    · cases l <;> simp [Label.isOpEdge] at hedge
      case begin o h k =>
        simp only [step] at hs
        obtain ⟨_, st, hops⟩ := stepBegin_ops hs
        intro rec' hrec' m hk hin
        rw [hops] at hrec'
        rcases List.mem_append.mp hrec' with hrec' | hrec'
        · exact hi.abn rec' hrec' m hk hin
        · simp at hrec'; subst hrec'
          exact absurd (hi.abseen m hin) (wfBad_begin_msg11c hg (callMsg11c_msg hk))
      case ret o r =>
        simp only [step] at hs
        obtain ⟨_, _, _, hops, _⟩ := stepRet_ops hs
        intro rec' hrec' m hk hin
        rw [hops] at hrec'
        exact hi.abn rec' (List.mem_filter.mp hrec').1 m hk hin
      case cdrop o =>
        simp only [step] at hs
        have hops := stepCdrop_ops hs
        intro rec' hrec' m hk hin
        rw [hops] at hrec'
        exact hi.abn rec' (List.mem_filter.mp hrec').1 m hk hin
    · exact abn11c_keep hi.abn (step_ops hs (by simpa using hedge))

theorem abseen11c_step {w s l s'} {σ : C11cSt} {g : Wf01St} (hi : Inv11c s σ g) (hs : step w s l = some s') :
    ∀ m ∈ (next11c σ l).abandoned, m ∈ (wfNext g l).seenM := by
  intro m hm
  by_cases hl : ∃ m0, l = .cbAbandon (.handle m0)
  · obtain ⟨m0, rfl⟩ := hl
    cases hc : σ.cancelled with
    | true =>
      simp [next11c, hc] at hm
      exact wf_seenM_mono g _ m (hi.abseen m hm)
    | false =>
      simp only [next11c, hc] at hm
      rcases List.mem_cons.mp (by simpa using hm) with rfl | hm
      · simp only [step] at hs
        rcases stepCbAbandon_spec11c hs with ⟨slot, dl, _, hp, _⟩ | ⟨habn, _⟩
        · exact wf_seenM_mono g _ m (hi.cur m slot (some dl) hp).1
        · rw [hi.canc hc] at habn; simp at habn
      · exact wf_seenM_mono g _ m (hi.abseen m hm)
  · rw [next11c_abandoned (fun m0 he => hl ⟨m0, he⟩)] at hm
    exact wf_seenM_mono g _ m (hi.abseen m hm)

theorem cur11c_step {w s l s'} {σ : C11cSt} {g : Wf01St} (hi : Inv11c s σ g) (hs : step w s l = some s')
    (hg : wfBad g l = false) :
    ∀ m slot dl, s'.phase = .handling (.handle m) slot dl → Own11c s' (wfNext g l) m slot := by
  intro m slot dl hp
  by_cases hb : ∃ cb, l = .cbBegin cb
  · obtain ⟨cb, rfl⟩ := hb
    have hs0 := hs
    simp only [step] at hs0
    obtain ⟨rfl, tok, rest, hq⟩ := (stepCbBegin_handling hs0).2 m slot dl hp
    refine own11c_step (hi.que (m, slot) ?_) hs hg
    simp [qms11c, hq, msgSlot11c]
  · have hnb : ∀ cb, l ≠ .cbBegin cb := fun cb he => hb ⟨cb, he⟩
    exact own11c_step (hi.cur m slot dl (step_handling_same w hs hnb hp)) hs hg

theorem que11c_step {w s l s'} {σ : C11cSt} {g : Wf01St} (hi : Inv11c s σ g) (hs : step w s l = some s')
    (hg : wfBad g l = false) : ∀ x ∈ qms11c s'.chan, Own11c s' (wfNext g l) x.1 x.2 := by
  intro x hx
  rcases step_qms11c hs x hx with hold | hnew
  · exact own11c_step (hi.que x hold) hs hg
  · exact own11c_new hnew hi.seen hs hg

theorem canc11c_step {w s l s'} {σ : C11cSt} {g : Wf01St} (hi : Inv11c s σ g) (hs : step w s l = some s') :
    (next11c σ l).cancelled = false → s'.abandon = none := by
  intro hc
  by_cases hl : l = .cancel
  · subst hl; simp [next11c] at hc
  · rw [next11c_cancelled hl] at hc
    exact step_abandon11c w hs hl (hi.canc hc)

theorem bad11c_step {s s' : AState} {σ : C11cSt} {g : Wf01St} {l : Label} {w : Wiring} (hi : Inv11c s σ g)
    (hs : step w s l = some s') : bad11c σ l = false := by
  cases l <;> try rfl
  case ret o r =>
    simp only [step] at hs
    obtain ⟨rec, hfind, hexp, -, hro⟩ := stepRet_ops hs
    obtain ⟨hrec, _⟩ := findOp_mem hfind
    have htbl := hi.tbl rec hrec
    rw [hro] at htbl
    simp only [bad11c, htbl]
    cases hk : callMsg11c rec.kind with
    | none => rfl
    | some m =>
      simp only
      by_cases hin : m ∈ σ.abandoned
      · have := retExpect_err11c hk (hi.abn rec hrec m hk hin) hexp
        simp [this]
      · simp [hin]

theorem c11c_step (w : Wiring) {s s' : AState} {σ : C11cSt} {g : Wf01St} {l : Label} (hi : Inv11c s σ g)
    (hs : step w s l = some s') (hg : wfBad g l = false) :
    bad11c σ l = false ∧ Inv11c s' (next11c σ l) (wfNext g l) := by
  refine ⟨bad11c_step hi hs, ?_⟩
  obtain ⟨σ1, h01⟩ := hi.c01
  obtain ⟨htbl, hfresh⟩ := tbl11c_step hi hs hg
  exact ⟨⟨_, (c01_step w h01 hs hg).2⟩, htbl, hfresh, seen11c_step hi.seen hs, abseen11c_step hi hs,
    abn11c_step hi hs hg, cur11c_step hi hs hg, que11c_step hi hs hg, canc11c_step hi hs⟩

theorem c11c_init (c : MonCtx) : Inv11c (AState.init c.cfg c.h0 c.k0) (monC11c c).init monWf01.init := by
  refine ⟨⟨_, c01_init c⟩, ?_, ?_, ?_, ?_, ?_, ?_, ?_, ?_⟩ <;>
    simp [monC11c, monWf01, AState.init, Seen11c, qms11c, Chan.init, lookup]

/-- one-step simulation lifted to runs, with the well-formedness automaton running alongside -/
theorem c11c_run (w : Wiring) (c : MonCtx) :
    ∀ (ls : List Label) (s s' : AState) (σ : C11cSt) (g : Wf01St), Inv11c s σ g → run w s ls = some s' →
      (monWf01.run g ls).isSome = true → ((monC11c c).run σ ls).isSome = true
  | [], _, _, _, _, _, _, _ => by simp [Mon.run]
  | l :: ls, s, s', σ, g, hi, hr, hwf => by
    simp only [run] at hr
    cases hs : step w s l with
    | none => simp [hs] at hr
    | some s1 =>
      simp only [hs] at hr
      simp only [Mon.run] at hwf ⊢
      have hg : wfBad g l = false := by
        cases hb : wfBad g l
        · rfl
        · simp [monWf01, hb] at hwf
      simp only [monWf01, hg] at hwf
      obtain ⟨hbad, hi1⟩ := c11c_step w hi hs hg
      rw [monC11c_step, hbad]
      exact c11c_run w c ls s1 s' _ _ hi1 hr hwf

/-- **C11c (the caller of an abandoned invocation receives an error).**  In every run of the actor model —
    every wiring, every timeout value, `fail_on_timeout` on or off, both mailbox kinds, every handle kind,
    every termination cause — whose trace never re-uses a message number or an operation id (`wf01`):
    once the handler invocation of message `m` has been abandoned at its deadline (a `cbAbandon (handle m)`
    that is not the drop guard after a `cancel`), the `call` / `Caller::call` / `try_call` operation that
    submitted `m` can only return an error. -/
theorem C11c_holds (w : Wiring) (c : MonCtx) (ls : List Label) (s : AState)
    (hr : run w (AState.init c.cfg c.h0 c.k0) ls = some s) (hwf : wf01 ls = true) :
    (monC11c c).ok ls = true :=
  c11c_run w c ls _ s _ _ (c11c_init c) hr hwf

/-! ### non-vacuity (monitor only; the runs of `Wiring.current` are in `Props/C11CCurrent.lean`) -/

def c11cCfg : Cfg := { cap := none, strat := .only, timeout := some 5, failOnTimeout := false, stream := false }
def c11cCtx : MonCtx := { cfg := c11cCfg, h0 := 0, k0 := .addr, prompt := true }

/-- a call whose invocation needs 9 with a timeout of 5 is abandoned at the deadline; the caller gets
    `canceled`; the next call is served -/
def c11cExample : List Label :=
  [ .cbBegin .started, .cbEnd .started true, .begin 0 0 (.call 1), .begin 1 0 (.call 2), .cbBegin (.handle 1),
    .work 9, .time 5, .cbAbandon (.handle 1), .ret 0 (.err .canceled), .cbBegin (.handle 2),
    .cbEnd (.handle 2) true, .ret 1 (.okReply { m := 2, birth := 0, digest := [1, 2] }) ]

example : (monC11c c11cCtx).ok c11cExample = true := by decide
example : wf01 c11cExample = true := by decide
example : (monC11p c11cCtx).ok c11cExample = true := by decide

/-- bad: the caller of the abandoned invocation gets a reply -/
example : (monC11c c11cCtx).ok (c11cExample.take 8 ++
    [ .ret 0 (.okReply { m := 1, birth := 0, digest := [1] }) ]) = false := by decide
/-- bad: a `Caller::call` whose invocation was abandoned returns `ok` -/
example : (monC11c c11cCtx).ok [ .cbBegin .started, .cbEnd .started true, .mk 0 1 .caller, .begin 0 1 (.callw 1),
    .cbBegin (.handle 1), .time 5, .cbAbandon (.handle 1), .ret 0 .ok ] = false := by decide
/-- fine: after `cancel` a `cbAbandon` is the drop guard of the interrupted callback, not a timeout -/
example : (monC11c c11cCtx).ok [ .cbBegin .started, .cbEnd .started true, .begin 0 0 (.call 1),
    .cbBegin (.handle 1), .cancel, .cbAbandon (.handle 1), .ret 0 (.err .canceled) ] = true := by decide

end Hannibal
