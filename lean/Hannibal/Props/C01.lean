import Hannibal.Proofs.C01Mon
import Hannibal.Proofs.C01Phase
import Hannibal.Proofs.C01Phase2
import Hannibal.Proofs.C01Spec
import Hannibal.Proofs.C01Queue
import Hannibal.Proofs.OpsClean
import Hannibal.Proofs.Run
/-
  C01 (the mailbox is FIFO: sequential, in order, at most once; the state is the fold): every run of the
  actor model whose labels use fresh message numbers and fresh operation ids is accepted by `monC01`.
-/
namespace Hannibal
open AState

theorem wf_seenM_mono (g : Wf01St) (l : Label) : ∀ m ∈ g.seenM, m ∈ (wfNext g l).seenM := by
  intro m hm
  cases l <;> simp only [wfNext] <;> try exact hm
  case begin o h k => cases k.msg? <;> simp [hm]
  case fire t mo => cases mo <;> simp [hm]
  case tickBegin t m' => simp [hm]
  case extBegin b m' => simp [hm]

/-! ### clauses (2), (3): the waiting messages against the monitor's tables -/

def Live (c : Chan) (handled : List Nat) (m : Nat) : Prop := m ∈ handled ∨ m ∈ qmsgs c ∨ c.rx = false

def QC (c : Chan) (σ : C01St) (g : Wf01St) : Prop :=
  QInv (qmsgs c) c.rx σ.handled σ.before σ.completed g.seenM

theorem live_step {l : Label} {c c' : Chan} {h : List Nat} {m : Nat} (hq : QRel l c c') (hl : Live c h m) :
    Live c' (handledNext h l) m := by
  unfold Live at *
  cases l
  case cbBegin cb =>
    cases cb <;> simp only [QRel] at hq <;> simp only [handledNext]
    case handle m0 =>
      obtain ⟨hq1, hq2⟩ := hq
      rw [hq2]
      rcases hl with hl | hl | hl
      · exact .inl (List.mem_cons_of_mem _ hl)
      · rw [hq1] at hl
        rcases List.mem_cons.mp hl with rfl | hl
        · exact .inl (by simp)
        · exact .inr (.inl hl)
      · exact .inr (.inr hl)
    all_goals (obtain ⟨hq1, hq2⟩ := hq; rw [hq1, hq2]; exact hl)
  case begin o h' k =>
    simp only [QRel] at hq; simp only [handledNext]
    rcases hq with ⟨hq1, hq2⟩ | ⟨m', _, hq1, hq2, hq3⟩
    · rw [hq1, hq2]; exact hl
    · rw [hq1, hq3]
      rcases hl with hl | hl | hl
      · exact .inl hl
      · exact .inr (.inl (List.mem_append_left _ hl))
      · rw [hq2] at hl; simp at hl
  case fire t mo =>
    simp only [QRel] at hq; simp only [handledNext]
    rcases hq with ⟨hq1, hq2⟩ | ⟨m', _, hq1, hq2, hq3⟩
    · rw [hq1, hq2]; exact hl
    · rw [hq1, hq3]
      rcases hl with hl | hl | hl
      · exact .inl hl
      · exact .inr (.inl (List.mem_append_left _ hl))
      · rw [hq2] at hl; simp at hl
  case tickBegin t m' =>
    simp only [QRel] at hq; simp only [handledNext]
    obtain ⟨hq1, hq2⟩ := hq
    rw [hq1, hq2]
    rcases hl with hl | hl | hl
    · exact .inl hl
    · exact .inr (.inl (List.mem_cons_of_mem _ hl))
    · exact .inr (.inr hl)
  case extBegin b m' =>
    simp only [QRel] at hq; simp only [handledNext]
    obtain ⟨hq1, hq2⟩ := hq
    rw [hq1, hq2]
    rcases hl with hl | hl | hl
    · exact .inl hl
    · exact .inr (.inl (List.mem_cons_of_mem _ hl))
    · exact .inr (.inr hl)
  case cancel => simp only [QRel] at hq; exact .inr (.inr hq.2)
  case taskDone => simp only [QRel] at hq; exact .inr (.inr hq.2)
  case taskPanic => simp only [QRel] at hq; exact .inr (.inr hq.2)
  all_goals
    (simp only [QRel] at hq; simp only [handledNext]
     obtain ⟨hq1, hq2⟩ := hq; rw [hq1, hq2]; exact hl)

/-- the list-level invariant follows the monitor; at `cbBegin (handle m)` it yields clauses (2) and (3) -/
theorem qc_step {l : Label} {c c' : Chan} {σ : C01St} {g : Wf01St} (hi : QC c σ g) (hq : QRel l c c')
    (hg : wfBad g l = false)
    (hnew : ∀ o r m ic, l = .ret o r → lookup o σ.ops = some (m, ic) → doneRet ic r = true →
      Live c σ.handled m) :
    badTwice σ l = false ∧ badOrder σ l = false ∧ QC c' (next01 σ l) (wfNext g l) := by
  unfold QC at *
  cases l
  case begin o h k =>
    simp only [QRel] at hq
    simp only [badTwice, badOrder, next01, handledNext, beforeNext, completedNext, wfNext, true_and]
    simp only [wfBad, Bool.or_eq_false_iff] at hg
    cases hk : k.msg? with
    | none =>
      simp only [hk] at hq ⊢
      rcases hq with ⟨hq1, hq2⟩ | ⟨m', hm', _⟩
      · rw [hq1, hq2]; exact hi
      · simp at hm'
    | some m =>
      simp only [hk] at hq hg ⊢
      have hm : m ∉ g.seenM := by simpa using hg.2
      rcases hq with ⟨hq1, hq2⟩ | ⟨m', hm', hq1, hq2, hq3⟩
      · rw [hq1, hq2]; exact qinv_begin_refused hi hm _
      · simp at hm'; subst hm'
        rw [hq1, hq3]
        rw [hq2] at hi
        exact qinv_push_op hi hm
  case fire t mo =>
    simp only [QRel] at hq
    simp only [badTwice, badOrder, next01, handledNext, beforeNext, completedNext, true_and]
    cases mo with
    | none =>
      simp only [wfNext]
      rcases hq with ⟨hq1, hq2⟩ | ⟨m', hm', _⟩
      · rw [hq1, hq2]; exact hi
      · simp at hm'
    | some m =>
      simp only [wfNext]
      have hm : m ∉ g.seenM := by simpa [wfBad] using hg
      rcases hq with ⟨hq1, hq2⟩ | ⟨m', hm', hq1, hq2, hq3⟩
      · rw [hq1, hq2]; exact qinv_seen hi m
      · simp at hm'; subst hm'
        rw [hq1, hq3, ← hq2]
        exact qinv_push_plain hi hm
  case tickBegin t m =>
    simp only [QRel] at hq
    simp only [badTwice, badOrder, next01, handledNext, beforeNext, completedNext, wfNext, true_and]
    have hm : m ∉ g.seenM := by simpa [wfBad] using hg
    rw [hq.1, hq.2]
    exact qinv_cons hi hm
  case extBegin b m =>
    simp only [QRel] at hq
    simp only [badTwice, badOrder, next01, handledNext, beforeNext, completedNext, wfNext, true_and]
    have hm : m ∉ g.seenM := by simpa [wfBad] using hg
    rw [hq.1, hq.2]
    exact qinv_cons hi hm
  case cbBegin cb =>
    cases cb <;> simp only [QRel] at hq <;>
      simp only [badTwice, badOrder, next01, handledNext, beforeNext, completedNext, wfNext, true_and]
    case handle m =>
      obtain ⟨hq1, hq2⟩ := hq
      rw [hq1] at hi
      obtain ⟨h2, h3⟩ := qinv_head hi
      refine ⟨by simpa using h2, ?_, ?_⟩
      · simp only [Bool.not_eq_false', List.all_eq_true]
        intro x hx; simpa using h3 x hx
      · rw [hq2]; exact qinv_pop hi
    all_goals (rw [hq.1, hq.2]; exact hi)
  case ret o r =>
    simp only [QRel] at hq
    simp only [badTwice, badOrder, next01, handledNext, beforeNext, completedNext, wfNext, true_and]
    rw [hq.1, hq.2]
    cases hl : lookup o σ.ops with
    | none => exact hi
    | some p =>
      obtain ⟨m, ic⟩ := p
      simp only
      by_cases hd : doneRet ic r = true
      · rw [if_pos hd]
        exact qinv_complete hi (hnew o r m ic rfl hl hd)
      · rw [if_neg hd]; exact hi
  case cancel =>
    simp only [QRel] at hq
    simp only [badTwice, badOrder, next01, handledNext, beforeNext, completedNext, wfNext, true_and]
    rw [hq.1, hq.2]; exact qinv_wipe hi
  case taskDone =>
    simp only [QRel] at hq
    simp only [badTwice, badOrder, next01, handledNext, beforeNext, completedNext, wfNext, true_and]
    rw [hq.1, hq.2]; exact qinv_wipe hi
  case taskPanic =>
    simp only [QRel] at hq
    simp only [badTwice, badOrder, next01, handledNext, beforeNext, completedNext, wfNext, true_and]
    rw [hq.1, hq.2]; exact qinv_wipe hi
  all_goals
    (simp only [QRel] at hq
     simp only [badTwice, badOrder, next01, handledNext, beforeNext, completedNext, wfNext, true_and]
     rw [hq.1, hq.2]; exact hi)

/-! ### the monitor's operation table against the model's -/

def opEntry (k : OpKind) : Option (Nat × Bool) := k.msg?.map (fun m => (m, k.isCall))

structure OpsC (s : AState) (σ : C01St) (g : Wf01St) : Prop where
  tbl : ∀ rec ∈ s.ops, lookup rec.o σ.ops = opEntry rec.kind
  fresh : ∀ o, o ∉ g.seenO → lookup o σ.ops = none

theorem mem_of_opsUpd {s l s'} (h : OpsUpd s l s') {r' : OpRec} (hr' : r' ∈ s'.ops) :
    ∃ r ∈ s.ops, r'.o = r.o ∧ r'.kind = r.kind ∧
      (r' = r ∨ (r.st = .pending ∧ StUpd s l r r'.st)) := by
  obtain ⟨f, hf, hp⟩ := h
  rw [hf] at hr'
  obtain ⟨r, hr, rfl⟩ := List.mem_map.mp hr'
  refine ⟨r, hr, ?_⟩
  rcases hp r with h | ⟨hpend, st', h, hst⟩
  · rw [h]; exact ⟨rfl, rfl, .inl rfl⟩
  · rw [h]; exact ⟨rfl, rfl, .inr ⟨hpend, hst⟩⟩

theorem opsNext_of_not_begin {ops : List (Nat × (Nat × Bool))} {l : Label} (h : ∀ o h k, l ≠ .begin o h k) :
    opsNext ops l = ops := by
  cases l <;> simp [opsNext]
  exact absurd rfl (h _ _ _)

theorem wfNext_seenO_of_not_begin {g : Wf01St} {l : Label} (h : ∀ o h k, l ≠ .begin o h k) :
    (wfNext g l).seenO = g.seenO := by
  cases l <;> simp only [wfNext]
  · exact absurd rfl (h _ _ _)
  · rename_i t mo; cases mo <;> rfl

theorem opsC_step {w s l s'} {σ : C01St} {g : Wf01St} (hi : OpsC s σ g) (hs : step w s l = some s')
    (hg : wfBad g l = false) : OpsC s' (next01 σ l) (wfNext g l) := by
  by_cases hedge : l.isOpEdge = true
  · cases l <;> simp [Label.isOpEdge] at hedge
    case begin o h k =>
      simp only [step] at hs
      obtain ⟨hfresh, st, hops⟩ := stepBegin_ops hs
      have ho : o ∉ g.seenO := by
        simp only [wfBad, Bool.or_eq_false_iff] at hg; simpa using hg.1
      have hne := findOp_none hfresh
      simp only [next01, opsNext, wfNext]
      cases hk : k.msg? with
      | none =>
        refine ⟨?_, ?_⟩
        · intro rec hrec
          rw [hops] at hrec
          rcases List.mem_append.mp hrec with hrec | hrec
          · exact hi.tbl rec hrec
          · simp at hrec; subst hrec
            simp only [opEntry, hk, Option.map_none]
            exact hi.fresh o ho
        · intro o' ho'
          exact hi.fresh o' (fun hh => ho' (List.mem_cons_of_mem _ hh))
      | some m =>
        refine ⟨?_, ?_⟩
        · intro rec hrec
          rw [hops] at hrec
          rcases List.mem_append.mp hrec with hrec | hrec
          · rw [lookup_cons_other _ _ (fun he => hne rec hrec he.symm)]
            exact hi.tbl rec hrec
          · simp at hrec; subst hrec
            simp only [opEntry, hk, Option.map_some]
            exact lookup_cons_self _ _ _
        · intro o' ho'
          have : o ≠ o' := fun he => ho' (by simp [he])
          rw [lookup_cons_other _ _ this]
          exact hi.fresh o' (fun hh => ho' (List.mem_cons_of_mem _ hh))
    case ret o r =>
      simp only [step] at hs
      obtain ⟨_, _, _, hops, _⟩ := stepRet_ops hs
      refine ⟨?_, hi.fresh⟩
      intro rec hrec
      rw [hops] at hrec
      exact hi.tbl rec (List.mem_filter.mp hrec).1
    case cdrop o =>
      simp only [step] at hs
      have hops := stepCdrop_ops hs
      refine ⟨?_, hi.fresh⟩
      intro rec hrec
      rw [hops] at hrec
      exact hi.tbl rec (List.mem_filter.mp hrec).1
  · have hedge' : l.isOpEdge = false := by simpa using hedge
    have hnb : ∀ o h k, l ≠ .begin o h k := by
      intro o h k he; subst he; simp [Label.isOpEdge] at hedge'
    have hu := step_ops_upd hs hedge'
    have h1 : (next01 σ l).ops = σ.ops := by simp only [next01]; exact opsNext_of_not_begin hnb
    refine ⟨?_, ?_⟩
    · intro rec hrec
      obtain ⟨r, hr, ho, hk, _⟩ := mem_of_opsUpd hu hrec
      rw [h1, ho, hk]; exact hi.tbl r hr
    · intro o ho
      rw [wfNext_seenO_of_not_begin hnb] at ho
      rw [h1]; exact hi.fresh o ho

/-! ### an operation whose submission went through has its message handled, waiting, or dropped with the mailbox -/

def OpLive (s : AState) (handled : List Nat) : Prop :=
  ∀ rec ∈ s.ops, ∀ m, rec.kind.msg? = some m → (∃ e, rec.st = .failed e) ∨ Live s.chan handled m

theorem opLive_step {w s l s'} {handled : List Nat} (hi : OpLive s handled) (hs : step w s l = some s') :
    OpLive s' (handledNext handled l) := by
  have hq := step_q hs
  by_cases hedge : l.isOpEdge = true
  · cases l <;> simp [Label.isOpEdge] at hedge
    case begin o h k =>
      simp only [step] at hs
      obtain ⟨st, hops, hc⟩ := stepBegin_spec hs
      intro rec hrec m hm
      rw [hops] at hrec
      rcases List.mem_append.mp hrec with hrec | hrec
      · rcases hi rec hrec m hm with hf | hl
        · exact .inl hf
        · exact .inr (live_step hq hl)
      · simp at hrec; subst hrec
        simp only at hm
        rcases hc with ⟨_, hk | hf⟩ | ⟨hrx, tok, hc, hk⟩
        · simp [hk] at hm
        · exact .inl hf
        · right; right; left
          rw [hc, qmsgs_enq]
          simp [msgNo_payloadOf o k hk, hm]
    case ret o r =>
      simp only [step] at hs
      obtain ⟨_, _, _, hops, _⟩ := stepRet_ops hs
      intro rec hrec m hm
      rw [hops] at hrec
      rcases hi rec (List.mem_filter.mp hrec).1 m hm with hf | hl
      · exact .inl hf
      · exact .inr (live_step hq hl)
    case cdrop o =>
      simp only [step] at hs
      have hops := stepCdrop_ops hs
      intro rec hrec m hm
      rw [hops] at hrec
      rcases hi rec (List.mem_filter.mp hrec).1 m hm with hf | hl
      · exact .inl hf
      · exact .inr (live_step hq hl)
  · have hu := step_ops_upd hs (by simpa using hedge)
    intro rec hrec m hm
    obtain ⟨r, hr, ho, hk, hst⟩ := mem_of_opsUpd hu hrec
    rw [hk] at hm
    rcases hi r hr m hm with ⟨e, hf⟩ | hl
    · rcases hst with rfl | ⟨hp, _⟩
      · exact .inl ⟨e, hf⟩
      · rw [hf] at hp; simp at hp
    · exact .inr (live_step hq hl)

/-! ### `ret`: what the model's answer tells the monitor -/

theorem doneRet_err (ic : Bool) (e : ErrKind) (he : e = .alreadyStopped ∨ e = .send) :
    doneRet ic (.err e) = false := by
  rcases he with rfl | rfl <;> cases ic <;> simp [doneRet] <;> decide

theorem retExpect_failed {s : AState} {rec : OpRec} {e : ErrKind} {r : Res} (hst : rec.st = .failed e)
    (h : s.retExpect rec = some r) : r = .err e := by
  unfold retExpect at h; simp [hst] at h; exact h.symm

theorem retExpect_final {s : AState} {rec : OpRec} {f : Final} (h : s.retExpect rec = some (.some f)) :
    s.result = some f := by
  unfold retExpect at h
  cases hst : rec.st <;> simp only [hst] at h
  case joining =>
    split at h
    · cases hk : rec.kind <;> cases hr : s.result <;> simp_all
    · simp at h
  case pending =>
    cases hk : rec.kind <;> simp only [hk] at h <;> (try (simp at h; done)) <;>
      (first | (split at h <;> simp at h) | (unfold latchRes at h; split at h <;> simp at h))
  all_goals (first | (simp at h; done) | (split at h <;> simp at h) | (cases hk : rec.kind <;> simp_all))

/-- a successfully returned submission went through -/
theorem ret_live {s s' : AState} {σ : C01St} {g : Wf01St} {o : Nat} {r : Res} (hops : OpsC s σ g)
    (hlive : OpLive s σ.handled) (hclean : OpsClean s) (hs : s.stepRet o r = some s')
    {m : Nat} {ic : Bool} (hl : lookup o σ.ops = some (m, ic)) (hd : doneRet ic r = true) :
    Live s.chan σ.handled m := by
  obtain ⟨rec, hfind, hexp, -, hro⟩ := stepRet_ops hs
  obtain ⟨hrec, _⟩ := findOp_mem hfind
  have htbl := hops.tbl rec hrec
  rw [hro, hl] at htbl
  have hm : rec.kind.msg? = some m := by
    unfold opEntry at htbl
    cases hk : rec.kind.msg? <;> simp [hk] at htbl
    simp [htbl.1]
  rcases hlive rec hrec m hm with ⟨e, hf⟩ | h
  · have := retExpect_failed hf hexp
    subst this
    rw [doneRet_err ic e (hclean rec hrec e hf)] at hd
    simp at hd
  · exact h

theorem ret_value {s s' : AState} {σ : C01St} {o : Nat} {r : Res} (hlog : Log01 s σ.hlog)
    (hs : s.stepRet o r = some s') : badValue σ (.ret o r) = false := by
  cases r <;> simp only [badValue]
  rename_i f
  cases hl : lookup o σ.ops <;> simp only
  obtain ⟨rec, -, hexp, -, -⟩ := stepRet_ops hs
  have hres := retExpect_final hexp
  have := hlog.res
  rw [hres] at this
  simp only [resOk] at this
  simp at this ⊢
  rw [this, hlog.log]

/-! ### clause (4): a reply is the one of its own message and carries the fold at the end of its handler -/

theorem wf_seenO_mono (g : Wf01St) (l : Label) : ∀ o ∈ g.seenO, o ∈ (wfNext g l).seenO := by
  intro o ho
  cases l <;> simp only [wfNext] <;> try exact ho
  case begin o' h k => simp [ho]
  case fire t mo => cases mo <;> simp [ho]

theorem handled_mono (h : List Nat) (l : Label) : ∀ m ∈ h, m ∈ handledNext h l := by
  intro m hm
  cases l <;> simp only [handledNext] <;> try exact hm
  rename_i cb; cases cb <;> simp [hm]

theorem handledNext_of_not_cbBegin {h : List Nat} {l : Label} (hl : ∀ cb, l ≠ .cbBegin cb) :
    handledNext h l = h := by
  cases l <;> simp only [handledNext]
  exact absurd rfl (hl _)

theorem digestNext_of_not_cbEnd {σ : C01St} {l : Label} (hl : ∀ m ok, l ≠ .cbEnd (.handle m) ok) :
    digestNext σ l = σ.digestAt := by
  cases l <;> try rfl
  rename_i cb ok
  cases cb <;> first | rfl | exact absurd rfl (hl _ _)

/-- the call operation `o` is known and carries message `m` -/
def SlotOk (s : AState) (g : Wf01St) (m o : Nat) : Prop :=
  o ∈ g.seenO ∧ ∀ rec ∈ s.ops, rec.o = o → rec.kind.msg? = some m

theorem slotOk_step {w s l s'} {g : Wf01St} {m o : Nat} (hi : SlotOk s g m o) (hs : step w s l = some s')
    (hg : wfBad g l = false) : SlotOk s' (wfNext g l) m o := by
  refine ⟨wf_seenO_mono g l o hi.1, ?_⟩
  by_cases hedge : l.isOpEdge = true
  · cases l <;> simp [Label.isOpEdge] at hedge
    case begin o2 h k =>
      simp only [step] at hs
      obtain ⟨hfresh, st, hops⟩ := stepBegin_ops hs
      have ho : o2 ∉ g.seenO := by
        simp only [wfBad, Bool.or_eq_false_iff] at hg; simpa using hg.1
      intro rec hrec hro
      rw [hops] at hrec
      rcases List.mem_append.mp hrec with hrec | hrec
      · exact hi.2 rec hrec hro
      · simp at hrec; subst hrec
        simp only at hro; subst hro
        exact absurd hi.1 ho
    case ret o2 r =>
      simp only [step] at hs
      obtain ⟨_, _, _, hops, _⟩ := stepRet_ops hs
      intro rec hrec hro
      rw [hops] at hrec
      exact hi.2 rec (List.mem_filter.mp hrec).1 hro
    case cdrop o2 =>
      simp only [step] at hs
      have hops := stepCdrop_ops hs
      intro rec hrec hro
      rw [hops] at hrec
      exact hi.2 rec (List.mem_filter.mp hrec).1 hro
  · have hu := step_ops_upd hs (by simpa using hedge)
    intro rec hrec hro
    obtain ⟨r, hr, ho, hk, _⟩ := mem_of_opsUpd hu hrec
    rw [hk]; exact hi.2 r hr (by rw [← ho]; exact hro)

structure Ans (s : AState) (σ : C01St) (g : Wf01St) : Prop where
  qslot : ∀ m o, (m, o) ∈ qslots s.chan → SlotOk s g m o
  cur : ∀ m slot dl, s.phase = .handling (.handle m) slot dl →
    m ∈ σ.handled ∧ lookup m σ.digestAt = none ∧ ∀ o, slot = some o → SlotOk s g m o
  dkeys : ∀ m, m ∉ σ.handled → lookup m σ.digestAt = none
  ans : ∀ rec ∈ s.ops, ∀ rep, rec.st = .answered rep → ∀ m, rec.kind.msg? = some m →
    rep.m = m ∧ lookup m σ.digestAt = some rep.digest

theorem ans_step {w s l s'} {σ : C01St} {g : Wf01St} (hi : Ans s σ g) (hs : step w s l = some s')
    (hg : wfBad g l = false) (hlog : σ.hlog = s.log) (htw : badTwice σ l = false) :
    Ans s' (next01 σ l) (wfNext g l) := by
  have hsl := step_slots hs
  -- the digest table only grows at the end of the open handler invocation, whose message is handled
  have hdig : ∀ m, lookup m σ.digestAt = none → (∀ m0 ok, l = .cbEnd (.handle m0) ok → m ≠ m0) →
      lookup m (digestNext σ l) = none := by
    intro m hm hne
    by_cases hl : ∃ m0 ok, l = .cbEnd (.handle m0) ok
    · obtain ⟨m0, ok, rfl⟩ := hl
      simp only [digestNext]
      rw [lookup_cons_other _ _ (fun he => hne m0 ok rfl he.symm)]; exact hm
    · rw [digestNext_of_not_cbEnd (fun m0 ok he => hl ⟨m0, ok, he⟩)]; exact hm
  have hcbend : ∀ m0 ok, l = .cbEnd (.handle m0) ok →
      (∃ slot dl, s.phase = .handling (.handle m0) slot dl) ∧ s'.phase = .idle := by
    intro m0 ok he; subst he
    simp only [step] at hs
    exact stepCbEnd_handle hs
  refine ⟨?_, ?_, ?_, ?_⟩
  · -- qslot
    intro m o hmo
    by_cases hb : ∃ o2 h k, l = .begin o2 h k
    · obtain ⟨o2, h, k, rfl⟩ := hb
      simp only [SRel] at hsl
      have hold : (m, o) ∈ qslots s.chan → SlotOk s' (wfNext g (.begin o2 h k)) m o :=
        fun hin => slotOk_step (hi.qslot m o hin) hs hg
      rcases hsl with hsl | ⟨m2, hm2, hsl⟩
      · rw [hsl] at hmo; exact hold hmo
      · rw [hsl] at hmo
        rcases List.mem_append.mp hmo with hmo | hmo
        · exact hold hmo
        · simp at hmo
          obtain ⟨rfl, rfl⟩ := hmo
          simp only [step] at hs
          obtain ⟨hfresh, st, hops⟩ := stepBegin_ops hs
          refine ⟨by simp [wfNext], ?_⟩
          intro rec hrec hro
          rw [hops] at hrec
          rcases List.mem_append.mp hrec with hrec | hrec
          · exact absurd hro (findOp_none hfresh rec hrec)
          · simp at hrec; subst hrec; exact hm2
    · have hsub : ∀ x ∈ qslots s'.chan, x ∈ qslots s.chan := by
        cases l <;> simp only [SRel] at hsl <;> first | exact hsl | exact absurd ⟨_, _, _, rfl⟩ hb
      exact slotOk_step (hi.qslot m o (hsub _ hmo)) hs hg
  · -- cur
    intro m slot dl hp
    by_cases hb : ∃ cb, l = .cbBegin cb
    · obtain ⟨cb, rfl⟩ := hb
      have hs0 := hs
      simp only [step] at hs0
      obtain ⟨rfl, tok, rest, hq⟩ := (stepCbBegin_handling hs0).2 m slot dl hp
      have hnh : m ∉ σ.handled := by simpa [badTwice] using htw
      refine ⟨by simp [next01, handledNext], ?_, ?_⟩
      · simp only [next01, digestNext]; exact hi.dkeys m hnh
      · intro o ho; subst ho
        refine slotOk_step (hi.qslot m o ?_) hs hg
        simp [qslots, hq, slotNo]
    · have hnb : ∀ cb, l ≠ .cbBegin cb := fun cb he => hb ⟨cb, he⟩
      have hp0 := step_handling_same w hs hnb hp
      obtain ⟨h1, h2, h3⟩ := hi.cur m slot dl hp0
      refine ⟨handled_mono _ _ m h1, ?_, fun o ho => slotOk_step (h3 o ho) hs hg⟩
      refine hdig m h2 ?_
      intro m0 ok he
      have := (hcbend m0 ok he).2
      rw [this] at hp; simp at hp
  · -- dkeys
    intro m hm
    have hm0 : m ∉ σ.handled := fun hh => hm (handled_mono _ _ m hh)
    refine hdig m (hi.dkeys m hm0) ?_
    intro m0 ok he hmm
    obtain ⟨⟨slot, dl, hp⟩, _⟩ := hcbend m0 ok he
    exact hm0 (hmm ▸ (hi.cur m0 slot dl hp).1)
  · -- ans
    have hkeep : ∀ m rep, lookup m σ.digestAt = some rep → lookup m (digestNext σ l) = some rep := by
      intro m rep hm
      by_cases hl : ∃ m0 ok, l = .cbEnd (.handle m0) ok
      · obtain ⟨m0, ok, rfl⟩ := hl
        obtain ⟨⟨slot, dl, hp⟩, _⟩ := hcbend m0 ok rfl
        have hne : m0 ≠ m := by
          intro he; subst he
          rw [(hi.cur m0 slot dl hp).2.1] at hm; simp at hm
        simp only [digestNext]
        rw [lookup_cons_other _ _ hne]; exact hm
      · rw [digestNext_of_not_cbEnd (fun m0 ok he => hl ⟨m0, ok, he⟩)]; exact hm
    intro rec hrec rep hst m hm
    by_cases hedge : l.isOpEdge = true
    · cases l <;> simp [Label.isOpEdge] at hedge
      case begin o2 h k =>
        simp only [step] at hs
        obtain ⟨st, hops, hna⟩ := stepBegin_not_answered hs
        rw [hops] at hrec
        rcases List.mem_append.mp hrec with hrec | hrec
        · exact hi.ans rec hrec rep hst m hm
        · simp at hrec; subst hrec
          exact absurd hst (hna rep)
      case ret o2 r =>
        simp only [step] at hs
        obtain ⟨_, _, _, hops, _⟩ := stepRet_ops hs
        rw [hops] at hrec
        exact hi.ans rec (List.mem_filter.mp hrec).1 rep hst m hm
      case cdrop o2 =>
        simp only [step] at hs
        have hops := stepCdrop_ops hs
        rw [hops] at hrec
        exact hi.ans rec (List.mem_filter.mp hrec).1 rep hst m hm
    · have hu := step_ops_upd hs (by simpa using hedge)
      obtain ⟨r, hr, ho, hk, hupd⟩ := mem_of_opsUpd hu hrec
      rw [hk] at hm
      rcases hupd with rfl | ⟨hpend, hupd⟩
      · obtain ⟨h1, h2⟩ := hi.ans rec hr rep hst m hm
        exact ⟨h1, hkeep m _ h2⟩
      · rw [hst] at hupd
        rcases hupd with hupd | hupd | ⟨m0, dl, rfl, hp, hrep⟩
        · simp at hupd
        · simp at hupd
        · simp at hrep; subst hrep
          have hslot := (hi.cur m0 (some r.o) dl hp).2.2 r.o rfl
          have := hslot.2 r hr rfl
          rw [hm] at this
          simp at this; subst this
          refine ⟨rfl, ?_⟩
          simp only [next01, digestNext]
          rw [lookup_cons_self, hlog]

theorem retExpect_okReply {s : AState} {rec : OpRec} {rep : Reply} (h : s.retExpect rec = some (.okReply rep)) :
    rec.st = .answered rep := by
  unfold retExpect at h
  cases hst : rec.st <;> simp only [hst] at h
  case answered v =>
    cases hk : rec.kind <;> simp [hk] at h <;> simp [h]
  case pending =>
    cases hk : rec.kind <;> simp only [hk] at h <;> (try (simp at h; done)) <;>
      (first | (split at h <;> simp at h) | (unfold latchRes at h; split at h <;> simp at h))
  case joining =>
    split at h
    · cases hk : rec.kind <;> cases hr : s.result <;> simp_all
    · simp at h
  all_goals (first | (simp at h; done) | (split at h <;> simp at h) | (cases hk : rec.kind <;> simp_all))

theorem ret_reply {s s' : AState} {σ : C01St} {g : Wf01St} {o : Nat} {r : Res} (hops : OpsC s σ g)
    (hans : Ans s σ g) (hs : s.stepRet o r = some s') : badReply σ (.ret o r) = false := by
  cases r <;> simp only [badReply]
  rename_i rep
  cases hl : lookup o σ.ops with
  | none => rfl
  | some p =>
    obtain ⟨m, ic⟩ := p
    simp only
    obtain ⟨rec, hfind, hexp, -, hro⟩ := stepRet_ops hs
    obtain ⟨hrec, _⟩ := findOp_mem hfind
    have htbl := hops.tbl rec hrec
    rw [hro, hl] at htbl
    have hm : rec.kind.msg? = some m := by
      unfold opEntry at htbl
      cases hk : rec.kind.msg? <;> simp [hk] at htbl
      simp [htbl.1]
    obtain ⟨h1, h2⟩ := hans.ans rec hrec rep (retExpect_okReply hexp) m hm
    simp [h1, h2]

/-! ### the coupling invariant and the theorem -/

structure C01Inv (s : AState) (σ : C01St) (g : Wf01St) : Prop where
  opn : σ.openCb = true → cbOrDone s.phase = true
  log : Log01 s σ.hlog
  qc : QC s.chan σ g
  ops : OpsC s σ g
  live : OpLive s σ.handled
  clean : OpsClean s
  ans : Ans s σ g

theorem c01_step (w : Wiring) {s s' : AState} {σ : C01St} {g : Wf01St} {l : Label} (hi : C01Inv s σ g)
    (hs : step w s l = some s') (hg : wfBad g l = false) :
    bad01 σ l = false ∧ C01Inv s' (next01 σ l) (wfNext g l) := by
  obtain ⟨hopen, hopen'⟩ := open_step w hi.opn hs
  have hlog' := log01_step w hi.log hs
  obtain ⟨htw, hord, hqc'⟩ := qc_step hi.qc (step_q hs) hg (by
    intro o r m ic hl hlk hd
    subst hl
    simp only [step] at hs
    exact ret_live hi.ops hi.live hi.clean hs hlk hd)
  have hrep : badReply σ l = false := by
    cases l <;> try rfl
    simp only [step] at hs
    exact ret_reply hi.ops hi.ans hs
  have hval : badValue σ l = false := by
    cases l <;> try rfl
    simp only [step] at hs
    exact ret_value hi.log hs
  refine ⟨by simp [bad01, hopen, htw, hord, hrep, hval], ?_⟩
  exact ⟨hopen', hlog', hqc', opsC_step hi.ops hs hg, opLive_step hi.live hs, opsClean_step hs hi.clean,
    ans_step hi.ans hs hg hi.log.log htw⟩

theorem c01_init (c : MonCtx) : C01Inv (AState.init c.cfg c.h0 c.k0) (monC01 c).init monWf01.init := by
  refine ⟨?_, ⟨rfl, rfl, ?_, ?_⟩, ?_, ⟨?_, ?_⟩, ?_, opsClean_init _ _ _, ⟨?_, ?_, ?_, ?_⟩⟩ <;>
    simp [monC01, monWf01, AState.init, QC, qmsgs, qslots, Chan.init, qinv_init, OpLive, lookup, isDone]

/-- one-step simulation lifted to runs, with the well-formedness automaton running alongside -/
theorem c01_run (w : Wiring) (c : MonCtx) :
    ∀ (ls : List Label) (s s' : AState) (σ : C01St) (g : Wf01St), C01Inv s σ g → run w s ls = some s' →
      (monWf01.run g ls).isSome = true → ((monC01 c).run σ ls).isSome = true
  | [], _, _, _, _, _, _, _ => by simp [Mon.run]
  | l :: ls, s, s', σ, g, hi, hr, hwf => by
    simp only [run] at hr
    cases hs : step w s l with
    | none => simp [hs] at hr
    | some s1 =>
      simp only [hs] at hr
      simp only [Mon.run] at hwf ⊢
      have hg : wfBad g l = false := by
        cases hb : wfBad g l
        · rfl
        · simp [monWf01, hb] at hwf
      simp only [monWf01, hg] at hwf
      obtain ⟨hbad, hi1⟩ := c01_step w hi hs hg
      rw [monC01_step, hbad]
      exact c01_run w c ls s1 s' _ _ hi1 hr hwf

/-- **C01 (the mailbox is FIFO: sequential, in order, at most once; the state is the fold).**
    In every run of the actor model — every wiring, both mailbox kinds, every handle kind, waiting and
    forcing path, timers, restarts, every termination cause — whose trace never re-uses a message number
    or an operation id (`wf01`): handler invocations never overlap; a message is handled at most once;
    when the handler of `m` begins, every message whose submission had completed before the submission
    of `m` began has been handled; a reply is the one of its own message and carries the fold of what
    had been handled when its handler finished; a joined value carries the fold of everything handled. -/
theorem C01_holds (w : Wiring) (c : MonCtx) (ls : List Label) (s : AState)
    (hr : run w (AState.init c.cfg c.h0 c.k0) ls = some s) (hwf : wf01 ls = true) :
    (monC01 c).ok ls = true :=
  c01_run w c ls _ s _ _ (c01_init c) hr hwf

/-! ### non-vacuity -/

/-- bounded mailbox (capacity 1): a send, a call and a (parked) send through a second handle are handled
    in submission order; the reply carries the fold after its handler; the joined value the whole fold -/
def c01Cfg : Cfg := { cap := some 1, strat := .only, timeout := none, failOnTimeout := false, stream := false }
def c01Ctx : MonCtx := { cfg := c01Cfg, h0 := 0, k0 := .owning, prompt := true }
def c01Example : List Label :=
  [ .cbBegin .started, .cbEnd .started true,
    .begin 0 0 (.send 1), .ret 0 .ok,
    .begin 1 0 (.call 2),
    .mk 0 1 .addr,
    .begin 2 1 (.send 3),
    .cbBegin (.handle 1), .cbEnd (.handle 1) true,
    .cbBegin (.handle 2), .ret 2 .ok, .cbEnd (.handle 2) true,
    .ret 1 (.okReply { m := 2, birth := 0, digest := [1, 2] }),
    .cbBegin (.handle 3), .cbEnd (.handle 3) true,
    .stopReq 1 true, .tDeq, .cbBegin .stopped, .cbEnd .stopped true, .taskDone,
    .begin 3 0 .join, .ret 3 (.some { birth := 0, stoppedSeen := true, digest := [1, 2, 3] }) ]

example : (monC01 c01Ctx).ok c01Example = true := by decide
/-- the well-formedness hypothesis is satisfiable (by the same trace) -/
example : wf01 c01Example = true := by decide

/-- (1) overlap: a second handler begins while the first is open -/
example : (monC01 c01Ctx).ok [ .cbBegin .started, .cbEnd .started true, .begin 0 0 (.send 1), .begin 1 0 (.send 2),
    .cbBegin (.handle 1), .cbBegin (.handle 2) ] = false := by decide
/-- (2) a message handled twice -/
example : (monC01 c01Ctx).ok [ .cbBegin .started, .cbEnd .started true, .begin 0 0 (.send 1),
    .cbBegin (.handle 1), .cbEnd (.handle 1) true, .cbBegin (.handle 1) ] = false := by decide
/-- (3) overtaking: 1 was submitted completely (through the waiting path) before 3 was submitted (through
    another handle), yet 3 is handled first -/
example : (monC01 c01Ctx).ok [ .cbBegin .started, .cbEnd .started true, .begin 0 0 (.send 1), .ret 0 .ok,
    .mk 0 1 .addr, .begin 2 1 (.send 3), .cbBegin (.handle 3) ] = false := by decide
/-- (3) loss: 3 is handled without 1 ever being handled -/
example : (monC01 c01Ctx).ok (c01Example.take 7 ++ [ .cbBegin (.handle 3) ]) = false := by decide
/-- (4) a reply carrying the fold of the wrong moment -/
example : (monC01 c01Ctx).ok (c01Example.take 12 ++
    [ .ret 1 (.okReply { m := 2, birth := 0, digest := [1] }) ]) = false := by decide
/-- (5) a joined value that is not the fold of what was handled -/
example : (monC01 c01Ctx).ok (c01Example.take 21 ++
    [ .ret 3 (.some { birth := 0, stoppedSeen := true, digest := [1, 3, 2] }) ]) = false := by decide

end Hannibal
