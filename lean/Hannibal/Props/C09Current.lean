import Hannibal.Props.C09
import Hannibal.Props.C09Q
import Hannibal.Generated.SysFacts
/- C09 for today's source: the broker model is written for code of the shape the translator finds. -/
namespace Hannibal

/-- the subscriber table is weak and keyed by the subscriber, the fan-out is one awaited `send` per live entry
    in turn with errors ignored, and every broker operation is a send to the one registry instance -/
theorem shape09_current : SysFacts.current.ok09 = true := by decide

end Hannibal
