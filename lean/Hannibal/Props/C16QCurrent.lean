import Hannibal.Props.C16Q
import Hannibal.Props.C05Current
/- C16q for the wiring extracted from today's source. -/
namespace Hannibal

theorem C16q_current (ls : List SLabel) (S : Sys) (hr : srun Wiring.current Sys.init ls = some S) :
    monC16q.ok ls = true := C16q_holds _ wellWired05_current ls S hr

/-- the accepted example is a run of the model under today's wiring -/
example : (srun Wiring.current Sys.init c16qExample).isSome = true := by decide

/-- the model refuses a quiescent point of a child with a broadcast still waiting in its mailbox -/
example : (srun Wiring.current Sys.init (c16qExample.take 16 ++ [.act 1 (.quiescent [])])).isSome = false := by
  decide

/-- **the clause as first written is false of the model**: the witness is a run of the model under today's
    wiring, and `monC16qOrig` rejects it (`Props/C16Q.lean`) -/
example : (srun Wiring.current Sys.init c16qStreamWitness).isSome = true ∧
    monC16qOrig.ok c16qStreamWitness = false := by decide

/-- why the wiring hypothesis is needed: if a `Sender` owned no channel closure, the parent's handle would not keep
    the child's mailbox open; the child could leave its loop while still registered, and a broadcast sent after
    that would be dropped with its mailbox -/
def Wiring.senderOwnsNothing : Wiring := { Wiring.current with holds := fun k => match k with
  | .sender => [] | k => Wiring.current.holds k }
def c16qWiringWitness : List SLabel :=
  [ .spawn 0 c16Cfg 0 .addr, .spawn 1 c16Cfg 1 .addr, .act 1 (.mk 1 11 .sender), .act 1 (.drop 1),
    .act 0 (.cbBegin .started), .addChild 0 1 1 11,
    .act 1 (.cbBegin .started), .act 1 (.cbEnd .started true), .act 1 .tChanEnd, .bcast 0 1 7,
    .act 1 (.cbBegin .stopped), .act 1 (.cbEnd .stopped true), .act 1 .taskDone, .act 1 (.quiescent []) ]
example : WellWired05 Wiring.senderOwnsNothing = False := by simp; decide
example : (srun Wiring.senderOwnsNothing Sys.init c16qWiringWitness).isSome = true ∧
    monC16q.ok c16qWiringWitness = false := by decide
example : (srun Wiring.current Sys.init c16qWiringWitness).isSome = false := by decide

end Hannibal
