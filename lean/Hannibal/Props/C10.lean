import Hannibal.Proofs.Timers
import Hannibal.Proofs.Rel2
import Hannibal.Proofs.Run
import Hannibal.Monitor.C10
/-
  C10 (period / delay / once / silence after termination): every run of the actor model is accepted by
  `monC10`.  No wiring hypothesis.
-/
namespace Hannibal
open AState

/-- the monitor's record of a timer agrees with the model's timer -/
def tOk (clk : Nat) (x : Timer) (τ : T10) : Bool :=
  τ.id == x.id && τ.kind == x.kind && τ.d == x.d &&
  (match x.st with
   | .spawned => τ.lastDue == none && τ.fires == 0
   | .sleeping due => τ.lastDue == some due && !(delayedKind x.kind && decide (τ.fires ≥ 1))
   | .sending => (match τ.lastDue with | some p => decide (p ≤ clk) | none => false) && decide (τ.fires ≥ 1)
   | _ => true)

structure C10Inv (s : AState) (σ : C10St) : Prop where
  clock : σ.clock = s.clock
  term : σ.terminated = s.isDone
  dead : s.isDone = true → AllDead s
  nodup : s.timerIds.Nodup
  tim : Rel2 (fun x τ => tOk s.clock x τ = true) s.timers σ.timers

theorem tOk_id {clk x τ} (h : tOk clk x τ = true) : τ.id = x.id := by
  unfold tOk at h; simp at h; exact h.1.1.1

theorem c10_find {s : AState} {σ : C10St} (hi : C10Inv s σ) (t : Nat) :
    (∀ x, s.findTimer t = some x → ∃ τ, σ.find t = some τ ∧ tOk s.clock x τ = true) ∧
    (s.findTimer t = none → σ.find t = none) := by
  unfold findTimer C10St.find
  exact hi.tim.find (fun x => x.id == t) (fun x => x.id == t) (fun a b h => by rw [tOk_id h])

/-- setting the model timer `t` (found as `x0`) and updating the monitor record `t` in lock-step -/
theorem rel_set {clk : Nat} {l : List Timer} {l' : List T10} (h : Rel2 (fun x τ => tOk clk x τ = true) l l')
    (hn : (l.map (fun x => x.id)).Nodup) (t : Nat) (x0 : Timer) (hx0 : l.find? (fun z => z.id == t) = some x0)
    (st : TimerSt) (f : T10 → T10)
    (hf : ∀ τ, tOk clk x0 τ = true → tOk clk { x0 with st := st } (f τ) = true) :
    Rel2 (fun x τ => tOk clk x τ = true)
      (l.map (fun x => if x.id == t then { x with st := st } else x))
      (l'.map (fun x => if x.id == t then f x else x)) := by
  refine h.map_mem _ _ ?_
  intro x τ hmem hx
  have hid := tOk_id hx
  by_cases he : x.id = t
  · have hxx : x = x0 := eq_of_find_nodup l hn hx0 hmem he
    subst hxx
    subst he
    simp only [hid, beq_self_eq_true, if_true]
    exact hf τ hx
  · simp [he, hid, hx]

/-- killing timers on the model side only -/
theorem rel_kill {clk : Nat} {l : List Timer} {l' : List T10} (h : Rel2 (fun x τ => tOk clk x τ = true) l l')
    (k : Timer → Timer) (hk : ∀ x τ, tOk clk x τ = true → tOk clk (k x) τ = true) :
    Rel2 (fun x τ => tOk clk x τ = true) (l.map k) l' := by
  have := h.map (r' := fun x τ => tOk clk x τ = true) k id (fun a b hab => hk a b hab)
  simpa using this

theorem tOk_kill {clk x τ} (h : tOk clk x τ = true) :
    tOk clk (if x.st = .ended then x else if x.st = .sending ∨ x.st = .deadHolding then { x with st := .deadHolding }
      else { x with st := .dead }) τ = true := by
  unfold tOk at *
  split
  · exact h
  · split <;> simp_all

theorem tOk_clock {clk clk' x τ} (h : tOk clk x τ = true) (hle : clk ≤ clk') : tOk clk' x τ = true := by
  unfold tOk at *
  cases hst : x.st <;> simp_all
  cases hl : τ.lastDue <;> simp_all
  omega

end Hannibal

namespace Hannibal
open AState

theorem step_clock_same {w : Wiring} {s s' : AState} {l : Label} (hs : step w s l = some s')
    (hl : ∀ t, l ≠ .time t) : s'.clock = s.clock := by
  cases l <;> unfold_steps hs
  case time t => exact absurd rfl (hl t)
  all_goals
    ((repeat' (split at hs)) <;>
     (first
       | (simp at hs; done)
       | (simp at hs; subst hs; simp [fail, finish, cancelSlots, killTimers, setTimer, addOp, removeOp, removeHandle, push]; done)
       | (simp at hs; subst hs; unfold answer; split <;> simp; done)))

theorem allDead_of_terminates {w : Wiring} {s s' : AState} {l : Label} (hs : step w s l = some s')
    (hl : l.terminates = true) : AllDead s' := by
  cases l <;> simp [Label.terminates] at hl
  case cancel =>
    simp only [step, stepCancel] at hs
    split at hs
    · simp at hs
    · simp at hs; subst hs; intro x hx; exact allDead_fail s x (by simpa using hx)
  case taskPanic =>
    simp only [step, stepTaskPanic] at hs
    (repeat' (split at hs)) <;> (first | (simp at hs; done) | (simp at hs; subst hs; exact allDead_fail _))
  case taskDone =>
    simp only [step, stepTaskDone] at hs
    (repeat' (split at hs)) <;>
      (first | (simp at hs; done) | (simp at hs; subst hs; first | exact allDead_fail _ | exact allDead_finish _))

theorem not_done_of_begin {w : Wiring} {s s' : AState} {l : Label} (hs : step w s l = some s')
    (hl : (∃ cb, l = .cbBegin cb) ∨ ∃ t m, l = .tickBegin t m) : s.isDone = false := by
  rcases hl with ⟨cb, rfl⟩ | ⟨t, m, rfl⟩
  · simp only [step, stepCbBegin] at hs
    cases hp : s.phase <;> simp [hp, isDone] at hs ⊢
    all_goals (cases cb <;> simp at hs)
  · simp only [step, stepTickBegin] at hs
    cases hp : s.phase <;> simp [hp, isDone] at hs ⊢

theorem next10_terminated (σ : C10St) (l : Label) :
    (next10 σ l).terminated = (if l.terminates then true else σ.terminated) := by
  cases l <;> simp [next10, Label.terminates, C10St.upd]

theorem next10_clock (σ : C10St) (l : Label) (hl : ∀ t, l ≠ .time t) : (next10 σ l).clock = σ.clock := by
  cases l <;> simp [next10, C10St.upd]
  case time t => exact absurd rfl (hl t)
  all_goals (split <;> rfl)

theorem next10_timers_same (σ : C10St) (l : Label) (hl : l.touchesTimers = false) :
    (next10 σ l).timers = σ.timers := by
  cases l <;> simp [Label.touchesTimers] at hl <;> simp [next10]
  all_goals (try (split <;> rfl))

theorem c10_step (w : Wiring) {s s' : AState} {σ : C10St} {l : Label}
    (hi : C10Inv s σ) (hs : step w s l = some s') : bad10 σ l = false ∧ C10Inv s' (next10 σ l) := by
  obtain ⟨hd1, hd2⟩ := step_isDone w hs
  have hterm : (next10 σ l).terminated = s'.isDone := by
    rw [next10_terminated]
    cases ht : l.terminates
    · simp; rw [hd2 ht]; exact hi.term
    · simp [hd1 ht]
  have hdead : s'.isDone = true → AllDead s' := by
    intro hdn
    cases ht : l.terminates
    · rw [hd2 ht] at hdn
      by_cases hct : ∃ t k d, l = .ctxTimer t k d
      · obtain ⟨t, k, d, rfl⟩ := hct
        exfalso
        simp only [step, stepCtxTimer] at hs
        split at hs
        · rename_i hc; simp at hc
          rw [inCallback_not_done hc.1] at hdn; simp at hdn
        · simp at hs
      · exact allDead_step hs (hi.dead hdn) (fun t k d h => hct ⟨t, k, d, h⟩)
    · exact allDead_of_terminates hs ht
  -- a timer that moves is not dead, hence the actor has not terminated
  have hlive : ∀ t x, s.findTimer t = some x → ¬ x.Dead → s.isDone = false := by
    intro t x hx hnd
    cases hdn : s.isDone
    · rfl
    · exact absurd (hi.dead hdn x (findTimer_mem hx).1) hnd
  by_cases htime : ∃ t, l = .time t
  · obtain ⟨t, rfl⟩ := htime
    simp only [step] at hs
    obtain ⟨hle, rfl⟩ := stepTime_spec hs
    exact ⟨rfl, ⟨rfl, hterm, hdead, hi.nodup, hi.tim.mono (fun x τ h => tOk_clock h hle)⟩⟩
  · have hnt : ∀ t, l ≠ .time t := fun t h => htime ⟨t, h⟩
    have hclk := step_clock_same hs hnt
    have hσclk : (next10 σ l).clock = s'.clock := by rw [next10_clock σ l hnt, hclk]; exact hi.clock
    by_cases hct : ∃ t k d, l = .ctxTimer t k d
    · obtain ⟨t, k, d, rfl⟩ := hct
      simp only [step, stepCtxTimer] at hs
      split at hs
      · rename_i hc
        simp at hs; subst hs
        simp at hc
        refine ⟨rfl, ⟨hσclk, hterm, hdead, ?_, hi.tim.append_single (by simp [tOk])⟩⟩
        have hnn : t ∉ s.timerIds := by
          unfold AState.timerIds; intro hm
          obtain ⟨y, hy, hyid⟩ := List.mem_map.mp hm
          exact hc.2 y hy hyid
        unfold AState.timerIds
        simp only [List.map_append, List.map_cons, List.map_nil]
        exact List.nodup_append.mpr ⟨hi.nodup, by simp, by simpa using hc.2⟩
      · simp at hs
    · have hids := step_timer_ids hs (fun t k d h => hct ⟨t, k, d, h⟩)
      have hnd' : s'.timerIds.Nodup := by rw [hids]; exact hi.nodup
      by_cases htt : l.touchesTimers = true
      · cases l <;> simp [Label.touchesTimers] at htt
        case ctxTimer t k d => exact absurd ⟨t, k, d, rfl⟩ hct
        case timerArm t due =>
          simp only [step] at hs
          obtain ⟨x, hx, hdue, _, htim, hcase⟩ := stepTimerArm_spec hs
          obtain ⟨τ, hτ, hok⟩ := (c10_find hi t).1 x hx
          have hndx : ¬ x.Dead := by
            unfold Timer.Dead; rcases hcase with h | ⟨o, h, _⟩ | ⟨h, _⟩ <;> simp [h]
          have hnd := hlive t x hx hndx
          have hbad : bad10 σ (.timerArm t due) = false := by
            simp only [bad10, hτ, hi.term, hnd, hi.clock]
            unfold tOk at hok
            rcases hcase with h | ⟨o, h, ho, _⟩ | ⟨h, _⟩ <;> simp [h] at hok <;> simp_all
            · cases hl : τ.lastDue <;> simp_all <;> try omega
          refine ⟨hbad, ⟨hσclk, hterm, hdead, hnd', ?_⟩⟩
          rw [htim, hclk]
          simp only [setTimer, next10, C10St.upd]
          refine rel_set hi.tim hi.nodup t x hx _ _ ?_
          intro υ hυ
          unfold tOk at hυ ⊢
          rcases hcase with h | ⟨o, h, ho, hk⟩ | ⟨h, hk⟩ <;> simp [h] at hυ <;> simp_all [delayedKind]
        case timerEnd t =>
          simp only [step] at hs
          obtain ⟨_, htim⟩ := stepTimerEnd_spec hs
          refine ⟨rfl, ⟨hσclk, hterm, hdead, hnd', ?_⟩⟩
          rw [htim, hclk]
          simp only [setTimer, next10, Label.terminates]
          exact rel_kill hi.tim _ (fun x τ h => by
            unfold tOk at *; split <;> simp_all)
        case fire t m =>
          simp only [step] at hs
          obtain ⟨x, due, hx, hst, hdue, _, htim⟩ := stepFire_spec hs
          obtain ⟨τ, hτ, hok⟩ := (c10_find hi t).1 x hx
          have hnd := hlive t x hx (by unfold Timer.Dead; simp [hst])
          have hbad : bad10 σ (.fire t m) = false := by
            simp only [bad10, hτ, hi.term, hnd, hi.clock]
            unfold tOk at hok
            simp [hst] at hok
            obtain ⟨⟨⟨_, hk⟩, _⟩, hl, hf⟩ := hok
            simp only [hl, hk]
            rcases hf with hf | hf <;> simp [hf] <;> omega
          refine ⟨hbad, ⟨hσclk, hterm, hdead, hnd', ?_⟩⟩
          rw [hclk]
          rcases htim with ⟨htim, hk⟩ | htim <;> rw [htim] <;> simp only [setTimer, next10, C10St.upd]
          · refine rel_set hi.tim hi.nodup t x hx _ _ ?_
            intro υ hυ
            unfold tOk at hυ ⊢
            simp [hst] at hυ ⊢
            obtain ⟨h1, hl, _⟩ := hυ
            simp [h1, hl, hdue]
          · refine rel_set hi.tim hi.nodup t x hx _ _ ?_
            intro υ hυ
            unfold tOk at hυ ⊢
            simp [hst] at hυ ⊢
            exact hυ.1
        case cbEnd cb ok =>
          have hcb : cb = .stopped := by cases cb <;> simp_all [Label.touchesTimers]
          subst hcb
          simp only [step, stepCbEnd] at hs
          split at hs
          · simp at hs
          · cases hp : s.phase <;> simp [hp] at hs
            · obtain ⟨_, rfl⟩ := hs
              refine ⟨rfl, ⟨hσclk, hterm, hdead, hnd', ?_⟩⟩
              simp only [next10, Label.terminates]
              by_cases hr : w.refreshResetsTimers = true
              · simp only [refreshTimers, hr, if_true, killTimers]
                exact rel_kill hi.tim _ (fun x τ h => tOk_kill h)
              · simp [refreshTimers, hr]; exact hi.tim
            · obtain ⟨_, rfl⟩ := hs
              exact ⟨rfl, ⟨hσclk, hterm, hdead, hnd', by simpa [next10, Label.terminates] using hi.tim⟩⟩
        case cancel =>
          simp only [step, stepCancel] at hs
          split at hs
          · simp at hs
          · simp at hs; subst hs
            refine ⟨rfl, ⟨hσclk, hterm, hdead, hnd', ?_⟩⟩
            simp only [next10, Label.terminates, fail, killTimers, cancelSlots]
            exact rel_kill hi.tim _ (fun x τ h => tOk_kill h)
        case taskPanic =>
          simp only [step, stepTaskPanic] at hs
          (repeat' (split at hs)) <;>
            (first
              | (simp at hs; done)
              | (simp at hs; subst hs
                 refine ⟨rfl, ⟨hσclk, hterm, hdead, hnd', ?_⟩⟩
                 simp only [next10, Label.terminates, fail, killTimers, cancelSlots]
                 exact rel_kill hi.tim _ (fun x τ h => tOk_kill h)))
        case taskDone =>
          simp only [step, stepTaskDone] at hs
          (repeat' (split at hs)) <;>
            (first
              | (simp at hs; done)
              | (simp at hs; subst hs
                 refine ⟨rfl, ⟨hσclk, hterm, hdead, hnd', ?_⟩⟩
                 simp only [next10, Label.terminates, fail, finish, killTimers, cancelSlots]
                 exact rel_kill hi.tim _ (fun x τ h => tOk_kill h)))
      · have htt' : l.touchesTimers = false := by simpa using htt
        have hts := step_timers_same hs htt'
        have hbad : bad10 σ l = false := by
          cases l <;> simp [Label.touchesTimers] at htt' <;> simp only [bad10]
          case cbBegin cb => rw [hi.term]; exact not_done_of_begin hs (.inl ⟨cb, rfl⟩)
          case tickBegin t m => rw [hi.term]; exact not_done_of_begin hs (.inr ⟨t, m, rfl⟩)
        refine ⟨hbad, ⟨hσclk, hterm, hdead, hnd', ?_⟩⟩
        rw [hts, hclk, next10_timers_same σ l htt']
        exact hi.tim

theorem c10_init (c : MonCtx) : C10Inv (AState.init c.cfg c.h0 c.k0) (monC10 c).init := by
  refine ⟨rfl, ?_, ?_, ?_, ?_⟩
  · simp [monC10, AState.init, isDone]
  · intro _ x hx; simp [AState.init] at hx
  · simp [AState.init, timerIds]
  · simp [monC10, AState.init]; exact .nil

/-- **C10 (timers keep their period, die with the actor).** For every timer kind, duration, clock
    history and interleaving with messages, restarts and termination: each sleep of a timer lasts a full
    period / delay measured from when it is armed and starts only after the previous one was over, so two
    deliveries of one interval are never closer than its period; no timer's closure runs before its delay
    has elapsed; `delayed_send` / `delayed_exec` act at most once; after the actor has terminated no timer
    fires or re-arms and no callback of the actor begins. -/
theorem C10_holds (w : Wiring) (c : MonCtx) (ls : List Label) (s : AState)
    (hr : run w (AState.init c.cfg c.h0 c.k0) ls = some s) : (monC10 c).ok ls = true :=
  ok_of_run_lift (monC10 c) w C10Inv
    (fun s s' σ l hi hs => by
      obtain ⟨hb, hi'⟩ := c10_step w hi hs
      exact ⟨next10 σ l, by simp [monC10, hb], hi'⟩)
    _ (c10_init c) ls s hr

/-- Non-vacuity: an interval of period 5 fires at 5 and 10 and dies with the actor; an early fire, a
    short re-arm and a fire after termination are all flagged. -/
def c10Cfg : Cfg := { cap := none, strat := .only, timeout := none, failOnTimeout := false, stream := false }
def c10Ctx : MonCtx := { cfg := c10Cfg, h0 := 0, k0 := .addr, prompt := true }
def c10Example : List Label :=
  [ .cbBegin .started, .ctxTimer 0 .intervalWith 5, .cbEnd .started true, .timerArm 0 5, .time 5, .fire 0 (some 1),
    .timerArm 0 10, .cbBegin (.handle 1), .cbEnd (.handle 1) true, .time 10, .fire 0 (some 1), .timerArm 0 15 ]
example : (monC10 c10Ctx).ok c10Example = true := by decide
example : (monC10 c10Ctx).ok [ .cbBegin .started, .ctxTimer 0 .intervalWith 5, .cbEnd .started true,
    .timerArm 0 5, .time 4, .fire 0 (some 1) ] = false := by decide
example : (monC10 c10Ctx).ok [ .cbBegin .started, .ctxTimer 0 .intervalWith 5, .cbEnd .started true,
    .timerArm 0 4 ] = false := by decide
example : (monC10 c10Ctx).ok [ .cbBegin .started, .ctxTimer 0 .delayedExec 5, .cbEnd .started true,
    .timerArm 0 5, .time 5, .fire 0 none, .fire 0 none ] = false := by decide

end Hannibal
