import Hannibal.Props.C12Q
import Hannibal.Generated.Wiring
/- C12, "every send returns once the actor has caught up or terminated", for the wiring extracted from
   today's source; non-vacuity on a bounded mailbox (capacity 1). -/
namespace Hannibal

theorem C12q_current (c : MonCtx) (ls : List Label) (s : AState)
    (hr : run Wiring.current (AState.init c.cfg c.h0 c.k0) ls = some s) (hwf : opIdsFresh ls = true) :
    monC12q.ok ls = true :=
  C12q_holds _ c ls s hr hwf

def c12qCfg : Cfg := { cap := some 1, strat := .only, timeout := none, failOnTimeout := false, stream := false }

/-- capacity 1, three sends: the second and the third park; the actor handles everything, every send returns,
    and the model is quiet with nothing outstanding -/
example : (run Wiring.current (AState.init c12qCfg 0 .addr) c12qGood).isSome = true := by decide
example : (grun Wiring.current (AState.init c12qCfg 0 .addr) c12qGood).isSome = true := by decide
/-- ... the second and third send really are parked after their `begin` -/
example : (run Wiring.current (AState.init c12qCfg 0 .addr) (c12qGood.take 5)).map (·.chan.parked)
    = some [.op 1, .op 2] := by decide
/-- ... and cannot return before the actor takes a message out -/
example : run Wiring.current (AState.init c12qCfg 0 .addr) (c12qGood.take 6 ++ [.ret 1 .ok]) = none := by decide

/-- the actor terminates (its task is cancelled) with two sends parked: `Receiver::drop` wakes them, they
    return, nothing is outstanding at quiescence -/
def c12qCancelled : List Label :=
  [ .cbBegin .started, .cbEnd .started true,
    .begin 0 0 (.send 7), .begin 1 0 (.send 8), .begin 2 0 (.send 9),
    .cancel, .ret 0 .ok, .ret 1 .ok, .ret 2 .ok, .quiescent [] ]
example : (run Wiring.current (AState.init c12qCfg 0 .addr) c12qCancelled).isSome = true := by decide
example : monC12q.ok c12qCancelled = true := by decide
example : opIdsFresh c12qCancelled = true := by decide

/-- a bad trace: quiescence with a parked send outstanding.  The monitor rejects it, and the model refuses it
    (at the `quiescent` label: the prefix before it is a run) -/
def c12qBad : List Label :=
  [ .cbBegin .started, .cbEnd .started true, .begin 0 0 (.send 7), .begin 1 0 (.send 8), .quiescent [1] ]
example : monC12q.ok c12qBad = false := by decide
example : opIdsFresh c12qBad = true := by decide
example : run Wiring.current (AState.init c12qCfg 0 .addr) c12qBad = none := by decide
example : (run Wiring.current (AState.init c12qCfg 0 .addr) (c12qBad.take 4)).isSome = true := by decide
/-- the same after the actor caught up: the send can return, so the state is not quiet -/
example : run Wiring.current (AState.init c12qCfg 0 .addr)
    [ .cbBegin .started, .cbEnd .started true, .begin 0 0 (.send 7), .begin 1 0 (.send 8),
      .cbBegin (.handle 7), .cbEnd (.handle 7) true, .cbBegin (.handle 8), .cbEnd (.handle 8) true,
      .ret 0 .ok, .quiescent [1] ] = none := by decide

/-- why the hypothesis on operation ids is needed (1): the model lets the id of a returned send be re-used,
    here by an `await`, which legitimately is outstanding at quiescence; the monitor remembers id 0 as a send -/
def c12q_reuse_simple : List Label :=
  [ .cbBegin .started, .cbEnd .started true, .begin 0 0 (.send 7), .ret 0 .ok, .begin 0 0 .await,
    .cbBegin (.handle 7), .cbEnd (.handle 7) true, .quiescent [0] ]
example : (run Wiring.current (AState.init c12qCfg 0 .addr) c12q_reuse_simple).isSome = true := by decide
example : monC12q.ok c12q_reuse_simple = false := by decide
example : opIdsFresh c12q_reuse_simple = false := by decide

/-- why it is needed (2): the id of a dropped `Caller::call` is re-used by a send that parks; when the task is
    cancelled the reply slot of the queued call cancels the record with that id, which now is the send: the
    send record can never return and is outstanding at the (accepted) quiescence -/
def c12q_reuse_witness : List Label :=
  [ .cbBegin .started, .cbEnd .started true, .mk 0 1 .caller,
    .begin 0 1 (.callw 5), .cdrop 0, .begin 0 0 (.send 6), .cancel, .quiescent [0] ]
example : (run Wiring.current (AState.init c12qCfg 0 .addr) c12q_reuse_witness).isSome = true := by decide
example : (run Wiring.current (AState.init c12qCfg 0 .addr) c12q_reuse_witness).map (·.ops)
    = some [{ o := 0, h := 0, kind := .send 6, st := .cancelled }] := by decide
example : monC12q.ok c12q_reuse_witness = false := by decide
example : opIdsFresh c12q_reuse_witness = false := by decide

end Hannibal
