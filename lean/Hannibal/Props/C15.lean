import Hannibal.Proofs.Timers
import Hannibal.Proofs.Run
import Hannibal.Monitor.C15
import Hannibal.Generated.Wiring
/-
  C15 — every strong handle kind keeps the actor fully functional.

  For every wiring in which each strong handle kind (Addr, OwningAddr, Sender,
  Caller) owns both halves of the channel, every run of the actor model is
  accepted by `monC15`: while any strong handle exists, `Context::stop` /
  `restart` succeed, every weak handle upgrades, `weak_address` is `Some`, and
  `interval` timers of the running incarnation do not end.
-/
namespace Hannibal
open AState

structure C15Inv (s : AState) (σ : C15St) : Prop where
  h : HInv s σ.hold
  rx : RxInv s
  term : σ.terminated = s.isDone
  tim : ∀ t, lookup t σ.timers = some .interval → σ.terminated = false →
    ∀ x, s.findTimer t = some x → x.kind = .interval ∧ ¬ x.Dead

theorem lookup_filter_self {α} (t : Nat) (l : List (Nat × α)) :
    lookup t (l.filter (fun p => p.1 != t)) = none := by
  induction l with
  | nil => rfl
  | cons p ps ih =>
    by_cases h : p.1 = t
    · have : (p.1 != t) = false := by simp [h]
      rw [List.filter_cons]; simp only [this]; exact ih
    · have : (p.1 != t) = true := by simp [h]
      rw [List.filter_cons]; simp only [this, if_true]
      simp [lookup, h, ih]

theorem lookup_filter_ne {α} (t t' : Nat) (h : t' ≠ t) (l : List (Nat × α)) :
    lookup t' (l.filter (fun p => p.1 != t)) = lookup t' l := by
  induction l with
  | nil => rfl
  | cons p ps ih =>
    by_cases hp : p.1 = t
    · have h1 : (p.1 != t) = false := by simp [hp]
      have h2 : ¬ p.1 = t' := by intro h'; exact h (h'.symm.trans hp)
      rw [List.filter_cons]; simp only [h1]
      simp [lookup, h2, ih]
    · have h1 : (p.1 != t) = true := by simp [hp]
      rw [List.filter_cons]; simp only [h1, if_true]
      simp [lookup, ih]

theorem held_eq {s : AState} {σ : C15St} (hi : C15Inv s σ) :
    σ.hold.strongHeld = s.handles.any (fun p => p.2.strong) := by
  unfold HoldSt.strongHeld; rw [hi.h.handles]

/-- a step that leaves the timer table alone keeps the timer clause for any smaller monitor table -/
theorem tim_same {s s' : AState} {σ : C15St} (hi : C15Inv s σ) (ht : s'.timers = s.timers)
    (tm : List (Nat × TimerKind)) (term' : Bool)
    (hsub : ∀ t, lookup t tm = some .interval → lookup t σ.timers = some .interval)
    (hterm : term' = false → σ.terminated = false) :
    ∀ t, lookup t tm = some .interval → term' = false →
      ∀ x, s'.findTimer t = some x → x.kind = .interval ∧ ¬ x.Dead := by
  intro t hl ht' x hx
  have : s'.findTimer t = s.findTimer t := by unfold findTimer; rw [ht]
  rw [this] at hx
  exact hi.tim t (hsub t hl) (hterm ht') x hx

/-- timer `t0` is set to `st0` (on a state with the same timer table): the clause survives if the new
    state is a live one, or the timer is not an `interval` timer -/
theorem tim_set {s : AState} {σ : C15St} (hi : C15Inv s σ) (s1 : AState) (h1 : s1.timers = s.timers)
    (t0 : Nat) (st0 : TimerSt)
    (hst : (st0 ≠ .dead ∧ st0 ≠ .deadHolding ∧ st0 ≠ .ended) ∨ (∀ x0, s.findTimer t0 = some x0 → x0.kind ≠ .interval))
    (tm : List (Nat × TimerKind)) (term' : Bool)
    (hsub : ∀ t, lookup t tm = some .interval → lookup t σ.timers = some .interval)
    (hterm : term' = false → σ.terminated = false) :
    ∀ t, lookup t tm = some .interval → term' = false →
      ∀ x, (s1.setTimer t0 st0).findTimer t = some x → x.kind = .interval ∧ ¬ x.Dead := by
  intro t hl ht' x hx
  have hf1 : ∀ t, s1.findTimer t = s.findTimer t := by intro t; unfold findTimer; rw [h1]
  by_cases hte : t = t0
  · subst hte
    cases hf : s.findTimer t with
    | none =>
      have : (s1.setTimer t st0).findTimer t = none := by
        unfold findTimer setTimer
        rw [h1]
        unfold findTimer at hf
        simp only
        rw [List.find?_eq_none] at hf ⊢
        intro y hy
        obtain ⟨z, hz, rfl⟩ := List.mem_map.mp hy
        have := hf z hz
        split <;> simpa using this
      rw [this] at hx; simp at hx
    | some x0 =>
      have := findTimer_setTimer_eq (s := s1) (st := st0) (by rw [hf1]; exact hf)
      rw [this] at hx
      simp at hx; subst hx
      obtain ⟨hk, _⟩ := hi.tim t (hsub t hl) (hterm ht') x0 hf
      rcases hst with hst | hst
      · refine ⟨hk, ?_⟩
        intro hd; unfold Timer.Dead at hd; simp at hd
        rcases hd with hd | hd | hd
        · exact hst.1 hd
        · exact hst.2.1 hd
        · exact hst.2.2 hd
      · exact absurd hk (hst x0 hf)
  · rw [findTimer_setTimer_ne hte, hf1] at hx
    exact hi.tim t (hsub t hl) (hterm ht') x hx

theorem c15_step (w : Wiring) (hw : WellWired15 w) (c : MonCtx) {s s' : AState} {σ : C15St} {l : Label}
    (hi : C15Inv s σ) (hs : step w s l = some s') :
    ∃ σ', (monC15 c).step σ l = some σ' ∧ C15Inv s' σ' := by
  have hH := hinv_step hi.h hs
  have hR := rxInv_step hs hi.rx
  obtain ⟨hd1, hd2⟩ := step_isDone w hs
  have hheld := held_eq hi
  -- the `bad` test of the monitor never fires
  have hbad : (σ.hold.strongHeld && bad15 σ l) = false := by
    by_cases hh : σ.hold.strongHeld = true
    · rw [hheld] at hh
      have hreq := fun req => reqOk_of_strong hw hh req
      have hrxcb : s.inCallback = true → s.chan.rx = true := by
        intro hcb
        rcases hi.rx with h | h
        · rw [inCallback_not_done hcb] at h; simp at h
        · exact h
      simp only [hheld, hh, Bool.true_and]
      cases l <;> simp [bad15]
      case ctxStop ok =>
        cases ok <;> simp
        simp only [step, stepCtxSignal] at hs
        (repeat' (split at hs)) <;> simp_all
      case ctxRestart ok =>
        cases ok <;> simp
        simp only [step, stepCtxSignal] at hs
        (repeat' (split at hs)) <;> simp_all
      case upgrade h h' =>
        cases h' <;> simp
        simp only [step, stepUpgrade] at hs
        (repeat' (split at hs)) <;> simp_all
      case ctxWeak k h' =>
        cases k <;> cases h' <;> simp
        simp only [step, stepCtxWeak] at hs
        (repeat' (split at hs)) <;> simp_all
      case timerEnd t =>
        intro hnt hl
        have hnd : s.isDone = false := by rw [← hi.term]; exact hnt
        have hrx : s.chan.rx = true := by
          rcases hi.rx with h | h
          · rw [hnd] at h; simp at h
          · exact h
        simp only [step, stepTimerEnd] at hs
        cases hf : s.findTimer t with
        | none => simp [hf] at hs
        | some x =>
          obtain ⟨hk, hnd'⟩ := hi.tim t hl hnt x hf
          simp only [hf] at hs
          unfold Timer.Dead at hnd'
          cases hst : x.st <;> simp [hst] at hs hnd'
          · simp_all
          · simp_all
    · simp at hh; simp [hh]
  refine ⟨next15 σ l, by simp only [monC15, hbad]; rfl, ?_⟩
  have hterm : (next15 σ l).terminated = s'.isDone := by
    cases ht : l.terminates
    · rw [hd2 ht, ← hi.term]
      cases l <;> simp_all [next15, Label.terminates]
      all_goals (try (split <;> rfl))
      all_goals (try rfl)
    · rw [hd1 ht]
      cases l <;> simp_all [next15, Label.terminates]
  have hhold : (next15 σ l).hold = σ.hold.step l := by
    cases l <;> simp [next15]
    all_goals (try (split <;> rfl))
    all_goals (try (rename_i cb; cases cb <;> simp))
    all_goals (try (split <;> rfl))
  refine ⟨by rw [hhold]; exact hH, hR, hterm, ?_⟩
  -- the timer clause
  intro t hl hnt x hx
  by_cases htt : l.touchesTimers = true
  · cases l <;> simp [Label.touchesTimers] at htt
    case ctxTimer t0 k d =>
      simp only [step, stepCtxTimer] at hs
      split at hs
      · simp at hs; subst hs
        rename_i hc
        simp at hc
        have hl' : lookup t ((t0, k) :: σ.timers) = some .interval := by simpa [next15] using hl
        have hnt' : σ.terminated = false := by simpa [next15, Label.terminates] using hnt
        unfold findTimer at hx
        simp only [List.find?_append] at hx
        by_cases hte : t0 = t
        · subst hte
          have hnone : s.timers.find? (fun y => y.id == t0) = none := by
            rw [List.find?_eq_none]; intro y hy; simpa using hc.2 y hy
          simp [hnone] at hx
          simp [lookup] at hl'
          subst hx; simp [hl', Timer.Dead]
        · simp [lookup, hte] at hl'
          cases hf : s.timers.find? (fun y => y.id == t) with
          | none => simp [hf, hte] at hx
          | some y =>
            simp [hf] at hx; subst hx
            exact hi.tim t hl' hnt' y (by unfold findTimer; exact hf)
      · simp at hs
    case timerArm t0 due =>
      have hsub : ∀ t, lookup t (next15 σ (.timerArm t0 due)).timers = some .interval →
          lookup t σ.timers = some .interval := by intro t h; simpa [next15, Label.terminates] using h
      have hterm' : (next15 σ (.timerArm t0 due)).terminated = false → σ.terminated = false := by
        intro h; simpa [next15, Label.terminates] using h
      simp only [step, stepTimerArm] at hs
      (repeat' (split at hs)) <;>
        (first
          | (simp at hs; done)
          | (simp at hs; subst hs
             exact tim_set hi _ rfl t0 _ (.inl (by simp)) _ _ hsub hterm' t hl hnt x hx))
    case timerEnd t0 =>
      have hterm' : (next15 σ (.timerEnd t0)).terminated = false → σ.terminated = false := by
        intro h; simpa [next15, Label.terminates] using h
      have hl' : lookup t (σ.timers.filter (fun p => p.1 != t0)) = some .interval := by
        simpa [next15] using hl
      by_cases hte : t = t0
      · subst hte; rw [lookup_filter_self] at hl'; simp at hl'
      · rw [lookup_filter_ne t0 t hte] at hl'
        simp only [step, stepTimerEnd] at hs
        (repeat' (split at hs)) <;>
          (first
            | (simp at hs; done)
            | (simp at hs; subst hs
               rw [findTimer_setTimer_ne hte] at hx
               exact hi.tim t hl' (hterm' hnt) x hx))
    case fire t0 m =>
      have hsub : ∀ t, lookup t (next15 σ (.fire t0 m)).timers = some .interval →
          lookup t σ.timers = some .interval := by intro t h; simpa [next15, Label.terminates] using h
      have hterm' : (next15 σ (.fire t0 m)).terminated = false → σ.terminated = false := by
        intro h; simpa [next15, Label.terminates] using h
      simp only [step, stepFire] at hs
      cases hf : s.findTimer t0 with
      | none => simp [hf] at hs
      | some x0 =>
        simp only [hf] at hs
        have hkind : x0.kind ≠ .interval := by
          intro hk
          rw [hk] at hs
          (repeat' (split at hs)) <;> simp_all
        (repeat' (split at hs)) <;>
          (first
            | (simp at hs; done)
            | (simp at hs; subst hs
               exact tim_set hi _ rfl t0 _ (.inr (fun y hy => by rw [hf] at hy; simp at hy; subst hy; exact hkind))
                 _ _ hsub hterm' t hl hnt x hx))
    case cbEnd cb ok =>
      cases cb <;> simp [Label.touchesTimers] at htt
      simp [next15, lookup] at hl
    case cancel => simp [next15, Label.terminates] at hnt
    case taskPanic => simp [next15, Label.terminates] at hnt
    case taskDone => simp [next15, Label.terminates] at hnt
  · have htt' : l.touchesTimers = false := by simpa using htt
    have hts := step_timers_same hs htt'
    have hntl : l.terminates = false := by
      cases l <;> simp_all [Label.touchesTimers, Label.terminates]
    refine tim_same hi hts (next15 σ l).timers (next15 σ l).terminated ?_ ?_ t hl hnt x hx
    · intro t1 h1
      cases l <;> simp_all [next15, Label.touchesTimers]
      all_goals (try (split at h1 <;> simp_all))
      all_goals (try (rename_i cb; cases cb <;> simp_all [lookup]))
    · intro h1
      rw [hterm, hd2 hntl, ← hi.term] at h1
      exact h1

end Hannibal

namespace Hannibal
open AState

theorem c15_init (c : MonCtx) : C15Inv (AState.init c.cfg c.h0 c.k0) (monC15 c).init := by
  refine ⟨⟨rfl, by simp [AState.init]⟩, rxInv_init _ _ _, by simp [monC15, AState.init, isDone], ?_⟩
  intro t h; simp [monC15, lookup] at h

/-- **C15.** With every strong handle kind owning both halves of the channel, in every run of
    the model — all conversion/drop programs, any combination of strong handle kinds left
    alive, self-stop, self-restart, timers, weak upgrades, all interleavings — while some
    strong handle exists: `Context::stop` / `restart` succeed, weak handles upgrade,
    `weak_address` is `Some`, and `interval` timers of the running incarnation keep going. -/
theorem C15_holds (w : Wiring) (hw : WellWired15 w) (c : MonCtx) (ls : List Label) (s : AState)
    (hr : run w (AState.init c.cfg c.h0 c.k0) ls = some s) : (monC15 c).ok ls = true :=
  ok_of_run_lift (monC15 c) w C15Inv (fun _ _ _ _ hi hs => c15_step w hw c hi hs) _ (c15_init c) ls s hr

/-- Under the wiring in which `Caller` owns only the waiting half the property fails:
    only a Caller is left, a handler calls `ctx.stop()` and is refused. -/
def c15Witness : List Label :=
  [ .mk 0 1 .caller, .drop 0, .cbBegin .started, .cbEnd .started true, .begin 0 1 (.callw 1),
    .cbBegin (.handle 1), .ctxStop false ]

def callerTxOnly (w : Wiring) : Wiring :=
  { w with holds := fun k => if k = .caller then [.tx] else w.holds k }

def c15Cfg : Cfg := { cap := none, strat := .only, timeout := none, failOnTimeout := false, stream := false }

example : (run (callerTxOnly Wiring.current) (AState.init c15Cfg 0 .addr) c15Witness).isSome = true := by decide
example : (monC15 { cfg := c15Cfg, h0 := 0, k0 := .addr, prompt := true }).ok c15Witness = false := by decide

end Hannibal
