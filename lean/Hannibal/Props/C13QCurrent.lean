import Hannibal.Props.C13Q
import Hannibal.Props.C05Current
/- C13q for the wiring extracted from today's source. -/
namespace Hannibal

theorem C13q_current (c : MonCtx) (ls : List Label) (s : AState)
    (hr : run Wiring.current (AState.init c.cfg c.h0 c.k0) ls = some s) (hfresh : opIdsFresh ls = true) :
    (monC13q c).ok ls = true :=
  C13q_holds _ wellWired05_current c ls s hr hfresh

/-- the accepted example is a run of the model under today's wiring -/
example : (run Wiring.current (AState.init c13qCfg 0 .addr) c13qExample).isSome = true := by decide
/-- the model refuses to be quiescent with an item left, with the stream ended, or with the last strong
    handle gone, while the loop is still parked -/
example : (run Wiring.current (AState.init c13qCfg 0 .addr) [ .cbBegin .started, .cbEnd .started true,
    .streamReady 0, .streamReady 1, .cbBegin (.item 0), .cbEnd (.item 0) true, .quiescent [] ]).isSome = false := by
  decide
example : (run Wiring.current (AState.init c13qCfg 0 .addr)
    [ .cbBegin .started, .cbEnd .started true, .streamEnd, .quiescent [] ]).isSome = false := by decide
example : (run Wiring.current (AState.init c13qCfg 0 .addr)
    [ .cbBegin .started, .cbEnd .started true, .drop 0, .quiescent [] ]).isSome = false := by decide

/-- why the hypothesis on operation ids is needed: the model lets an id be reused after `cdrop`; the reply for
    the dropped call's message then reaches a `try_send` that carries the same id, which hangs for ever holding
    its upgraded sender: with the last strong handle gone the actor is quiescent and does not end -/
def c13qReuseWitness : List Label :=
  [ .cbBegin .started, .cbEnd .started true, .mk 0 1 .weakSender, .begin 5 0 (.call 1), .cdrop 5,
    .begin 5 1 (.trySend 2), .cbBegin (.handle 1), .cbEnd (.handle 1) true, .cbBegin (.handle 2),
    .cbEnd (.handle 2) true, .drop 0, .quiescent [5] ]
example : (run Wiring.current (AState.init c13qCfg 0 .addr) c13qReuseWitness).isSome = true := by decide
example : (monC13q c13qCtx).ok c13qReuseWitness = false := by decide
example : opIdsFresh c13qReuseWitness = false := by decide

/-- why the wiring hypothesis is needed: if weak senders owned a closure they would keep the channel open
    and the actor would stay parked after its last strong handle is gone -/
example : (run Wiring.weakOwns (AState.init c13qCfg 0 .addr)
    [ .cbBegin .started, .cbEnd .started true, .mk 0 1 .weakSender, .drop 0, .quiescent [] ]).isSome = true
  ∧ (monC13q c13qCtx).ok [ .cbBegin .started, .cbEnd .started true, .mk 0 1 .weakSender, .drop 0,
      .quiescent [] ] = false := by decide

end Hannibal
