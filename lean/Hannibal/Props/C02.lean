import Hannibal.Proofs.C02Quiet
import Hannibal.Proofs.C02Split
import Hannibal.Proofs.C02Strict
import Hannibal.Proofs.Run
/-
  C02 (calls return their own handler's result; every operation resolves): for every wiring whose loop
  notifies after `stopped()`, every run of the actor model whose `begin` labels carry pairwise distinct
  operation ids is accepted by `monC02`:
    * no operation returns twice;
    * (a) an `Ok(r)` returned to a call is the reply produced by the completed handler invocation for the
      call's own message, and only call-like operations get one;
    * (c) an operation begun after termination completes with an error (join: none / the value; await: the
      termination result, an error whenever the termination was not graceful);
    * (d) at quiescence nothing is pending except awaiting / joining a live actor: nothing hangs.
  The remainder of (c) — "an await begun after a termination that followed a completed `stopped` returns
  Ok" — is false of the model (`c02_await_witness` below) and stays in the trace-only `monC02t`.
-/
set_option linter.unusedSimpArgs false
set_option linter.unusedVariables false
namespace Hannibal
open AState

structure C02Inv (s : AState) (σ : C02St) : Prop where
  term : σ.terminated = s.isDone
  ops : ∀ r ∈ s.ops, opOk σ r = true
  ret : ∀ o ∈ σ.returned, (lookup o σ.ops).isSome = true
  queue : ∀ e ∈ s.chan.queue, plOk σ e.pl = true
  phase : phaseOk σ s.phase = true
  grace : gracefulEnd02 s.phase = true → σ.graceful = true
  tinv : TermInv s
  dchan : DoneChan s
  wf : s.chan.WF
  wait : WaitInv s

theorem c02_step (w : Wiring) (hw : w.notifyAfterStopped = true) {s s' : AState} {σ : C02St} {l : Label}
    (hi : C02Inv s σ) (hf : freshFor σ l) (hs : step w s l = some s') :
    bad02 σ l = false ∧ C02Inv s' (next02 σ l) := by
  have hbad : bad02 σ l = false := by
    cases l <;> try rfl
    case ret o res =>
      simp only [step] at hs
      obtain ⟨rec, hfind, hexp, _, _⟩ := stepRet_ops hs
      exact ret_accept hfind hexp (hi.ops rec (findOp_some_mem hfind).1) hi.tinv hi.grace
    case quiescent pend =>
      simp only [step] at hs
      exact quiescent_accept hs hi.ops hi.wait hi.wf hi.dchan hi.tinv hi.term
  refine ⟨hbad, ?_⟩
  obtain ⟨hq', hp'⟩ := qinv02_step hf hs hi.queue hi.phase
  obtain ⟨hd1, hd2⟩ := step_isDone w hs
  refine ⟨?_, ops_step hf hs hi.ops hi.ret hi.queue hi.phase hi.dchan hi.term, ?_, hq', hp',
    grace_step w hs hi.grace, termInv_step w hw hs hi.tinv, doneChan_step hs hi.dchan,
    (step_chan hs).wf hi.wf, waitInv_step hs (slotCb_of_phaseOk hi.phase) hi.wait⟩
  · simp only [next02_terminated]
    cases ht : l.terminates
    · simp; rw [hd2 ht]; exact hi.term
    · simp [hd1 ht]
  · intro o ho
    simp only [next02_returned] at ho
    have hold : ∀ o ∈ σ.returned, (lookup o (next02 σ l).ops).isSome = true := by
      intro o ho
      have := hi.ret o ho
      cases hl : lookup o σ.ops with
      | none => simp [hl] at this
      | some v => rw [lookup_next02 hf hl]; rfl
    cases l <;> try exact hold o ho
    rename_i o' res
    simp at ho
    rcases ho with rfl | ho
    · simp only [step] at hs
      obtain ⟨rec, hfind, _, _, _⟩ := stepRet_ops hs
      obtain ⟨hr, hro⟩ := findOp_some_mem hfind
      obtain ⟨late, h1, _⟩ := opOk_parts (hi.ops rec hr)
      rw [hro] at h1
      simp [h1]
    · exact hold o ho

theorem c02_init (c : MonCtx) : C02Inv (AState.init c.cfg c.h0 c.k0) (monC02 c).init := by
  refine ⟨rfl, ?_, ?_, ?_, rfl, ?_, termInv_init _ _ _, doneChan_init _ _ _, ?_, waitInv_init _ _ _⟩
  · intro r hr; simp [AState.init] at hr
  · intro o ho; simp [monC02, C02St.init] at ho
  · intro e he; simp [AState.init, Chan.init] at he
  · intro h; simp [AState.init, gracefulEnd02] at h
  · exact Chan.wf_init _

/-- the ids begun so far, as seen by the monitor and by the well-formedness automaton -/
def SeenOk (σ : C02St) (seen : List Nat) : Prop :=
  ∀ o, (lookup o σ.ops).isSome = true → seen.contains o = true

theorem wf_fresh {c : MonCtx} {σ : C02St} {seen seen1 : List Nat} {l : Label} (hseen : SeenOk σ seen)
    (hws : (monC02wf c).step seen l = some seen1) : freshFor σ l := by
  cases l <;> simp only [freshFor]
  rename_i o h k
  simp only [monC02wf] at hws
  split at hws
  · simp at hws
  · rename_i hc
    cases hl : lookup o σ.ops with
    | none => rfl
    | some v => exact absurd (hseen o (by simp [hl])) hc

theorem wf_seen {c : MonCtx} {σ : C02St} {seen seen1 : List Nat} {l : Label} (hseen : SeenOk σ seen)
    (hws : (monC02wf c).step seen l = some seen1) : SeenOk (next02 σ l) seen1 := by
  intro o ho
  cases l
  case begin o' h k =>
    simp only [monC02wf] at hws
    split at hws
    · simp at hws
    · simp at hws; subst hws
      simp only [next02_ops, lookup] at ho
      by_cases he : o' = o
      · simp [he]
      · simp [he] at ho
        have := hseen o (by simpa using ho)
        simp at this ⊢
        exact .inr this
  all_goals
    (simp only [monC02wf] at hws; simp at hws; subst hws
     exact hseen o (by simpa using ho))

/-- lifting to runs whose `begin` labels carry fresh operation ids -/
theorem c02_run (w : Wiring) (hw : w.notifyAfterStopped = true) (c : MonCtx) :
    ∀ (ls : List Label) (s s' : AState) (σ : C02St) (seen : List Nat), C02Inv s σ → SeenOk σ seen →
      run w s ls = some s' → ((monC02wf c).run seen ls).isSome = true →
      ((monC02 c).run σ ls).isSome = true
  | [], _, _, _, _, _, _, _, _ => by simp [Mon.run]
  | l :: ls, s, s', σ, seen, hi, hseen, hr, hwf => by
    simp only [run] at hr
    cases hs : step w s l with
    | none => simp [hs] at hr
    | some s1 =>
      simp only [hs] at hr
      simp only [Mon.run] at hwf ⊢
      cases hws : (monC02wf c).step seen l with
      | none => simp [hws] at hwf
      | some seen1 =>
        simp only [hws] at hwf
        obtain ⟨hb, hi1⟩ := c02_step w hw hi (wf_fresh hseen hws) hs
        have hm : (monC02 c).step σ l = some (next02 σ l) := by simp [monC02, hb]
        simp only [hm]
        exact c02_run w hw c ls s1 s' (next02 σ l) seen1 hi1 (wf_seen hseen hws) hr hwf

theorem seenOk_init : SeenOk C02St.init [] := by
  intro o ho; simp [C02St.init, lookup] at ho

/-- **C02.** For every wiring whose loop notifies after `stopped()`, every run of the actor model whose
    `begin` labels carry pairwise distinct operation ids is accepted by `monC02`. -/
theorem C02_holds (w : Wiring) (hw : w.notifyAfterStopped = true) (c : MonCtx) (ls : List Label) (s : AState)
    (hr : run w (AState.init c.cfg c.h0 c.k0) ls = some s) (hfresh : opIdsFresh ls = true) :
    (monC02 c).ok ls = true := by
  unfold Mon.ok
  exact c02_run w hw c ls _ s (monC02 c).init [] (c02_init c) seenOk_init
    hr (by simpa [opIdsFresh, Mon.ok, monC02wf] using hfresh)

/-! ### the trace-only clause, under the assumption that `cancel` does not strike right after `stopped` -/

theorem c02t_run (w : Wiring) (hw : w.notifyAfterStopped = true) (c : MonCtx) :
    ∀ (ls : List Label) (s s' : AState) (σ : C02St) (seen : List Nat), C02Inv s σ → SeenOk σ seen →
      (σ.graceful = true → gracePhase s.phase = true) →
      run w s ls = some s' → ((monC02wf c).run seen ls).isSome = true →
      ((monC02nc c).run σ.graceful ls).isSome = true →
      ((monC02t c).run σ ls).isSome = true
  | [], _, _, _, _, _, _, _, _, _, _ => by simp [Mon.run]
  | l :: ls, s, s', σ, seen, hi, hseen, hgp, hr, hwf, hnc => by
    simp only [run] at hr
    cases hs : step w s l with
    | none => simp [hs] at hr
    | some s1 =>
      simp only [hs] at hr
      simp only [Mon.run] at hwf hnc ⊢
      cases hws : (monC02wf c).step seen l with
      | none => simp [hws] at hwf
      | some seen1 =>
        simp only [hws] at hwf
        cases hns : (monC02nc c).step σ.graceful l with
        | none => simp [hns] at hnc
        | some g1 =>
          simp only [hns] at hnc
          obtain ⟨_, hi1⟩ := c02_step w hw hi (wf_fresh hseen hws) hs
          have hg1 : g1 = (next02 σ l).graceful := by
            simp only [next02_graceful]
            cases l with
            | cancel => simp only [monC02nc] at hns; split at hns <;> simp at hns; exact hns.symm
            | cbBegin cb => simp [monC02nc] at hns; simp [← hns]
            | cbEnd cb ok =>
              cases cb <;> cases ok <;> simp only [monC02nc] at hns <;> simp at hns <;> simp [← hns]
            | _ => simp [monC02nc] at hns; simp [← hns]
          have hcancel : l = .cancel → σ.graceful = false := by
            intro hl; subst hl
            simp only [monC02nc] at hns
            split at hns
            · simp at hns
            · rename_i h; simpa using h
          have hgp1 := gracePhase_step w hs hcancel hgp
          have hb : bad02t σ l = false := by
            cases l <;> try rfl
            rename_i o res
            simp only [step] at hs
            obtain ⟨rec, hfind, hexp, _, _⟩ := stepRet_ops hs
            exact ret_accept_t hfind hexp (hi.ops rec (findOp_some_mem hfind).1) hi.tinv hgp
          have hm : (monC02t c).step σ l = some (next02 σ l) := by simp [monC02t, hb]
          simp only [hm]
          rw [hg1] at hnc
          exact c02t_run w hw c ls s1 s' (next02 σ l) seen1 hi1 (wf_seen hseen hws) hgp1 hr hwf hnc

/-- The trace-only remainder of clause (c) holds of every run in which, in addition, the loop task is not
    cancelled between the end of `stopped` and its next callback / its end. -/
theorem C02t_holds (w : Wiring) (hw : w.notifyAfterStopped = true) (c : MonCtx) (ls : List Label) (s : AState)
    (hr : run w (AState.init c.cfg c.h0 c.k0) ls = some s) (hfresh : opIdsFresh ls = true)
    (hnc : noCancelAfterStopped ls = true) : (monC02t c).ok ls = true := by
  unfold Mon.ok
  exact c02t_run w hw c ls _ s (monC02t c).init [] (c02_init c) seenOk_init
    (by intro h; simp [monC02t, C02St.init] at h) hr
    (by simpa [opIdsFresh, Mon.ok, monC02wf] using hfresh)
    (by simpa [noCancelAfterStopped, Mon.ok, monC02nc, monC02t, C02St.init] using hnc)

/-- Together with the trace-only `monC02t` the proved monitor is exactly the property as first written. -/
theorem C02_split (c : MonCtx) (ls : List Label) :
    (monC02orig c).ok ls = ((monC02 c).ok ls && (monC02t c).ok ls) := monC02_split c ls

/-- Hence the property as first written holds of the runs that satisfy both assumptions. -/
theorem C02orig_holds (w : Wiring) (hw : w.notifyAfterStopped = true) (c : MonCtx) (ls : List Label) (s : AState)
    (hr : run w (AState.init c.cfg c.h0 c.k0) ls = some s) (hfresh : opIdsFresh ls = true)
    (hnc : noCancelAfterStopped ls = true) : (monC02orig c).ok ls = true := by
  rw [C02_split, C02_holds w hw c ls s hr hfresh, C02t_holds w hw c ls s hr hfresh hnc]; rfl

end Hannibal

namespace Hannibal
open AState

/-! ### non-vacuity -/

def c02Cfg : Cfg := { cap := none, strat := .only, timeout := none, failOnTimeout := false, stream := false }
def c02Ctx : MonCtx := { cfg := c02Cfg, h0 := 0, k0 := .addr, prompt := true }

/-- a call answered by its own handler, a ping, a send, an await pending at a first quiescence on the live
    actor, graceful stop, operations begun after termination, a final quiescence with nothing pending -/
def c02Example : List Label :=
  [ .cbBegin .started, .cbEnd .started true,
    .begin 0 0 (.call 1), .begin 1 0 .ping, .begin 2 0 .await, .begin 5 0 (.send 7),
    .cbBegin (.handle 1), .cbEnd (.handle 1) true, .ret 0 (.okReply { m := 1, birth := 0, digest := [1] }),
    .tDeq, .ret 1 .ok, .ret 5 .ok, .cbBegin (.handle 7), .cbEnd (.handle 7) true,
    .quiescent [2],
    .stopReq 0 true, .tDeq, .cbBegin .stopped, .cbEnd .stopped true, .taskDone,
    .ret 2 .ok,
    .begin 3 0 (.call 9), .ret 3 (.err .send), .begin 4 0 .await, .ret 4 .ok,
    .quiescent [] ]

example : (monC02 c02Ctx).ok c02Example = true := by decide
example : (monC02t c02Ctx).ok c02Example = true := by decide
/-- the well-formedness hypothesis is satisfiable (and holds of the example) -/
example : opIdsFresh c02Example = true := by decide
example : noCancelAfterStopped c02Example = true := by decide

/-- swapped replies: the reply computed for message 1 handed to the call for message 2 -/
example : (monC02 c02Ctx).ok [ .cbBegin .started, .cbEnd .started true, .begin 0 0 (.call 1), .begin 1 0 (.call 2),
    .cbBegin (.handle 1), .cbEnd (.handle 1) true,
    .ret 1 (.okReply { m := 1, birth := 0, digest := [1] }) ] = false := by decide
/-- an invented reply: Ok for a message whose handler invocation never completed -/
example : (monC02 c02Ctx).ok [ .cbBegin .started, .cbEnd .started true, .begin 0 0 (.call 1),
    .ret 0 (.okReply { m := 1, birth := 0, digest := [1] }) ] = false := by decide
/-- a duplicated response -/
example : (monC02 c02Ctx).ok [ .cbBegin .started, .cbEnd .started true, .begin 0 0 (.call 1),
    .cbBegin (.handle 1), .cbEnd (.handle 1) true, .ret 0 (.okReply { m := 1, birth := 0, digest := [1] }),
    .ret 0 (.okReply { m := 1, birth := 0, digest := [1] }) ] = false := by decide
/-- a call left hanging at quiescence -/
example : (monC02 c02Ctx).ok [ .cbBegin .started, .cbEnd .started true, .begin 0 0 (.call 1),
    .cbBegin (.handle 1), .cbEnd (.handle 1) true, .quiescent [0] ] = false := by decide
/-- a send on a terminated actor reported as delivered -/
example : (monC02 c02Ctx).ok [ .cbBegin .started, .cbEnd .started true, .cancel, .begin 0 0 (.send 1),
    .ret 0 .ok ] = false := by decide
/-- an await left hanging after termination -/
example : (monC02 c02Ctx).ok [ .cbBegin .started, .cbEnd .started true, .begin 0 0 .await, .cancel,
    .quiescent [0] ] = false := by decide

/-! ### the part of (c) that is false of the model

  The model lets `cancel` strike after the `stopped` callback has returned and before the loop task has
  finished (phase `exiting true`), or between `stopped` and `started` of a restart: the latch is then
  dropped, and an await begun afterwards gets the termination error although the last callback event was a
  completed `stopped`.  `monC02orig` (hence `monC02t`) rejects these runs of the model. -/

def c02AwaitWitness : List Label :=
  [ .cbBegin .started, .cbEnd .started true, .stopReq 0 true, .tDeq, .cbBegin .stopped, .cbEnd .stopped true,
    .cancel, .begin 1 0 .await, .ret 1 (.err .canceled) ]
def c02AwaitWitness2 : List Label :=
  [ .cbBegin .started, .cbEnd .started true, .restartReq 0 true, .tDeq, .cbBegin .stopped, .cbEnd .stopped true,
    .cancel, .begin 1 0 .await, .ret 1 (.err .canceled) ]

example : (monC02orig c02Ctx).ok c02AwaitWitness = false := by decide
example : (monC02t c02Ctx).ok c02AwaitWitness = false := by decide
example : (monC02 c02Ctx).ok c02AwaitWitness = true := by decide
example : opIdsFresh c02AwaitWitness = true := by decide
example : (monC02t c02Ctx).ok c02AwaitWitness2 = false := by decide
example : noCancelAfterStopped c02AwaitWitness = false := by decide

/-- why the hypothesis on operation ids is needed: the model lets an id be reused after `cdrop`, and the
    reply for the first call's message then reaches the second call -/
def c02ReuseWitness : List Label :=
  [ .cbBegin .started, .cbEnd .started true, .begin 0 0 (.call 1), .cdrop 0, .begin 0 0 (.call 2),
    .cbBegin (.handle 1), .cbEnd (.handle 1) true, .ret 0 (.okReply { m := 1, birth := 0, digest := [1] }) ]
example : (monC02 c02Ctx).ok c02ReuseWitness = false := by decide
example : opIdsFresh c02ReuseWitness = false := by decide

end Hannibal
