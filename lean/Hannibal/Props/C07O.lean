import Hannibal.Proofs.C07OOrder
import Hannibal.Proofs.C07OTimers
import Hannibal.Proofs.RunGuard
/-
  C07 (order, and the ignored restart): for every wiring in which strong handle kinds own both channel
  closures and weak kinds own none (and need something to upgrade), every run of the actor model whose
  labels carry fresh message numbers and operation ids (`wf01`) is accepted by `monC07o`:
   (i)  the handler of a message whose submission began after n accepted restart requests (from a handle
        or from the context, whenever they were accepted: before `started`, inside a callback, while an
        earlier restart is still being served) runs in incarnation n + 1 of a restartable spawn — the
        mailbox is FIFO and each dequeued restart request gives exactly one `started` — and in incarnation 1
        of a spawn that is not restartable; no handler begins after a failure;
   (ii) a non-restartable plain actor that received a restart request keeps its repeating timers: while a
        strong handle is held, no stop was issued and it has neither failed nor terminated, no `interval`
        / `interval_with` timer ends.
  Freshness of message numbers is needed (`c07o_reuse_witness`), and so is the wiring hypothesis
  (`c07o_wiring_witness`).
-/
set_option linter.unusedSimpArgs false
set_option linter.unusedVariables false
namespace Hannibal
open AState

structure C07oInv (c : MonCtx) (s : AState) (σ : C07oSt) (g : Wf01St) : Prop where
  o : Ord07 c s σ g
  t : Tim07 c s σ

theorem c07o_step (w : Wiring) (hw : WellWired05 w) (c : MonCtx) {s s' : AState} {σ : C07oSt} {g g' : Wf01St}
    {l : Label} (hi : C07oInv c s σ g) (hs : step w s l = some s') (hg : monWf01.step g l = some g') :
    ∃ σ', (monC07o c).step σ l = some σ' ∧ C07oInv c s' σ' g' := by
  obtain ⟨hb1, ho⟩ := ord07_step w c hi.o hs hg
  obtain ⟨hb2, ht⟩ := tim07_step w hw c hi.o.c3.cfg hi.o.c3.rst hi.t hs
  exact ⟨next07o σ l, by rw [mon07o_eq, hb1, hb2]; rfl, ⟨ho, ht⟩⟩

theorem c07o_init (c : MonCtx) :
    C07oInv c (AState.init c.cfg c.h0 c.k0) (monC07o c).init monWf01.init :=
  ⟨ord07_init c, tim07_init c⟩

/-- **C07 (order / ignored restart).** -/
theorem C07o_holds (w : Wiring) (hw : WellWired05 w) (c : MonCtx) (ls : List Label) (s : AState)
    (hr : run w (AState.init c.cfg c.h0 c.k0) ls = some s) (hwf : wf01 ls = true) :
    (monC07o c).ok ls = true :=
  ok_of_run_lift_g (monC07o c) monWf01 w (C07oInv c)
    (fun _ _ _ _ _ _ hi hs hg => c07o_step w hw c hi hs hg) _ (c07o_init c) ls s hr hwf

/-! ### non-vacuity -/

def c07oCfg : Cfg := { cap := none, strat := .only, timeout := none, failOnTimeout := false, stream := false }
def c07oCtx : MonCtx := { cfg := c07oCfg, h0 := 0, k0 := .addr, prompt := true }
def c07oCfgN : Cfg := { cap := none, strat := .non, timeout := none, failOnTimeout := false, stream := false }
def c07oCtxN : MonCtx := { cfg := c07oCfgN, h0 := 0, k0 := .addr, prompt := true }

/-- restart requests before `started`, from inside `started`, from inside `stopped` of a restart being
    served, and from outside while a handler runs; every message is handled by the incarnation that follows
    exactly the requests accepted before its submission -/
def c07oExample : List Label :=
  [ .restartReq 0 true, .begin 0 0 (.send 1), .cbBegin .started, .ctxRestart true, .begin 1 0 (.call 2),
    .cbEnd .started true, .tDeq, .cbBegin .stopped, .ctxRestart true, .begin 2 0 (.send 3), .cbEnd .stopped true,
    .cbBegin .started, .cbEnd .started true, .cbBegin (.handle 1), .restartReq 0 true, .cbEnd (.handle 1) true,
    .tDeq, .cbBegin .stopped, .cbEnd .stopped true, .cbBegin .started, .begin 3 0 (.send 4), .cbEnd .started true,
    .cbBegin (.handle 2), .cbEnd (.handle 2) true, .tDeq, .cbBegin .stopped, .cbEnd .stopped true,
    .cbBegin .started, .cbEnd .started true, .cbBegin (.handle 3), .cbEnd (.handle 3) true, .tDeq,
    .cbBegin .stopped, .cbEnd .stopped true, .cbBegin .started, .cbEnd .started true, .cbBegin (.handle 4),
    .cbEnd (.handle 4) true ]
example : (monC07o c07oCtx).ok c07oExample = true := by decide
example : wf01 c07oExample = true := by decide

/-- a non-restartable spawn ignores the request and keeps its `interval` timer going -/
def c07oExampleN : List Label :=
  [ .cbBegin .started, .ctxTimer 1 .interval 5, .cbEnd .started true, .timerArm 1 5, .restartReq 0 true,
    .begin 0 0 (.send 1), .tDeq, .cbBegin (.handle 1), .cbEnd (.handle 1) true, .time 5, .timerArm 1 10,
    .tickBegin 1 2, .cbBegin (.handle 2), .cbEnd (.handle 2) true ]
example : (monC07o c07oCtxN).ok c07oExampleN = true := by decide
example : wf01 c07oExampleN = true := by decide

/-- rejected: a message submitted after an accepted restart request is handled by the old incarnation -/
example : (monC07o c07oCtx).ok
    [ .cbBegin .started, .cbEnd .started true, .restartReq 0 true, .begin 0 0 (.send 1),
      .cbBegin (.handle 1) ] = false := by decide
/-- rejected: a non-restartable spawn runs a second `started` before the message -/
example : (monC07o c07oCtxN).ok
    [ .cbBegin .started, .cbEnd .started true, .restartReq 0 true, .begin 0 0 (.send 1), .tDeq, .cbBegin .stopped,
      .cbEnd .stopped true, .cbBegin .started, .cbEnd .started true, .cbBegin (.handle 1) ] = false := by decide
/-- rejected: the ignored restart request ends the `interval` timer all the same -/
example : (monC07o c07oCtxN).ok (c07oExampleN.take 7 ++ [ .timerEnd 1 ]) = false := by decide
/-- rejected: a handler after a failure -/
example : (monC07o c07oCtx).ok
    [ .cbBegin .started, .begin 0 0 (.send 1), .cbEnd .started false, .cbBegin (.handle 1) ] = false := by decide

/-- Why fresh message numbers: the same number submitted before and after a restart request. -/
def c07o_reuse_witness : List Label :=
  [ .cbBegin .started, .cbEnd .started true, .begin 0 0 (.send 1), .restartReq 0 true, .begin 1 0 (.send 1),
    .cbBegin (.handle 1) ]
example : (monC07o c07oCtx).ok c07o_reuse_witness = false := by decide
example : wf01 c07o_reuse_witness = false := by decide

/-- Why the wiring hypothesis: if `Sender` owned only the waiting closure, a non-restartable actor held by a
    Sender alone would lose its `interval` timer (its weak sender no longer upgrades). -/
def c07o_wiring_witness : List Label :=
  [ .mk 0 1 .sender, .cbBegin .started, .ctxTimer 1 .interval 5, .cbEnd .started true, .timerArm 1 5,
    .restartReq 0 true, .drop 0, .tDeq, .time 5, .timerEnd 1 ]
def senderTxOnly07 (w : Wiring) : Wiring :=
  { w with holds := fun k => if k = .sender then [.tx] else w.holds k }
example : (monC07o c07oCtxN).ok c07o_wiring_witness = false := by decide
example : wf01 c07o_wiring_witness = true := by decide

end Hannibal
