import Hannibal.Props.C11C
import Hannibal.Generated.Wiring
/- C11c (the caller of an abandoned invocation receives an error) for the wiring extracted from today's
   source (the theorem holds for every wiring), with runs of that wiring as witnesses. -/
namespace Hannibal

theorem C11c_current (c : MonCtx) (ls : List Label) (s : AState)
    (hr : run Wiring.current (AState.init c.cfg c.h0 c.k0) ls = some s) (hwf : wf01 ls = true) :
    (monC11c c).ok ls = true :=
  C11c_holds _ c ls s hr hwf

/-! ### non-vacuity: timeout 5, a call whose invocation needs 9 is abandoned at the deadline, its caller
    gets `canceled`, the next call is served -/

example : (run Wiring.current (AState.init c11cCfg 0 .addr) c11cExample).isSome = true := by decide
example : (grun Wiring.current (AState.init c11cCfg 0 .addr) c11cExample).isSome = true := by decide
example : wf01 c11cExample = true := by decide
example : (monC11c c11cCtx).ok c11cExample = true := by decide

/-- the same with `fail_on_timeout`: the abandoned invocation ends the actor; both callers get `canceled` -/
def c11cCfgFail : Cfg := { cap := none, strat := .only, timeout := some 5, failOnTimeout := true, stream := false }
def c11cCtxFail : MonCtx := { cfg := c11cCfgFail, h0 := 0, k0 := .addr, prompt := true }
def c11cExampleFail : List Label :=
  [ .cbBegin .started, .cbEnd .started true, .begin 0 0 (.call 1), .begin 1 0 (.call 2), .cbBegin (.handle 1),
    .work 9, .time 5, .cbAbandon (.handle 1), .taskDone, .ret 0 (.err .canceled), .ret 1 (.err .canceled) ]
example : (run Wiring.current (AState.init c11cCfgFail 0 .addr) c11cExampleFail).isSome = true := by decide
example : (grun Wiring.current (AState.init c11cCfgFail 0 .addr) c11cExampleFail).isSome = true := by decide
example : wf01 c11cExampleFail = true := by decide
example : (monC11c c11cCtxFail).ok c11cExampleFail = true := by decide

/-- the model refuses the bad continuation: after the abandonment the caller cannot get a reply -/
example : (run Wiring.current (AState.init c11cCfg 0 .addr) (c11cExample.take 8 ++
    [ .ret 0 (.okReply { m := 1, birth := 0, digest := [1] }) ])) = none := by decide

/-! ### two bad traces the monitor rejects -/

example : (monC11c c11cCtx).ok (c11cExample.take 8 ++
    [ .ret 0 (.okReply { m := 1, birth := 0, digest := [1] }) ]) = false := by decide
example : (monC11c c11cCtx).ok [ .cbBegin .started, .cbEnd .started true, .mk 0 1 .caller, .begin 0 1 (.callw 1),
    .cbBegin (.handle 1), .time 5, .cbAbandon (.handle 1), .ret 0 .ok ] = false := by decide

/-! ### why `wf01` is a hypothesis: the monitor identifies invocations by message number and callers by
    operation id; the model lets a trace re-use either.  Real traces never do. -/

/-- a message number used twice: the first invocation of "1" is abandoned (its caller gets the error), the
    second call of "1" is served — for the monitor "1" was abandoned -/
def c11cReuseMsg : List Label :=
  [ .cbBegin .started, .cbEnd .started true, .begin 0 0 (.call 1), .cbBegin (.handle 1), .time 5,
    .cbAbandon (.handle 1), .ret 0 (.err .canceled), .begin 1 0 (.call 1), .cbBegin (.handle 1),
    .cbEnd (.handle 1) true, .ret 1 (.okReply { m := 1, birth := 0, digest := [1, 1] }) ]
example : (run Wiring.current (AState.init c11cCfg 0 .addr) c11cReuseMsg).isSome = true := by decide
example : (grun Wiring.current (AState.init c11cCfg 0 .addr) c11cReuseMsg).isSome = true := by decide
example : (monC11c c11cCtx).ok c11cReuseMsg = false := by decide
example : wf01 c11cReuseMsg = false := by decide

/-- an operation id re-used after its future was dropped: the reply slot of the dropped call "1" is filled
    into the record of the new call "2", whose own invocation is abandoned later -/
def c11cReuseOp : List Label :=
  [ .cbBegin .started, .cbEnd .started true, .begin 0 0 (.call 1), .cdrop 0, .begin 0 0 (.call 2),
    .cbBegin (.handle 1), .cbEnd (.handle 1) true, .cbBegin (.handle 2), .time 5, .cbAbandon (.handle 2),
    .ret 0 (.okReply { m := 1, birth := 0, digest := [1] }) ]
example : (run Wiring.current (AState.init c11cCfg 0 .addr) c11cReuseOp).isSome = true := by decide
example : (grun Wiring.current (AState.init c11cCfg 0 .addr) c11cReuseOp).isSome = true := by decide
example : (monC11c c11cCtx).ok c11cReuseOp = false := by decide
example : wf01 c11cReuseOp = false := by decide

end Hannibal
