import Hannibal.Proofs.C01PQueue
import Hannibal.Props.C04P
import Hannibal.Monitor.C01P
/-
  C01 (the mailbox is FIFO, said of pings): for every wiring, every run of the actor model whose `begin` labels
  carry pairwise distinct operation ids (`opIdsFresh`, implied by `wf01`) is accepted by `monC01p`:

    when a `ping` returns Ok, every message whose send-like operation (`send` / `try_send` / `try_force_send`)
    had returned Ok before the ping's `begin` has had its handler invocation begun.

  Invariant (`C01pInv`): while the receiver exists an acknowledged message - and the message of every pending
  send-like operation - is begun or waits in the mailbox (`a`, `sn`); for every recorded ping whose payload waits
  in the mailbox, each message of its snapshot is begun or waits *ahead of that payload* (`b`); for a record in
  status `pinged` the whole snapshot is begun (`p`) - the loop marks a ping only when it takes its payload from the
  head of the mailbox, i.e. when nothing waits ahead of it.  Submissions go behind everything queued, the loop only
  takes the head, `dropRx` empties the mailbox (the pings behind are cancelled, never `pinged`).

  Freshness of message numbers is NOT needed (the monitor's `begun` only grows); freshness of operation ids is
  (`Props/C01PCurrent.lean`, `c01pReuseOp`).
-/
namespace Hannibal
open AState

/-! ### the monitor's update -/

theorem monC01p_step (σ : C01pSt) (l : Label) :
    monC01p.step σ l = if bad01p σ l then none else some (next01p σ l) := rfl

theorem next01p_begun_mono (σ : C01pSt) (l : Label) {m : Nat} (h : m ∈ σ.begun) : m ∈ (next01p σ l).begun := by
  cases l <;> simp only [next01p] <;> try exact h
  case begin o h' k => cases k <;> exact h
  case ret o r => (repeat' split) <;> exact h
  case cbBegin cb => cases cb <;> simp only <;> first | exact h | exact List.mem_cons_of_mem _ h

theorem next01p_begun_new (σ : C01pSt) (m : Nat) : m ∈ (next01p σ (.cbBegin (.handle m))).begun := by
  simp [next01p]

theorem next01p_acked_cases {σ : C01pSt} {l : Label} {m : Nat} (h : m ∈ (next01p σ l).acked) :
    m ∈ σ.acked ∨ ∃ o, l = .ret o .ok ∧ lookup o σ.sends = some m := by
  cases l <;> simp only [next01p] at h <;> try exact .inl h
  case begin o h' k => cases k <;> exact .inl h
  case cbBegin cb => cases cb <;> exact .inl h
  case ret o r =>
    cases hl : lookup o σ.sends with
    | none => simp only [hl] at h; exact .inl h
    | some m0 =>
      simp only [hl] at h
      by_cases hr : r = .ok
      · subst hr
        simp only [beq_self_eq_true, if_true] at h
        rcases List.mem_cons.mp h with rfl | h
        · exact .inr ⟨o, rfl, hl⟩
        · exact .inl h
      · have hr' : (r == Res.ok) = false := by simpa using hr
        simp only [hr', Bool.false_eq_true, if_false] at h
        exact .inl h

theorem next01p_pings_cases {σ : C01pSt} {l : Label} {o : Nat} {before : List Nat}
    (h : lookup o (next01p σ l).pings = some before) :
    lookup o σ.pings = some before ∨ ∃ h', l = .begin o h' .ping ∧ before = σ.acked := by
  cases l <;> simp only [next01p] at h <;> try exact .inl h
  case cbBegin cb => cases cb <;> exact .inl h
  case ret o' r => revert h; (repeat' split) <;> exact fun h => .inl h
  case begin o' h' k =>
    cases k <;> try exact .inl h
    case ping =>
      by_cases ho : o' = o
      · subst ho
        rw [lookup_cons_self] at h
        exact .inr ⟨h', rfl, by simpa using h.symm⟩
      · rw [lookup_cons_other _ _ ho] at h
        exact .inl h

theorem next01p_sends_cases {σ : C01pSt} {l : Label} {o m : Nat} (h : lookup o (next01p σ l).sends = some m) :
    lookup o σ.sends = some m ∨ ∃ h' k, l = .begin o h' k ∧ sendMsg? k = some m := by
  cases l <;> simp only [next01p] at h <;> try exact .inl h
  case cbBegin cb => cases cb <;> exact .inl h
  case ret o' r => revert h; (repeat' split) <;> exact fun h => .inl h
  case begin o' h' k =>
    cases k <;> try exact .inl h
    all_goals
      by_cases ho : o' = o
      · subst ho
        rw [lookup_cons_self] at h
        exact .inr ⟨h', _, rfl, by simpa [sendMsg?] using h⟩
      · rw [lookup_cons_other _ _ ho] at h
        exact .inl h

/-! ### the monitor's tables versus the table of all operations begun so far (ghost) -/

structure MInv01p (σ : C01pSt) (ops : List (Nat × OpKind)) (seen : List Nat) : Prop where
  sends : ∀ o m, lookup o σ.sends = some m → ∃ k, lookup o ops = some k ∧ sendMsg? k = some m
  pings : ∀ o before, lookup o σ.pings = some before → lookup o ops = some .ping
  seen : ∀ o, o ∉ seen → lookup o ops = none

theorem opsNext4_other01p (ops : List (Nat × OpKind)) (l : Label) (o : Nat) (h : ∀ h' k, l ≠ .begin o h' k) :
    lookup o (opsNext4 ops l) = lookup o ops := by
  cases l <;> simp only [opsNext4]
  case begin o' h' k =>
    exact lookup_cons_other _ _ (fun he => h h' k (by rw [he]))

theorem minv01p_step {σ : C01pSt} {ops : List (Nat × OpKind)} {seen : List Nat} {l : Label}
    (hi : MInv01p σ ops seen) (hf : Fresh04p seen l) :
    MInv01p (next01p σ l) (opsNext4 ops l) (seenNext04p seen l) := by
  refine ⟨?_, ?_, ?_⟩
  · intro o m h
    rcases next01p_sends_cases h with h | ⟨h', k, rfl, hk⟩
    · obtain ⟨k, hk, hm⟩ := hi.sends o m h
      refine ⟨k, ?_, hm⟩
      rw [opsNext4_other01p _ _ _ ?_]; exact hk
      rintro h' k' rfl
      have := hi.seen o (hf o h' k' rfl)
      rw [this] at hk; cases hk
    · exact ⟨k, lookup_cons_self _ _ _, hk⟩
  · intro o before h
    rcases next01p_pings_cases h with h | ⟨h', rfl, -⟩
    · have hk := hi.pings o before h
      rw [opsNext4_other01p _ _ _ ?_]; exact hk
      rintro h' k' rfl
      have := hi.seen o (hf o h' k' rfl)
      rw [this] at hk; cases hk
    · exact lookup_cons_self _ _ _
  · intro o ho
    cases l <;> simp only [seenNext04p, opsNext4] at ho ⊢ <;> try exact hi.seen o ho
    case begin o' h' k =>
      simp only [List.mem_cons, not_or] at ho
      rw [lookup_cons_other _ _ (fun he => ho.1 he.symm)]
      exact hi.seen o ho.2

/-! ### the invariant -/

structure C01pInv (s : AState) (σ : C01pSt) (ops : List (Nat × OpKind)) (seen : List Nat) : Prop where
  opsT : OpsT s ops
  mon : MInv01p σ ops seen
  qSeen : ∀ o ∈ qpings04p s.chan.queue, o ∈ seen
  /-- an acknowledged message is begun or waits in the mailbox -/
  a : s.chan.rx = true → ∀ m ∈ σ.acked, m ∈ σ.begun ∨ m ∈ qmsgs s.chan
  /-- so does the message of a pending send-like operation -/
  sn : s.chan.rx = true → ∀ rec ∈ s.ops, rec.st = .pending → ∀ m, sendMsg? rec.kind = some m →
    m ∈ σ.begun ∨ m ∈ qmsgs s.chan
  /-- the snapshot of a ping whose payload waits in the mailbox is begun or waits ahead of that payload -/
  b : ∀ o before, lookup o σ.pings = some before → o ∈ qpings04p s.chan.queue →
    ∀ m ∈ before, m ∈ σ.begun ∨ m ∈ aheadOf01p o s.chan.queue
  /-- the snapshot of a ping the loop has taken is begun -/
  p : ∀ rec ∈ s.ops, rec.st = .pinged → ∀ before, lookup rec.o σ.pings = some before → ∀ m ∈ before, m ∈ σ.begun

/-- begun or waiting, one step later (as long as the receiver exists) -/
theorem live_step01p {w s s' l} {σ : C01pSt} (hs : step w s l = some s') (hrx' : s'.chan.rx = true) {m : Nat}
    (h : m ∈ σ.begun ∨ m ∈ qmsgs s.chan) : m ∈ (next01p σ l).begun ∨ m ∈ qmsgs s'.chan := by
  rcases h with h | h
  · exact .inl (next01p_begun_mono _ _ h)
  · rcases (qrel_keep01p (step_q hs) hrx').2 m h with h | rfl
    · exact .inr h
    · exact .inl (next01p_begun_new _ _)

theorem msgNo_payloadOf_send01p {o : Nat} {k : OpKind} {m : Nat} (h : sendMsg? k = some m) :
    msgNo (payloadOf o k) = some m := by
  cases k <;> simp [sendMsg?] at h <;> simp [payloadOf, msgNo, h]

theorem inv01p_a_step {w s s' σ ops seen l} (hi : C01pInv s σ ops seen) (hs : step w s l = some s')
    (hrx' : s'.chan.rx = true) : ∀ m ∈ (next01p σ l).acked, m ∈ (next01p σ l).begun ∨ m ∈ qmsgs s'.chan := by
  intro m hm
  have hrx := (qrel_keep01p (step_q hs) hrx').1
  rcases next01p_acked_cases hm with h | ⟨o, rfl, hl⟩
  · exact live_step01p hs hrx' (hi.a hrx m h)
  · have hs' := hs
    simp only [step] at hs'
    obtain ⟨rec, hfind, hexp, -, hro⟩ := stepRet_ops hs'
    obtain ⟨hrec, _⟩ := findOp_mem hfind
    obtain ⟨k, hk, hkm⟩ := hi.mon.sends o m hl
    have hkind := hi.opsT rec hrec
    rw [hro, hk] at hkind
    simp at hkind; subst hkind
    have hst := retExpect_send_ok hkm hexp
    exact live_step01p hs hrx' (hi.sn hrx rec hrec hst m hkm)

theorem inv01p_sn_step {w s s' σ ops seen l} (hi : C01pInv s σ ops seen) (hs : step w s l = some s')
    (hrx' : s'.chan.rx = true) : ∀ rec ∈ s'.ops, rec.st = .pending → ∀ m, sendMsg? rec.kind = some m →
      m ∈ (next01p σ l).begun ∨ m ∈ qmsgs s'.chan := by
  intro rec hrec hst m hkm
  have hrx := (qrel_keep01p (step_q hs) hrx').1
  by_cases hedge : l.isOpEdge = true
  · cases l <;> simp [Label.isOpEdge] at hedge
    case begin o h k =>
      have hs' := hs
      simp only [step] at hs'
      obtain ⟨st, hops, hc⟩ := stepBegin_spec hs'
      rw [hops] at hrec
      rcases List.mem_append.mp hrec with hrec | hrec
      · exact live_step01p hs hrx' (hi.sn hrx rec hrec hst m hkm)
      · simp at hrec; subst hrec
        simp only at hst hkm
        rcases hc with ⟨-, hk | ⟨e, he⟩⟩ | ⟨-, tok, hc, -, -⟩
        · rw [(sendMsg_msg hkm).1] at hk; cases hk
        · rw [he] at hst; cases hst
        · right
          rw [hc, qmsgs_enq]
          simp [msgNo_payloadOf_send01p hkm]
    case ret o r =>
      have hs' := hs
      simp only [step] at hs'
      obtain ⟨_, _, _, hops, _⟩ := stepRet_ops hs'
      rw [hops] at hrec
      exact live_step01p hs hrx' (hi.sn hrx rec (List.mem_filter.mp hrec).1 hst m hkm)
    case cdrop o =>
      have hs' := hs
      simp only [step] at hs'
      have hops := stepCdrop_ops hs'
      rw [hops] at hrec
      exact live_step01p hs hrx' (hi.sn hrx rec (List.mem_filter.mp hrec).1 hst m hkm)
  · have hedge' : l.isOpEdge = false := by simpa using hedge
    obtain ⟨f, hops, pf⟩ := step_ops hs hedge'
    rw [hops] at hrec
    obtain ⟨r, hr, rfl⟩ := List.mem_map.mp hrec
    rw [pf.kind] at hkm
    exact live_step01p hs hrx' (hi.sn hrx r hr (pf.st r hst) m hkm)

theorem inv01p_b_step {w s s' σ ops seen l} (hi : C01pInv s σ ops seen) (hs : step w s l = some s')
    (hf : Fresh04p seen l) :
    ∀ o before, lookup o (next01p σ l).pings = some before → o ∈ qpings04p s'.chan.queue →
      ∀ m ∈ before, m ∈ (next01p σ l).begun ∨ m ∈ aheadOf01p o s'.chan.queue := by
  intro o before hl hq' m hm
  rcases step_brel01p hs o hq' with ⟨hq, hkeep⟩ | ⟨⟨h, rfl⟩, hrx, hall⟩
  · rcases next01p_pings_cases hl with hl | ⟨h', rfl, -⟩
    · rcases hi.b o before hl hq m hm with hb | hb
      · exact .inl (next01p_begun_mono _ _ hb)
      · rcases hkeep m hb with hb | rfl
        · exact .inr hb
        · exact .inl (next01p_begun_new _ _)
    · exact absurd (hi.qSeen o hq) (hf o h' _ rfl)
  · rcases next01p_pings_cases hl with hl | ⟨h', -, rfl⟩
    · -- the id was already a ping of the monitor: not fresh
      have hk := hi.mon.pings o before hl
      rw [hi.mon.seen o (hf o h _ rfl)] at hk; cases hk
    · rcases hi.a hrx m hm with hb | hb
      · exact .inl (next01p_begun_mono _ _ hb)
      · exact .inr (hall m hb)

theorem inv01p_p_step {w s s' σ ops seen l} (hi : C01pInv s σ ops seen) (hs : step w s l = some s') :
    ∀ rec ∈ s'.ops, rec.st = .pinged → ∀ before, lookup rec.o (next01p σ l).pings = some before →
      ∀ m ∈ before, m ∈ (next01p σ l).begun := by
  intro rec hrec hst before hl m hm
  by_cases hedge : l.isOpEdge = true
  · cases l <;> simp [Label.isOpEdge] at hedge
    case begin o h k =>
      simp only [step] at hs
      obtain ⟨hfresh, st, hops, hfr⟩ := stepBegin_fresh hs
      have hne := findOp_none hfresh
      rw [hops] at hrec
      rcases List.mem_append.mp hrec with hrec | hrec
      · rcases next01p_pings_cases hl with hl | ⟨h1, he, _⟩
        · exact next01p_begun_mono _ _ (hi.p rec hrec hst before hl m hm)
        · simp only [Label.begin.injEq] at he
          exact absurd he.1.symm (hne rec hrec)
      · simp at hrec; subst hrec
        simp only at hst
        rw [hst] at hfr; simp [OpSt.fresh] at hfr
    case ret o r =>
      simp only [step] at hs
      obtain ⟨_, _, _, hops, _⟩ := stepRet_ops hs
      rw [hops] at hrec
      rcases next01p_pings_cases hl with hl | ⟨h1, he, _⟩
      · exact next01p_begun_mono _ _ (hi.p rec (List.mem_filter.mp hrec).1 hst before hl m hm)
      · cases he
    case cdrop o =>
      simp only [step] at hs
      have hops := stepCdrop_ops hs
      rw [hops] at hrec
      rcases next01p_pings_cases hl with hl | ⟨h1, he, _⟩
      · exact next01p_begun_mono _ _ (hi.p rec (List.mem_filter.mp hrec).1 hst before hl m hm)
      · cases he
  · have hedge' : l.isOpEdge = false := by simpa using hedge
    have hl0 : lookup rec.o σ.pings = some before := by
      rcases next01p_pings_cases hl with hl | ⟨h1, he, _⟩
      · exact hl
      · subst he; simp [Label.isOpEdge] at hedge'
    refine next01p_begun_mono _ _ ?_
    by_cases hdeq : l = .tDeq
    · subst hdeq
      simp only [step] at hs
      obtain ⟨-, hops | ⟨o, tok, rest, hq, hops⟩⟩ := stepDeq_ops04p hs
      · rw [hops] at hrec; exact hi.p rec hrec hst before hl0 m hm
      · rw [hops] at hrec
        obtain ⟨r, hr, rfl⟩ := List.mem_map.mp hrec
        unfold pingMap at hl0 hst
        split at hl0
        · rename_i hc
          simp at hc
          simp only at hl0
          have hin : r.o ∈ qpings04p s.chan.queue := by
            rw [hq]; exact mem_qpings_cons01p.mpr (.inl (by rw [hc.1]))
          rcases hi.b r.o before hl0 hin m hm with hb | hb
          · exact hb
          · rw [hq, aheadOf01p_cons] at hb
            simp [hc.1] at hb
        · rename_i hc
          rw [if_neg hc] at hst
          exact hi.p r hr hst before hl0 m hm
    · obtain ⟨f, hops, hfine⟩ := step_ops_fine hs hedge'
      rw [hops] at hrec
      obtain ⟨r, hr, rfl⟩ := List.mem_map.mp hrec
      obtain ⟨ho, -, -, hst'⟩ := hfine r
      rw [ho] at hl0
      have hst0 : r.st = .pinged := by
        rcases hst' with hst' | ⟨_, hst' | ⟨he, _⟩ | ⟨m', b', d', _, hst'⟩⟩
        · rw [← hst']; exact hst
        · rw [hst'] at hst; cases hst
        · exact absurd he hdeq
        · rw [hst'] at hst; cases hst
      exact hi.p r hr hst0 before hl0 m hm

theorem inv01p_bad {w s s' σ ops seen l} (hi : C01pInv s σ ops seen) (hs : step w s l = some s') :
    bad01p σ l = false := by
  cases l <;> try rfl
  case ret o r =>
    simp only [bad01p]
    cases hl : lookup o σ.pings with
    | none => rfl
    | some before =>
      simp only
      by_cases hr : r = .ok
      · subst hr
        simp only [step] at hs
        obtain ⟨rec, hfind, hexp, -, hro⟩ := stepRet_ops hs
        obtain ⟨hrec, _⟩ := findOp_mem hfind
        have hkind := hi.opsT rec hrec
        rw [hro, hi.mon.pings o before hl] at hkind
        simp at hkind
        have hst := retExpect_ping_ok04p hkind.symm hexp
        have hall := hi.p rec hrec hst before (by rw [hro]; exact hl)
        simp only [beq_self_eq_true, Bool.true_and]
        rw [Bool.eq_false_iff]
        intro hany
        obtain ⟨m, hm, hnc⟩ := List.any_eq_true.mp hany
        have := hall m hm
        simp [this] at hnc
      · have hr' : (r == Res.ok) = false := by simpa using hr
        simp [hr']

theorem c01p_step (w : Wiring) {s s' : AState} {σ : C01pSt} {ops : List (Nat × OpKind)} {seen : List Nat}
    {l : Label} (hi : C01pInv s σ ops seen) (hs : step w s l = some s') (hf : Fresh04p seen l) :
    bad01p σ l = false ∧ C01pInv s' (next01p σ l) (opsNext4 ops l) (seenNext04p seen l) := by
  refine ⟨inv01p_bad hi hs, ?_⟩
  refine
    { opsT := opsT_step hi.opsT hs
      mon := minv01p_step hi.mon hf
      qSeen := ?_
      a := fun hrx' => inv01p_a_step hi hs hrx'
      sn := fun hrx' => inv01p_sn_step hi hs hrx'
      b := inv01p_b_step hi hs hf
      p := inv01p_p_step hi hs }
  intro o ho
  rcases (step_prel04p hs).1 o ho with hq | ⟨h, rfl⟩
  · exact seenNext04p_mono _ _ (hi.qSeen o hq)
  · simp [seenNext04p]

theorem c01p_init (cfg : Cfg) (h0 : Nat) (k0 : HKind) :
    C01pInv (AState.init cfg h0 k0) monC01p.init [] [] := by
  refine
    { opsT := by intro r hr; simp [AState.init] at hr
      mon := ⟨by simp [monC01p, lookup], by simp [monC01p, lookup], by simp [lookup]⟩
      qSeen := by simp [AState.init, Chan.init]
      a := by simp [monC01p]
      sn := by intro _ r hr; simp [AState.init] at hr
      b := by simp [monC01p, lookup]
      p := by intro r hr; simp [AState.init] at hr }

/-- one-step simulation lifted to runs, with the freshness automaton `monC02wf` running alongside -/
theorem c01p_run (w : Wiring) (c : MonCtx) :
    ∀ (ls : List Label) (s s' : AState) (σ : C01pSt) (ops : List (Nat × OpKind)) (seen : List Nat),
      C01pInv s σ ops seen → run w s ls = some s' → ((monC02wf c).run seen ls).isSome = true →
      (monC01p.run σ ls).isSome = true
  | [], _, _, _, _, _, _, _, _ => by simp [Mon.run]
  | l :: ls, s, s', σ, ops, seen, hi, hr, hwf => by
    simp only [run] at hr
    cases hs : step w s l with
    | none => simp [hs] at hr
    | some s1 =>
      simp only [hs] at hr
      simp only [Mon.run] at hwf ⊢
      cases hws : (monC02wf c).step seen l with
      | none => simp [hws] at hwf
      | some seen1 =>
        simp only [hws] at hwf
        obtain ⟨hf, rfl⟩ := wf_step04p hws
        obtain ⟨hbad, hi1⟩ := c01p_step w hi hs hf
        rw [monC01p_step, hbad]
        exact c01p_run w c ls s1 s' _ _ _ hi1 hr hwf

/-- **C01 (the mailbox is FIFO, pings).**  In every run of the actor model — every wiring, both mailbox kinds,
    every handle kind, waiting and forcing path, timers, ticks and broadcasts in the mailbox, restarts,
    stream-attached actors, every termination cause — whose trace never re-uses an operation id: when a `ping`
    returns Ok, every message whose `send` / `try_send` / `try_force_send` had returned Ok before the ping began
    has had its handler invocation begun. -/
theorem C01p_holds_fresh (w : Wiring) (c : MonCtx) (ls : List Label) (s : AState)
    (hr : run w (AState.init c.cfg c.h0 c.k0) ls = some s) (hfresh : opIdsFresh ls = true) :
    monC01p.ok ls = true := by
  unfold Mon.ok
  exact c01p_run w default ls _ s _ [] [] (c01p_init _ _ _) hr
    (by simpa [opIdsFresh, Mon.ok, monC02wf] using hfresh)

/-- the same under `wf01` (fresh message numbers and operation ids; only the latter is used) -/
theorem C01p_holds (w : Wiring) (c : MonCtx) (ls : List Label) (s : AState)
    (hr : run w (AState.init c.cfg c.h0 c.k0) ls = some s) (hwf : wf01 ls = true) : monC01p.ok ls = true :=
  C01p_holds_fresh w c ls s hr (wf01_opIdsFresh04p ls hwf)

/-! ### non-vacuity (monitor level; the runs of the model are in `Props/C01PCurrent.lean`) -/

/-- the actor is busy with message 1 when message 2 is acknowledged; ping 2 begins; the actor finishes its
    handler, handles message 2, takes the ping; the ping returns Ok -/
def c01pExample : List Label :=
  [ .cbBegin .started, .cbEnd .started true,
    .begin 0 0 (.send 1), .ret 0 .ok, .cbBegin (.handle 1),
    .begin 1 0 (.send 2), .ret 1 .ok,
    .begin 2 0 .ping,
    .cbEnd (.handle 1) true,
    .cbBegin (.handle 2), .cbEnd (.handle 2) true,
    .tDeq, .ret 2 .ok ]

example : monC01p.ok c01pExample = true := by decide
example : opIdsFresh c01pExample = true := by decide
example : wf01 c01pExample = true := by decide

/-- the ping returns Ok while acknowledged message 2 has not been handled -/
example : monC01p.ok (c01pExample.take 9 ++ [.ret 2 .ok]) = false := by decide
/-- the ping overtakes a message acknowledged to another task (try_send through a weak sender) -/
example : monC01p.ok [ .cbBegin .started, .cbEnd .started true, .mk 0 1 .weakSender,
    .begin 0 1 (.trySend 1), .ret 0 .ok, .begin 1 0 .ping, .tDeq, .ret 1 .ok ] = false := by decide
/-- a forced submission counts as well -/
example : monC01p.ok [ .cbBegin .started, .cbEnd .started true, .mk 0 1 .weakSender,
    .begin 0 1 (.tryForce 1), .ret 0 .ok, .begin 1 0 .ping, .tDeq, .ret 1 .ok ] = false := by decide
/-- a send acknowledged only AFTER the ping began does not constrain the ping -/
example : monC01p.ok [ .cbBegin .started, .cbEnd .started true,
    .begin 1 0 .ping, .begin 0 0 (.send 1), .ret 0 .ok, .tDeq, .ret 1 .ok ] = true := by decide
/-- neither does a send that failed -/
example : monC01p.ok [ .cbBegin .started, .cbEnd .started true,
    .begin 0 0 (.send 1), .ret 0 (.err .send), .begin 1 0 .ping, .tDeq, .ret 1 .ok ] = true := by decide
/-- a ping that returns an error is never a violation -/
example : monC01p.ok [ .cbBegin .started, .cbEnd .started true,
    .begin 0 0 (.send 1), .ret 0 .ok, .begin 1 0 .ping, .ret 1 (.err .canceled) ] = true := by decide

end Hannibal
