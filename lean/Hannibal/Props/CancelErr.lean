import Hannibal.Props.C02
import Hannibal.Proofs.CancelErr
/-
  CancelErr (a call or ping is never cancelled without a reason): for every wiring, every run of the actor
  model whose `begin` labels carry pairwise distinct operation ids is accepted by `monCancelErr`:
  a call / ping returns `Err(Canceled)` only after a terminating label (`taskDone`, `taskPanic`, `cancel`)
  or - for a call with message m - after `cbAbandon (handle m)` / `cbPanic (handle m)`.

  The proof runs the C02 monitor state alongside (its coupling `opOk` / `plOk` / `phaseOk` links the
  invocation in progress and the queued entries to the op records of their slots) and adds one
  per-record predicate, `cancOk`.
-/
set_option linter.unusedSimpArgs false
set_option linter.unusedVariables false
namespace Hannibal
open AState

structure CEInv (s : AState) (σ2 : C02St) (σ : CancelSt) : Prop where
  term : σ2.terminated = s.isDone
  ops : ∀ r ∈ s.ops, opOk σ2 r = true
  ret : ∀ o ∈ σ2.returned, (lookup o σ2.ops).isSome = true
  queue : ∀ e ∈ s.chan.queue, plOk σ2 e.pl = true
  phase : phaseOk σ2 s.phase = true
  dchan : DoneChan s
  link : ∀ o k late, lookup o σ2.ops = some (k, late) → lookup o σ.ops = some k
  canc : ∀ r ∈ s.ops, cancOk σ r = true

/-- a call / ping gets `Err(Canceled)` only from a `cancelled` (or `failed canceled`) record -/
theorem retExpect_canceled (s : AState) (rec : OpRec) (hk : (rec.kind.isCall || rec.kind == .ping) = true)
    (h : s.retExpect rec = some (.err .canceled)) : rec.st = .cancelled ∨ rec.st = .failed .canceled := by
  obtain ⟨o, hh, kind, st⟩ := rec
  cases kind <;> simp [OpKind.isCall] at hk <;> cases st <;> simp_all [retExpect]

theorem ret_accept_ce {s : AState} {σ2 : C02St} {σ : CancelSt} {rec : OpRec} {res : Res}
    (hexp : s.retExpect rec = some res) (hop : opOk σ2 rec = true)
    (hlink : ∀ o k late, lookup o σ2.ops = some (k, late) → lookup o σ.ops = some k)
    (hc : cancOk σ rec = true) : badCancelErr σ (.ret rec.o res) = false := by
  cases res <;> try rfl
  rename_i e
  cases e <;> try rfl
  obtain ⟨late, h1, _⟩ := opOk_parts hop
  have hl := hlink _ _ _ h1
  simp only [badCancelErr, hl]
  cases hk : (rec.kind.isCall || rec.kind == .ping)
  · simp
  · rcases retExpect_canceled s rec hk hexp with hst | hst
    · unfold cancOk at hc
      simp only [hst] at hc
      cases ht : σ.term
      · simp only [ht, Bool.false_or] at hc
        cases hm : rec.kind.msg? with
        | none => simp [hm] at hc
        | some m =>
          simp only [hm] at hc ⊢
          simp only [hc]; rfl
      · simp
    · exact absurd rfl (cancOk_failed hc hst)

theorem cancelSlots_nil_ops (s : AState) : (s.cancelSlots []).ops = s.ops := by
  simp [cancelSlots_ops]

theorem curSlot_cases (s : AState) :
    s.curSlot = [] ∨ ∃ cb o dl, s.phase = .handling cb (some o) dl ∧ s.curSlot = [o] := by
  unfold curSlot
  split
  · rename_i cb o dl hp; exact .inr ⟨cb, o, dl, hp, rfl⟩
  · exact .inl rfl

/-- cancelling the slot of the invocation in progress for message m, at `cbAbandon` / `cbPanic` of `handle m` -/
theorem cancOk_slot {s : AState} {σ2 : C02St} {σ : CancelSt} {l : Label} {o m : Nat}
    (hl : l = .cbAbandon (.handle m) ∨ l = .cbPanic (.handle m))
    (hops : ∀ r ∈ s.ops, opOk σ2 r = true) (hpl : plOk σ2 (.msg m (some o)) = true)
    (hc : ∀ r ∈ s.ops, cancOk σ r = true) :
    ∀ r' ∈ (s.cancelSlots [o]).ops, cancOk (nextCancelErr σ l) r' = true := by
  intro r' hr'
  rw [cancelSlots_ops] at hr'
  obtain ⟨r, hr, rfl⟩ := List.mem_map.mp hr'
  split
  · rename_i hcond
    simp at hcond
    obtain ⟨late, h1, _⟩ := opOk_parts (hops r hr)
    rw [hcond.1] at h1
    simp only [plOk, h1] at hpl
    simp at hpl
    have hb : (nextCancelErr σ l).broken.contains m = true := by
      rcases hl with rfl | rfl
      · exact nextCancelErr_broken_abandon σ m
      · exact nextCancelErr_broken_panic σ m
    unfold cancOk
    simp only [hpl.2, hpl.1, hb, Bool.and_self, Bool.or_true]
  · exact cancOk_next (hc r hr)

theorem canc_step (w : Wiring) {s s' : AState} {σ2 : C02St} {σ : CancelSt} {l : Label}
    (hi : CEInv s σ2 σ) (hs : step w s l = some s') :
    ∀ r' ∈ s'.ops, cancOk (nextCancelErr σ l) r' = true := by
  by_cases hedge : l.isOpEdge = true
  · cases l <;> simp [Label.isOpEdge] at hedge
    case begin o h k =>
      simp only [step] at hs
      obtain ⟨st, hops', hn1, hn2⟩ := stepBegin_newst_ce hs
      intro r' hr'
      rw [hops'] at hr'
      rcases List.mem_append.mp hr' with hr' | hr'
      · exact cancOk_next (hi.canc r' hr')
      · simp at hr'; subst hr'
        unfold cancOk
        cases st <;> simp_all
    case ret o res =>
      simp only [step] at hs
      obtain ⟨_, _, _, hops', _⟩ := stepRet_ops hs
      intro r' hr'
      rw [hops'] at hr'
      exact cancOk_next (hi.canc r' (List.mem_filter.mp hr').1)
    case cdrop o =>
      simp only [step] at hs
      have hops' := stepCdrop_ops hs
      intro r' hr'
      rw [hops'] at hr'
      exact cancOk_next (hi.canc r' (List.mem_filter.mp hr').1)
  · have hedge' : l.isOpEdge = false := by simpa using hedge
    cases hmc : l.mayCancel
    · exact cancOk_keep hs hedge' hmc hi.canc
    · cases ht : l.terminates
      · -- cbAbandon / cbPanic
        cases l <;> simp [Label.mayCancel] at hmc <;> simp [Label.terminates] at ht
        case cbAbandon cb =>
          simp only [step] at hs
          rcases stepCbAbandon_spec hs with h | ⟨slot, dl, hp, h⟩
          · intro r' hr'; rw [h] at hr'; exact cancOk_next (hi.canc r' hr')
          · cases slot with
            | none =>
              intro r' hr'
              rw [h] at hr'
              simp only [cancelSlots_nil_ops] at hr'
              exact cancOk_next (hi.canc r' hr')
            | some o =>
              obtain ⟨m, hm, hpl⟩ := (phaseOk_iff σ2 s.phase).mp hi.phase _ _ _ hp
              subst hm
              intro r' hr'
              rw [h] at hr'
              exact cancOk_slot (.inl rfl) hi.ops hpl hi.canc r' hr'
        case cbPanic cb =>
          simp only [step] at hs
          obtain ⟨hopen, h⟩ := stepCbPanic_spec hs
          rcases curSlot_cases s with hcs | ⟨cb', o, dl, hp, hcs⟩
          · intro r' hr'
            rw [h, hcs] at hr'
            simp only [cancelSlots_nil_ops] at hr'
            exact cancOk_next (hi.canc r' hr')
          · obtain ⟨m, hm, hpl⟩ := (phaseOk_iff σ2 s.phase).mp hi.phase _ _ _ hp
            subst hm
            simp [openCb, hp] at hopen
            subst hopen
            intro r' hr'
            rw [h, hcs] at hr'
            exact cancOk_slot (.inr rfl) hi.ops hpl hi.canc r' hr'
      · refine cancOk_term ht ?_
        obtain ⟨f, hf, pf⟩ := step_ops hs hedge'
        intro r' hr' e hst
        rw [hf] at hr'
        obtain ⟨r, hr, rfl⟩ := List.mem_map.mp hr'
        exact cancOk_failed (hi.canc r hr) (pf.failed r e hst)

theorem ce_step (w : Wiring) {s s' : AState} {σ2 : C02St} {σ : CancelSt} {l : Label}
    (hi : CEInv s σ2 σ) (hf : freshFor σ2 l) (hs : step w s l = some s') :
    badCancelErr σ l = false ∧ CEInv s' (next02 σ2 l) (nextCancelErr σ l) := by
  have hbad : badCancelErr σ l = false := by
    cases l <;> try rfl
    case ret o res =>
      simp only [step] at hs
      obtain ⟨rec, hfind, hexp, _, hro⟩ := stepRet_ops hs
      have hm := (findOp_some_mem hfind).1
      rw [← hro]
      exact ret_accept_ce hexp (hi.ops rec hm) hi.link (hi.canc rec hm)
  refine ⟨hbad, ?_⟩
  obtain ⟨hq', hp'⟩ := qinv02_step hf hs hi.queue hi.phase
  obtain ⟨hd1, hd2⟩ := step_isDone w hs
  refine ⟨?_, ops_step hf hs hi.ops hi.ret hi.queue hi.phase hi.dchan hi.term, ?_, hq', hp',
    doneChan_step hs hi.dchan, ?_, canc_step w hi hs⟩
  · simp only [next02_terminated]
    cases ht : l.terminates
    · simp; rw [hd2 ht]; exact hi.term
    · simp [hd1 ht]
  · intro o ho
    simp only [next02_returned] at ho
    have hold : ∀ o ∈ σ2.returned, (lookup o (next02 σ2 l).ops).isSome = true := by
      intro o ho
      have := hi.ret o ho
      cases hl : lookup o σ2.ops with
      | none => simp [hl] at this
      | some v => rw [lookup_next02 hf hl]; rfl
    cases l <;> try exact hold o ho
    rename_i o' res
    simp at ho
    rcases ho with rfl | ho
    · simp only [step] at hs
      obtain ⟨rec, hfind, _, _, _⟩ := stepRet_ops hs
      obtain ⟨hr, hro⟩ := findOp_some_mem hfind
      obtain ⟨late, h1, _⟩ := opOk_parts (hi.ops rec hr)
      rw [hro] at h1
      simp [h1]
    · exact hold o ho
  · intro o k late hl
    cases l
    case begin o' h' k' =>
      simp only [next02_ops, lookup] at hl
      simp only [nextCancelErr_ops, lookup]
      by_cases he : (o' == o) = true
      · simp only [he, if_true] at hl ⊢
        cases hl; rfl
      · simp only [he, if_false] at hl ⊢
        exact hi.link o k late (by simpa using hl)
    all_goals
      (simp only [next02_ops] at hl
       simp only [nextCancelErr_ops]
       exact hi.link o k late hl)

theorem ce_init (c : MonCtx) : CEInv (AState.init c.cfg c.h0 c.k0) C02St.init monCancelErr.init := by
  refine ⟨rfl, ?_, ?_, ?_, rfl, doneChan_init _ _ _, ?_, ?_⟩
  · intro r hr; simp [AState.init] at hr
  · intro o ho; simp [C02St.init] at ho
  · intro e he; simp [AState.init, Chan.init] at he
  · intro o k late h; simp [C02St.init, lookup] at h
  · intro r hr; simp [AState.init] at hr

/-- lifting to runs whose `begin` labels carry fresh operation ids -/
theorem ce_run (w : Wiring) (c : MonCtx) :
    ∀ (ls : List Label) (s s' : AState) (σ2 : C02St) (σ : CancelSt) (seen : List Nat), CEInv s σ2 σ →
      SeenOk σ2 seen → run w s ls = some s' → ((monC02wf c).run seen ls).isSome = true →
      (monCancelErr.run σ ls).isSome = true
  | [], _, _, _, _, _, _, _, _, _ => by simp [Mon.run]
  | l :: ls, s, s', σ2, σ, seen, hi, hseen, hr, hwf => by
    simp only [run] at hr
    cases hs : step w s l with
    | none => simp [hs] at hr
    | some s1 =>
      simp only [hs] at hr
      simp only [Mon.run] at hwf ⊢
      cases hws : (monC02wf c).step seen l with
      | none => simp [hws] at hwf
      | some seen1 =>
        simp only [hws] at hwf
        obtain ⟨hb, hi1⟩ := ce_step w hi (wf_fresh hseen hws) hs
        have hm : monCancelErr.step σ l = some (nextCancelErr σ l) := by simp [monCancelErr, hb]
        simp only [hm]
        exact ce_run w c ls s1 s' (next02 σ2 l) (nextCancelErr σ l) seen1 hi1 (wf_seen hseen hws) hr hwf

/-- **CancelErr.** For every wiring, every run of the actor model whose `begin` labels carry pairwise
    distinct operation ids is accepted by `monCancelErr`: a call or ping returns `Err(Canceled)` only after
    the actor's task has ended (`taskDone` / `taskPanic` / `cancel`) or - for a call with message m - after
    the handler invocation for m was abandoned (`cbAbandon (handle m)`) or panicked (`cbPanic (handle m)`). -/
theorem CancelErr_holds (w : Wiring) (c : MonCtx) (ls : List Label) (s : AState)
    (hr : run w (AState.init c.cfg c.h0 c.k0) ls = some s) (hfresh : opIdsFresh ls = true) :
    monCancelErr.ok ls = true := by
  unfold Mon.ok
  exact ce_run w c ls _ s C02St.init monCancelErr.init [] (ce_init c) seenOk_init
    hr (by simpa [opIdsFresh, Mon.ok, monC02wf] using hfresh)

/-! ### non-vacuity -/

/-- rejected: a call returns `Canceled` with nothing before it -/
example : monCancelErr.ok [ .cbBegin .started, .cbEnd .started true, .begin 0 0 (.call 1),
    .ret 0 (.err .canceled) ] = false := by decide
/-- rejected: a ping returns `Canceled` while the actor lives (an abandoned handler is no reason for a ping) -/
example : monCancelErr.ok [ .cbBegin .started, .cbEnd .started true, .begin 0 0 (.call 1), .begin 1 0 .ping,
    .cbBegin (.handle 1), .cbAbandon (.handle 1), .ret 1 (.err .canceled) ] = false := by decide
/-- rejected: the invocation abandoned was the one for another message -/
example : monCancelErr.ok [ .cbBegin .started, .cbEnd .started true, .begin 0 0 (.call 1), .begin 1 0 (.call 2),
    .cbBegin (.handle 1), .cbAbandon (.handle 1), .ret 1 (.err .canceled) ] = false := by decide
/-- accepted: the invocation for the call's own message was abandoned first -/
example : monCancelErr.ok [ .cbBegin .started, .cbEnd .started true, .begin 0 0 (.call 1),
    .cbBegin (.handle 1), .time 5, .cbAbandon (.handle 1), .ret 0 (.err .canceled) ] = true := by decide
/-- accepted: the invocation for the call's own message panicked first -/
example : monCancelErr.ok [ .cbBegin .started, .cbEnd .started true, .begin 0 0 (.callw 1),
    .cbBegin (.handle 1), .cbPanic (.handle 1), .ret 0 (.err .canceled) ] = true := by decide
/-- accepted: after `taskDone` -/
example : monCancelErr.ok [ .cbBegin .started, .cbEnd .started true, .begin 0 0 (.call 1), .begin 1 0 .ping,
    .stopReq 0 true, .taskDone, .ret 0 (.err .canceled), .ret 1 (.err .canceled) ] = true := by decide

/-- why the hypothesis on operation ids is needed: the model lets an id be re-used after `cdrop`; the
    abandonment of the invocation for the dropped call's message 1 then cancels the record of the new call
    (message 2) that carries the same id.  (`Props/CancelErrCurrent.lean` shows the model accepts this run.) -/
def cancelErrReuseOp : List Label :=
  [ .cbBegin .started, .cbEnd .started true, .begin 0 0 (.call 1), .cdrop 0, .begin 0 0 (.call 2),
    .cbBegin (.handle 1), .work 9, .time 5, .cbAbandon (.handle 1), .ret 0 (.err .canceled) ]
example : monCancelErr.ok cancelErrReuseOp = false := by decide
example : opIdsFresh cancelErrReuseOp = false := by decide

end Hannibal
