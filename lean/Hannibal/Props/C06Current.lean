import Hannibal.Props.C06Quiet
import Hannibal.Generated.Wiring
/- C06 (single-actor part) for the wiring extracted from today's source. -/
namespace Hannibal

theorem wellWired06_current : Wiring.current.notifyAfterStopped = true := by decide

theorem C06_current (c : MonCtx) (ls : List Label) (s : AState)
    (hr : run Wiring.current (AState.init c.cfg c.h0 c.k0) ls = some s) : (monC06 c).ok ls = true :=
  C06_holds _ wellWired06_current c ls s hr

/-- sends begun after the failed actor's task is gone are refused (no wiring hypothesis) -/
theorem C06s_current (c : MonCtx) (ls : List Label) (s : AState)
    (hr : run Wiring.current (AState.init c.cfg c.h0 c.k0) ls = some s) : (monC06s c).ok ls = true :=
  C06s_holds _ c ls s hr

/-- with fresh operation ids nothing is left pending on a failed actor at quiescence -/
theorem C06q_current (c : MonCtx) (ls : List Label) (s : AState)
    (hr : run Wiring.current (AState.init c.cfg c.h0 c.k0) ls = some s) (huniq : uniqueBegins ls = true) :
    (monC06q c).ok ls = true :=
  C06q_holds _ wellWired06_current c ls s hr huniq

example : (run Wiring.current (AState.init c06Cfg 0 .owning) c06Example).isSome = true := by decide

/-- the model admits re-using the id of a dropped call for a send that then hangs: the quiescence clause
    needs the fresh-id hypothesis -/
example : (run Wiring.current (AState.init c06Cfg 0 .owning) c06Reuse).isSome = true := by decide

/-- the model (with today's wiring) admits the run in which a send begun after the failure returns Ok:
    the late-send clause of `monC06t` is not a theorem of the model -/
example : (run Wiring.current (AState.init c06Cfg 0 .owning) c06LateSend).isSome = true := by decide

/-- if the loop notified *before* `stopped()`, a panic inside `stopped` would leave awaiters with Ok -/
def earlyNotify06 (w : Wiring) : Wiring := { w with notifyAfterStopped := false }
def c06EarlyNotify : List Label :=
  [ .cbBegin .started, .cbEnd .started true, .mk 0 1 .addr, .begin 1 1 .await, .stopReq 1 true, .tDeq,
    .cbBegin .stopped, .cbPanic .stopped, .ret 1 .ok ]
example : (run (earlyNotify06 Wiring.current) (AState.init c06Cfg 0 .owning) c06EarlyNotify).isSome = true := by decide
example : (monC06 c06Ctx).ok c06EarlyNotify = false := by decide

end Hannibal
