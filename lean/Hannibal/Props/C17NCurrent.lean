import Hannibal.Props.C17N
import Hannibal.Props.C04Current
/- C17 (the `None` clauses) for the wiring extracted from today's source. -/
namespace Hannibal

theorem C17n_current (c : MonCtx) (ls : List Label) (s : AState)
    (hr : run Wiring.current (AState.init c.cfg c.h0 c.k0) ls = some s) (hfresh : opIdsFresh ls = true)
    (hlast : consumeLast ls = true) : (monC17n c).ok ls = true :=
  C17n_holds _ wellWired04_current c ls s hr hfresh hlast

example : (run Wiring.current (AState.init c17nCfg 0 .owning) c17nExample).isSome = true := by decide
example : (run Wiring.current (AState.init c17nCfg 0 .owning) c17nExampleFail).isSome = true := by decide
/-- the two witnesses are runs of the model -/
example : (run Wiring.current (AState.init c17nCfg 0 .owning) c17n_consume_witness).isSome = true := by decide
example : (run Wiring.current (AState.init c17nCfg 0 .owning) c17n_reuse_witness).isSome = true := by decide

end Hannibal
