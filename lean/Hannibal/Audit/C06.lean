import Hannibal.Props.C06Current
import Hannibal.Props.C06Guarded
#print axioms Hannibal.C06_holds
#print axioms Hannibal.C06_current
#print axioms Hannibal.wellWired06_current
#print axioms Hannibal.monC06_split
#print axioms Hannibal.C06s_holds
#print axioms Hannibal.C06s_current
#print axioms Hannibal.C06q_holds
#print axioms Hannibal.C06q_current
#print axioms Hannibal.C06r_holds
#print axioms Hannibal.C06g_holds
