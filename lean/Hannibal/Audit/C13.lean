import Hannibal.Props.C13Current
#print axioms Hannibal.C13_holds
#print axioms Hannibal.C13_current
