import Hannibal.Props.C13QCurrent
import Hannibal.Props.C13Current
#print axioms Hannibal.C13_holds
#print axioms Hannibal.C13_current
#print axioms Hannibal.C13q_holds
#print axioms Hannibal.C13q_current
