import Hannibal.Props.SendErrCurrent
import Hannibal.Props.C17R
import Hannibal.Props.C17NCurrent
import Hannibal.Props.C17Current
#print axioms Hannibal.C17_holds
#print axioms Hannibal.C17_current
#print axioms Hannibal.C17n_holds
#print axioms Hannibal.C17n_current
#print axioms Hannibal.C17r_holds
#print axioms Hannibal.SendErr_holds
#print axioms Hannibal.SendErr_current
