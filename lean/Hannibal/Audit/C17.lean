import Hannibal.Props.C17Current
#print axioms Hannibal.C17_holds
#print axioms Hannibal.C17_current
