import Hannibal.Props.CancelErrCurrent
import Hannibal.Props.SendErrCurrent
import Hannibal.Props.C02CCurrent
import Hannibal.Props.C02Current
import Hannibal.Props.C02Guarded
#print axioms Hannibal.C02_holds
#print axioms Hannibal.C02_current
#print axioms Hannibal.C02_split
#print axioms Hannibal.C02t_holds
#print axioms Hannibal.C02orig_holds
#print axioms Hannibal.C02orig_current
#print axioms Hannibal.C02g_holds
#print axioms Hannibal.C02c_holds
#print axioms Hannibal.C02c_current
#print axioms Hannibal.SendErr_holds
#print axioms Hannibal.SendErr_current
#print axioms Hannibal.CancelErr_holds
#print axioms Hannibal.CancelErr_current
