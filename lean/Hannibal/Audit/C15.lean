import Hannibal.Props.C15IWCurrent
import Hannibal.Props.C15Current
#print axioms Hannibal.C15_holds
#print axioms Hannibal.C15_current
#print axioms Hannibal.wellWired15_current
#print axioms Hannibal.C15iw_holds
#print axioms Hannibal.C15iw_current
