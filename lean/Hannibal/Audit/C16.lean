import Hannibal.Props.C16QCurrent
import Hannibal.Props.C16Current
#print axioms Hannibal.C16_kept
#print axioms Hannibal.C16_released
#print axioms Hannibal.sys_actor_run
#print axioms Hannibal.C16_lifetime
#print axioms Hannibal.C16_broadcast
#print axioms Hannibal.C16_lifetime_current
#print axioms Hannibal.C16_broadcast_current
#print axioms Hannibal.C16q_holds
#print axioms Hannibal.C16q_current
#print axioms Hannibal.monC16q_lenient
#print axioms Hannibal.shape16_current
