import Hannibal.Props.C01PCurrent
import Hannibal.Props.C01Current
#print axioms Hannibal.C01_holds
#print axioms Hannibal.C01_current
#print axioms Hannibal.monC01_step
#print axioms Hannibal.C01p_holds
#print axioms Hannibal.C01p_holds_fresh
#print axioms Hannibal.C01p_current
