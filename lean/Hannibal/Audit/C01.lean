import Hannibal.Props.C01Current
#print axioms Hannibal.C01_holds
#print axioms Hannibal.C01_current
#print axioms Hannibal.monC01_step
