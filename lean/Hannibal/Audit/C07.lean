import Hannibal.Props.C07OCurrent
import Hannibal.Props.C07Current
#print axioms Hannibal.C07_holds
#print axioms Hannibal.C07_current
#print axioms Hannibal.wellWired07_current
#print axioms Hannibal.C07o_holds
#print axioms Hannibal.C07o_current
