import Hannibal.Props.C03
#print axioms Hannibal.C03_holds
#print axioms Hannibal.C03_current
