import Hannibal.Props.C03Current
#print axioms Hannibal.C03_holds
#print axioms Hannibal.C03_current
