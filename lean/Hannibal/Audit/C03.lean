import Hannibal.Props.C03QCurrent
import Hannibal.Props.C03Current
#print axioms Hannibal.C03_holds
#print axioms Hannibal.C03_current
#print axioms Hannibal.C03q_holds
#print axioms Hannibal.C03q_current
