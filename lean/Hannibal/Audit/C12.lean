import Hannibal.Props.C12QCurrent
import Hannibal.Props.C12
#print axioms Hannibal.C12_holds
#print axioms Hannibal.C12_current
#print axioms Hannibal.C12_state
#print axioms Hannibal.wellWired12_current
#print axioms Hannibal.C12q_holds
#print axioms Hannibal.C12q_current
