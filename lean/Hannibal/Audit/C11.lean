import Hannibal.Props.CancelErrCurrent
import Hannibal.Props.C11Shape
import Hannibal.Props.C11TCurrent
import Hannibal.Proofs.C11TProj
import Hannibal.Props.C11CCurrent
import Hannibal.Props.C11Current
#print axioms Hannibal.C11_holds
#print axioms Hannibal.C11_current
#print axioms Hannibal.C11c_holds
#print axioms Hannibal.C11c_current
#print axioms Hannibal.c11c_covers_next
#print axioms Hannibal.c11c_covers_ret
#print axioms Hannibal.C11t_holds
#print axioms Hannibal.C11t_current
#print axioms Hannibal.prun_run
#print axioms Hannibal.monC11p_ok_imp_monC11t
#print axioms Hannibal.monC11p_eq_monC11t_of_noRet
#print axioms Hannibal.shape11_current
#print axioms Hannibal.CancelErr_holds
#print axioms Hannibal.CancelErr_current
