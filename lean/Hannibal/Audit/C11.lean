import Hannibal.Props.C11Current
#print axioms Hannibal.C11_holds
#print axioms Hannibal.C11_current
