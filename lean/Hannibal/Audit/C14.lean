import Hannibal.Props.C14Current
#print axioms Hannibal.C14_holds
#print axioms Hannibal.C14_current
#print axioms Hannibal.wellWired14_current
