import Hannibal.Props.SendErrCurrent
import Hannibal.Props.C04PCurrent
import Hannibal.Props.C04Current
import Hannibal.Props.C04QCurrent
#print axioms Hannibal.C04_holds
#print axioms Hannibal.C04_current
#print axioms Hannibal.wellWired04_current
#print axioms Hannibal.C04q_holds
#print axioms Hannibal.C04q_current
#print axioms Hannibal.wellWired04q_current
#print axioms Hannibal.monC04q_step
#print axioms Hannibal.C04p_holds
#print axioms Hannibal.C04p_current
#print axioms Hannibal.SendErr_holds
#print axioms Hannibal.SendErr_current
