import Hannibal.Props.C04Current
#print axioms Hannibal.C04_holds
#print axioms Hannibal.C04_current
#print axioms Hannibal.wellWired04_current
