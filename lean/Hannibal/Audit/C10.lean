import Hannibal.Props.C10Current
#print axioms Hannibal.C10_holds
#print axioms Hannibal.C10_current
