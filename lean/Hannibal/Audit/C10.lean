import Hannibal.Props.C10QCurrent
import Hannibal.Props.C10Current
#print axioms Hannibal.C10_holds
#print axioms Hannibal.C10_current
#print axioms Hannibal.C10q_holds
#print axioms Hannibal.C10q_current
