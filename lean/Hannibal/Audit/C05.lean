import Hannibal.Props.C05Current
import Hannibal.Props.C05QCurrent
#print axioms Hannibal.C05_holds
#print axioms Hannibal.C05_current
#print axioms Hannibal.wellWired05_current
#print axioms Hannibal.C05q_holds
#print axioms Hannibal.C05q_current
#print axioms Hannibal.monC05q_orig
