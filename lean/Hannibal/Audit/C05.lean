import Hannibal.Props.C05DCurrent
import Hannibal.Props.C05Current
import Hannibal.Props.C05QCurrent
#print axioms Hannibal.C05_holds
#print axioms Hannibal.C05_current
#print axioms Hannibal.wellWired05_current
#print axioms Hannibal.C05q_holds
#print axioms Hannibal.C05q_current
#print axioms Hannibal.monC05q_orig
#print axioms Hannibal.C05d_holds
#print axioms Hannibal.C05d_current
#print axioms Hannibal.C05df_holds
#print axioms Hannibal.monC05d_split
#print axioms Hannibal.drun_grun
#print axioms Hannibal.drun_run
