import Hannibal.Props.C05Current
#print axioms Hannibal.C05_holds
#print axioms Hannibal.C05_current
#print axioms Hannibal.wellWired05_current
