import Hannibal.Props.C09
#print axioms Hannibal.C09_holds
#print axioms Hannibal.c09_step
#print axioms Hannibal.deliver_ok
