import Hannibal.Props.C09P
import Hannibal.Props.C09Current
import Hannibal.Props.C09Q
import Hannibal.Props.C09
#print axioms Hannibal.C09_holds
#print axioms Hannibal.c09_step
#print axioms Hannibal.deliver_ok
#print axioms Hannibal.C09q_holds
#print axioms Hannibal.C09qs_holds
#print axioms Hannibal.shape09_current
#print axioms Hannibal.C09p_progress
#print axioms Hannibal.C09p_publish_returns
