import Hannibal.Props.C09Q
import Hannibal.Props.C09
#print axioms Hannibal.C09_holds
#print axioms Hannibal.c09_step
#print axioms Hannibal.deliver_ok
#print axioms Hannibal.C09q_holds
#print axioms Hannibal.C09qs_holds
