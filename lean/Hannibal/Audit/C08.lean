import Hannibal.Props.C08Current
#print axioms Hannibal.C08_holds
#print axioms Hannibal.C08_current
#print axioms Hannibal.wellWired08_current
#print axioms Hannibal.shape08_current
