import Hannibal.Props.C18Current
#print axioms Hannibal.C18_holds
#print axioms Hannibal.C18_current
#print axioms Hannibal.wellWired18_current
