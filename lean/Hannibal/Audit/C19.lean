import Hannibal.Props.C19Current
#print axioms Hannibal.C19_holds
#print axioms Hannibal.C19_no_bypass
#print axioms Hannibal.C19_current
#print axioms Hannibal.wellWired19_current
