import Hannibal.Monitor.C04
/-
  C17 — OwningAddr hands back the actor's final state exactly once.

  `monC17`  : a join / consume yields the actor value only after the actor has terminated gracefully,
              in its final state (after its last handler and its `stopped` callback: the digest is the
              fold of everything handled), and at most once per actor.
  `monC17n` : when `None` is allowed (the actor failed, or the value / the join slot was claimed before),
              and that a join resolves only once the actor has terminated.
-/
namespace Hannibal

structure C17St where
  base : C04St               -- handle table / operation kinds, failure, stopped-finished, terminated
  hlog : List Nat            -- fold of what the current value has handled
  handedOut : Bool
  deriving Repr, DecidableEq

def joinOf (st : C17St) (o : Nat) : Bool :=
  match lookup o st.base.hold.ops with
  | some (k, _) => isJoinKind k
  | none => false

def bad17 (st : C17St) : Label → Bool
  | .ret o (.some f) =>
    joinOf st o &&
      !(st.base.terminated && st.base.stoppedDone && !st.base.failure && !st.handedOut && f.stoppedSeen
        && f.digest == st.hlog)
  | _ => false

def next17 (c : MonCtx) (st : C17St) (l : Label) : C17St :=
  { base := next04 c st.base l
    hlog := (match l with
      | .cbBegin (.handle m) => st.hlog ++ [m]
      | .cbBegin (.item k) => st.hlog ++ [200000 + k]
      | .vnew _ => []
      | _ => st.hlog)
    handedOut := (match l with
      | .ret o (.some _) => st.handedOut || joinOf st o
      | _ => st.handedOut) }

def monC17 (c : MonCtx) : Mon C17St where
  init := { base := (monC04 c).init, hlog := [], handedOut := false }
  step st l := if bad17 st l then none else some (next17 c st l)

structure C17nSt where
  ops : List (Nat × OpKind)
  terminated : Bool
  failure : Bool
  handedOut : Bool
  slotTaken : Bool         -- some join already claimed the join slot
  deriving Repr, DecidableEq

def monC17n (c : MonCtx) : Mon C17nSt where
  init := { ops := [], terminated := false, failure := false, handedOut := false, slotTaken := false }
  step st l :=
    match l with
    | .begin o _ k =>
      (match k with
       | .join | .consume => some { st with ops := (o, (if st.slotTaken then .ping else k)) :: st.ops, slotTaken := true }
       | _ => some st)
    | .ret o r =>
      (match lookup o st.ops with
       | none => some st
       | some k =>
         (match r with
          | .some _ => if k == .ping then none else some { st with handedOut := true }
          | .none | .err .alreadyStopped =>
            -- None: the actor failed, or the slot / value had been claimed before; never while it still runs
            if k == .ping || (st.terminated && (st.failure || st.handedOut)) then some st else none
          | _ => some st))
    | l =>
      let st := if failsActor c.cfg.failOnTimeout l then { st with failure := true } else st
      if l.terminates then some { st with terminated := true } else some st

/-- well-formedness: `consume(self)` is the last thing done with the owning address -/
def monC17nwf : Mon Bool where
  init := false
  step consumed l :=
    match l with
    | .begin _ _ .consume => if consumed then none else some true
    | .begin _ _ .join => if consumed then none else some false
    | _ => some consumed

/-- no join / consume begins after a consume began -/
def consumeLast (ls : List Label) : Bool := monC17nwf.ok ls

end Hannibal
