import Hannibal.Monitor.Basic
/-
  C17 — OwningAddr hands back the actor's final state exactly once.
-/
namespace Hannibal

structure C17St where
  ops : List (Nat × OpKind)
  hlog : List Nat
  terminated : Bool
  graceful : Bool          -- `stopped` finished, nothing began since
  failure : Bool
  handedOut : Bool
  slotTaken : Bool         -- some join already claimed the join slot
  deriving Repr, DecidableEq

def monC17 (c : MonCtx) : Mon C17St where
  init := { ops := [], hlog := [], terminated := false, graceful := false, failure := false,
            handedOut := false, slotTaken := false }
  step st l :=
    match l with
    | .begin o _ k =>
      (match k with
       | .join | .consume => some { st with ops := (o, (if st.slotTaken then .ping else k)) :: st.ops, slotTaken := true }
       | _ => some st)
    | .cbBegin cb =>
      (match cb with
       | .handle m => some { st with hlog := st.hlog ++ [m], graceful := false }
       | .item k => some { st with hlog := st.hlog ++ [200000 + k], graceful := false }
       | _ => some { st with graceful := false })
    | .cbEnd .stopped true => some { st with graceful := true }
    | .vnew _ => some { st with hlog := [] }
    | .ret o r =>
      (match lookup o st.ops with
       | none => some st
       | some k =>
         (match r with
          | .some f =>
            -- the value, once, after termination, in its final state (last handler + stopped)
            if st.terminated && st.graceful && !st.failure && !st.handedOut && f.stoppedSeen
               && f.digest == st.hlog && k != .ping
            then some { st with handedOut := true } else none
          | .none | .err .alreadyStopped =>
            -- None: the actor failed, or the slot / value had been claimed before
            if k == .ping || (st.terminated && (st.failure || st.handedOut)) then some st else none
          | _ => some st))
    | l =>
      let st := if l.isFailure || (match l with | .cbAbandon _ => c.cfg.failOnTimeout | _ => false)
                then { st with failure := true } else st
      if l.terminates then some { st with terminated := true } else some st

end Hannibal
