import Hannibal.Monitor.C02
/-
  C17, "join / consume resolve exactly when the actor has terminated": at a quiescent point after the
  actor's termination no join and no consume is still pending.  Same state and update as `monC02`, of whose
  clause (d) this is a special case (`Props/C17R.lean`).
-/
namespace Hannibal

def bad17r (st : C02St) : Label → Bool
  | .quiescent pend =>
    st.terminated && pend.any (fun o => match lookup o st.ops with
      | some (.join, _) | some (.consume, _) => true
      | _ => false)
  | _ => false

def monC17r (_c : MonCtx) : Mon C02St where
  init := C02St.init
  step st l := if bad17r st l then none else some (next02 st l)

end Hannibal
