import Hannibal.Monitor.C05
/-
  C05, drain completeness for calls whose future was dropped ("it first handles every message already accepted":
  that nobody waits for the answer any more does not entitle the actor to skip the message).

  `monC05d`:
    (q) no strong holder left, no stop, no failure => by quiescence the actor has also handled every message
        submitted by a `call` whose future the client dropped while the call was outstanding (same guard as
        `monC05q`, which covers acknowledged sends);
    (f) such a message is never skipped: no message submitted after it is handled while it has not been handled.
  Message numbers are fresh (`wf01`, checked on every real trace); a client only drops the future of a call whose
  submission went through (`AState.cdropOk`, the guard of `dstep`, which the acceptor applies to every real trace).
-/
namespace Hannibal

structure C05dSt where
  q : C05qSt                     -- the guard of `monC05q` (holders, stop, failure, stream end) and `handled`
  calls : List (Nat × Nat)       -- call op ↦ message
  order : List Nat               -- submitted messages, newest first
  dropped : List Nat             -- messages of calls whose future was dropped
  deriving Repr, DecidableEq

/-- `m` was submitted before `m'` (`order` is newest first) -/
def before05d (order : List Nat) (m m' : Nat) : Bool :=
  (order.dropWhile (fun x => x != m')).tail.contains m

/-- some dropped call's message submitted before `m'` has not been handled -/
def skipped05d (st : C05dSt) (dropped : List Nat) (m' : Nat) : Bool :=
  dropped.any (fun m => !st.q.handled.contains m && before05d st.order m m')

def next05d (c : MonCtx) (st : C05dSt) (l : Label) : C05dSt :=
  { q := next05q c st.q l
    calls := (match l with
      | .begin o _ k => (match k.isCall, k.msg? with | true, some m => (o, m) :: st.calls | _, _ => st.calls)
      | _ => st.calls)
    order := (match l with
      | .begin _ _ k => (match k.msg? with | some m => m :: st.order | none => st.order)
      | _ => st.order)
    dropped := (match l with
      | .cdrop o => (match lookup o st.calls with | some m => m :: st.dropped | none => st.dropped)
      | _ => st.dropped) }

def bad05d (c : MonCtx) (st : C05dSt) : Label → Bool
  | .quiescent _ =>                                                           -- (q)
    !st.q.hold.strongHeld && !st.q.failure && !st.q.stopIssued && !(c.cfg.stream && st.q.streamEnded)
      && !(st.dropped.all (fun m => st.q.handled.contains m))
  | .cbBegin (.handle m') => skipped05d st st.dropped m'                      -- (f)
  | .cdrop o =>                                                               -- (f), the drop comes afterwards
    (match lookup o st.calls with
     | some m => !st.q.handled.contains m && st.q.handled.any (fun m' => before05d st.order m m')
     | none => false)
  | _ => false

def monC05d (c : MonCtx) : Mon C05dSt where
  init := { q := (monC05q c).init, calls := [], order := [], dropped := [] }
  step st l := if bad05d c st l then none else some (next05d c st l)

end Hannibal
