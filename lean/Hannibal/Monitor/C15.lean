import Hannibal.Monitor.Handles
/-
  C15 — every strong handle kind keeps the actor fully functional.
-/
namespace Hannibal

structure C15St where
  hold : HoldSt
  stopIssued : Bool
  failure : Bool
  terminated : Bool
  leaving : Bool                       -- the final `stopped` / `finished` has begun
  restartsPending : Nat
  timers : List (Nat × TimerKind)
  liveAtFire : List (Nat × Bool)       -- interval_with timer ↦ was the actor held when it last fired
  deriving Repr, DecidableEq

def monC15 (c : MonCtx) : Mon C15St where
  init := { hold := HoldSt.init c.h0 c.k0, stopIssued := false, failure := false, terminated := false,
            leaving := false, restartsPending := 0, timers := [], liveAtFire := [] }
  step st l :=
    -- the actor is held by some strong handle (of whatever kind) and nothing has asked it to go
    let live := st.hold.strongHeld && !st.stopIssued && !st.failure && !st.terminated && !st.leaving
    let bad := live && (match l with
      | .ctxStop false => true
      | .ctxRestart false => true
      | .upgrade _ none => true
      | .ctxWeak .weakAddr none => true
      | .timerEnd t =>
        (match lookup t st.timers with
         | some .interval => true
         | _ => false)
      | _ => false)
    -- an `interval_with` timer whose closure ran while the actor was held must not end before the actor does
    let bad2 := !st.failure && !st.terminated && !st.leaving && !st.stopIssued && (match l with
      | .timerEnd t => lookup t st.timers == some .intervalWith && lookup t st.liveAtFire == some true
      | _ => false)
    let st := (match l with
      | .fire t _ => { st with liveAtFire := (t, live) :: st.liveAtFire }
      | _ => st)
    if bad || bad2 then none else
    let st := { st with hold := st.hold.step l }
    match l with
    | .stopReq _ _ | .ctxStop _ => some { st with stopIssued := true }
    | .restartReq _ true | .ctxRestart true => some { st with restartsPending := st.restartsPending + 1 }
    | .begin _ _ .halt | .begin _ _ .tryHalt | .begin _ _ .consume => some { st with stopIssued := true }
    | .ctxTimer t k _ => some { st with timers := (t, k) :: st.timers }
    | .cbBegin .stopped =>
      -- a processed restart legitimately ends the timers of the incarnation that stops
      if st.restartsPending > 0 then some { st with restartsPending := st.restartsPending - 1, timers := [] }
      else some { st with leaving := true }
    | .cbBegin .finished => some { st with leaving := true }
    | .streamEnd => some { st with stopIssued := true }
    | l =>
      let st := if l.isFailure || (match l with | .cbAbandon _ => c.cfg.failOnTimeout | _ => false)
                then { st with failure := true } else st
      if l.terminates then some { st with terminated := true } else some st

end Hannibal
