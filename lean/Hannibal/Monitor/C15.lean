import Hannibal.Monitor.Handles
/-
  C15 — every strong handle kind keeps the actor fully functional.

  `monC15`   : while any strong handle (of whatever kind) exists, stop / restart from the
               actor's own context succeed, every weak handle upgrades, `weak_address` works,
               and `interval` timers of the running incarnation do not end.
  `monC15iw` : the same for `interval_with` timers (their weak sender is upgraded when the
               closure runs, so the obligation is judged at the last `fire`).
-/
namespace Hannibal

structure C15St where
  hold : HoldSt
  terminated : Bool
  timers : List (Nat × TimerKind)      -- timers of the running incarnation, registered outside `stopped`
  deriving Repr, DecidableEq

/-- what must not happen while a strong handle exists -/
def bad15 (st : C15St) : Label → Bool
  | .ctxStop false => true
  | .ctxRestart false => true
  | .upgrade _ none => true
  | .ctxWeak .weakAddr none => true
  | .timerEnd t => !st.terminated && lookup t st.timers == some .interval
  | _ => false

def next15 (st : C15St) (l : Label) : C15St :=
  let st := { st with hold := st.hold.step l }
  match l with
  | .ctxTimer t k _ => { st with timers := (t, k) :: st.timers }
  | .timerEnd t => { st with timers := st.timers.filter (fun p => p.1 != t) }
  -- a `stopped` callback (of a restart or the final one) legitimately ends the timers registered so far
  | .cbBegin .stopped | .cbEnd .stopped _ => { st with timers := [] }
  | l => if l.terminates then { st with terminated := true } else st

def monC15 (c : MonCtx) : Mon C15St where
  init := { hold := HoldSt.init c.h0 c.k0, terminated := false, timers := [] }
  step st l := if st.hold.strongHeld && bad15 st l then none else some (next15 st l)

structure C15iwSt where
  hold : HoldSt
  quiet : Bool                         -- a stop was issued / the actor failed, terminated or is in `stopped`
  timers : List (Nat × TimerKind)
  heldAtFire : List (Nat × Bool)
  deriving Repr, DecidableEq

def monC15iw (c : MonCtx) : Mon C15iwSt where
  init := { hold := HoldSt.init c.h0 c.k0, quiet := false, timers := [], heldAtFire := [] }
  step st l :=
    let bad := !st.quiet && (match l with
      | .timerEnd t => lookup t st.timers == some .intervalWith && lookup t st.heldAtFire == some true
      | _ => false)
    if bad then none else
    let st := (match l with
      | .fire t _ => { st with heldAtFire := (t, st.hold.strongHeld) :: st.heldAtFire }
      | _ => st)
    let st := { st with hold := st.hold.step l }
    match l with
    | .ctxTimer t k _ => some { st with timers := (t, k) :: st.timers }
    | .cbBegin .stopped | .cbEnd .stopped _ => some { st with timers := [] }
    | .stopReq _ _ | .ctxStop _ | .streamEnd | .cbBegin .finished
    | .begin _ _ .halt | .begin _ _ .tryHalt | .begin _ _ .consume => some { st with quiet := true }
    | l =>
      if l.isFailure || l.terminates || (match l with | .cbAbandon _ => c.cfg.failOnTimeout | _ => false)
      then some { st with quiet := true } else some st

end Hannibal
