import Hannibal.Monitor.Basic
/-
  C02 — calls return their own handler's result, and every operation resolves.
-/
namespace Hannibal

structure C02St where
  ops : List (Nat × (OpKind × Bool))   -- op ↦ (kind, begun after termination)
  returned : List Nat
  finishedOk : List Nat                -- messages whose handler invocation completed
  terminated : Bool
  graceful : Bool
  deriving Repr, DecidableEq

def monC02 (_c : MonCtx) : Mon C02St where
  init := { ops := [], returned := [], finishedOk := [], terminated := false, graceful := false }
  step st l :=
    match l with
    | .begin o _ k => some { st with ops := (o, (k, st.terminated)) :: st.ops }
    | .cbEnd (.handle m) true => some { st with finishedOk := m :: st.finishedOk }
    | .cbEnd .stopped true => some { st with graceful := true }
    | .cbBegin _ => some { st with graceful := false }
    | .ret o r =>
      if st.returned.contains o then none else
      let st' := { st with returned := o :: st.returned }
      (match lookup o st.ops with
       | none => some st'
       | some (k, late) =>
         -- (a) an Ok reply is the one produced by the handler invocation for its own message
         let okA := (match r, k.msg? with
           | .okReply rep, some m => rep.m == m && st.finishedOk.contains m && k.isCall
           | .okReply _, none => false
           | _, _ => true)
         -- (c) operations begun after termination complete with an error (awaits: the termination result)
         let okC := if !late then true else
           (match k with
            | .await => if st.graceful then r == .ok else r.isErr
            | .join => r == .none || (match r with | .some _ => true | _ => false)
            | _ => r.isErr)
         if okA && okC then some st' else none)
    | .quiescent pend =>
      -- (d) nothing hangs: once the actor has terminated no operation on it is pending;
      -- while it lives only waiting for its termination is legitimate
      if pend.all (fun o => match lookup o st.ops with
          | some (k, _) => !st.terminated && (match k with | .await | .join => true | _ => false)
          | none => true)
      then some st else none
    | l => if l.terminates then some { st with terminated := true } else some st

end Hannibal
