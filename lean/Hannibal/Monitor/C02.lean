import Hannibal.Monitor.Basic
/-
  C02 — calls return their own handler's result, and every operation resolves.

  `monC02orig` : the property as first written (one automaton).
  `monC02`     : the part proved of the model (`Props/C02.lean`): no operation returns twice; (a) an Ok reply is
                 the one produced by the completed handler invocation for the call's own message; (c) operations
                 begun after termination complete with an error (awaits: with the termination result, where a
                 *failed* termination gives an error); (d) at quiescence nothing is pending except awaiting /
                 joining a live actor.
  `monC02t`    : trace-only remainder of (c): an await begun after a termination that followed a completed
                 `stopped` callback returns Ok.  (The model lets `cancel` strike between the end of `stopped`
                 and the end of the task, see the witness in `Props/C02.lean`.)
  `monC02orig` rejects a trace iff `monC02` or `monC02t` does (`Proofs/C02Split.lean`, `monC02_split`).
  `monC02nc`   : not part of the property: the executor-level assumption ("no `cancel` between the end of
                 `stopped` and the next callback / the end of the task") under which `monC02t` is proved too.
  `monC02wf`   : trace well-formedness assumed by the theorem: every `begin` carries an operation id that no
                 earlier `begin` of the trace carried (the model alone would let an id be reused after its
                 `ret` / `cdrop`; real traces number their operations consecutively).
-/
namespace Hannibal

structure C02St where
  ops : List (Nat × (OpKind × Bool))   -- op ↦ (kind, begun after termination)
  returned : List Nat
  finishedOk : List Nat                -- messages whose handler invocation completed
  terminated : Bool
  graceful : Bool
  deriving Repr, DecidableEq

def C02St.init : C02St :=
  { ops := [], returned := [], finishedOk := [], terminated := false, graceful := false }

def monC02orig (_c : MonCtx) : Mon C02St where
  init := C02St.init
  step st l :=
    match l with
    | .begin o _ k => some { st with ops := (o, (k, st.terminated)) :: st.ops }
    | .cbEnd (.handle m) true => some { st with finishedOk := m :: st.finishedOk }
    | .cbEnd .stopped true => some { st with graceful := true }
    | .cbBegin _ => some { st with graceful := false }
    | .ret o r =>
      if st.returned.contains o then none else
      let st' := { st with returned := o :: st.returned }
      (match lookup o st.ops with
       | none => some st'
       | some (k, late) =>
         -- (a) an Ok reply is the one produced by the handler invocation for its own message
         let okA := (match r, k.msg? with
           | .okReply rep, some m => rep.m == m && st.finishedOk.contains m && k.isCall
           | .okReply _, none => false
           | _, _ => true)
         -- (c) operations begun after termination complete with an error (awaits: the termination result)
         let okC := if !late then true else
           (match k with
            | .await => if st.graceful then r == .ok else r.isErr
            | .join => r == .none || (match r with | .some _ => true | _ => false)
            | _ => r.isErr)
         if okA && okC then some st' else none)
    | .quiescent pend =>
      -- (d) nothing hangs: once the actor has terminated no operation on it is pending;
      -- while it lives only waiting for its termination is legitimate
      if pend.all (fun o => match lookup o st.ops with
          | some (k, _) => !st.terminated && (match k with | .await | .join => true | _ => false)
          | none => true)
      then some st else none
    | l => if l.terminates then some { st with terminated := true } else some st

/-- state update shared by all three automata -/
def next02 (st : C02St) : Label → C02St
  | .begin o _ k => { st with ops := (o, (k, st.terminated)) :: st.ops }
  | .cbEnd (.handle m) true => { st with finishedOk := m :: st.finishedOk }
  | .cbEnd .stopped true => { st with graceful := true }
  | .cbBegin _ => { st with graceful := false }
  | .ret o _ => { st with returned := o :: st.returned }
  | .quiescent _ => st
  | l => if l.terminates then { st with terminated := true } else st

/-- (a) an Ok reply is the one produced by the handler invocation for its own message -/
def replyOk (finishedOk : List Nat) (k : OpKind) (r : Res) : Bool :=
  match r, k.msg? with
  | .okReply rep, some m => rep.m == m && finishedOk.contains m && k.isCall
  | .okReply _, none => false
  | _, _ => true

/-- (c), proved part: what an operation begun after termination may return -/
def lateOk (graceful : Bool) (k : OpKind) (r : Res) : Bool :=
  match k with
  | .await => if graceful then (r == .ok || r.isErr) else r.isErr
  | .join => r == .none || (match r with | .some _ => true | _ => false)
  | _ => r.isErr

/-- (d) what may be pending at quiescence -/
def pendOk (terminated : Bool) (k : OpKind) : Bool :=
  !terminated && (match k with | .await | .join => true | _ => false)

def bad02 (st : C02St) : Label → Bool
  | .ret o r =>
    st.returned.contains o ||
      (match lookup o st.ops with
       | none => false
       | some (k, late) => !(replyOk st.finishedOk k r && (!late || lateOk st.graceful k r)))
  | .quiescent pend =>
    !pend.all (fun o => match lookup o st.ops with
      | some (k, _) => pendOk st.terminated k
      | none => true)
  | _ => false

def monC02 (_c : MonCtx) : Mon C02St where
  init := C02St.init
  step st l := if bad02 st l then none else some (next02 st l)

/-- (c), trace-only part: an await begun after a termination that followed a completed `stopped` gets Ok -/
def bad02t (st : C02St) : Label → Bool
  | .ret o r =>
    (match lookup o st.ops with
     | some (.await, true) => st.graceful && r != .ok
     | _ => false)
  | _ => false

def monC02t (_c : MonCtx) : Mon C02St where
  init := C02St.init
  step st l := if bad02t st l then none else some (next02 st l)

/-- well-formedness of a trace: operation ids of `begin` labels are pairwise distinct -/
def monC02wf (_c : MonCtx) : Mon (List Nat) where
  init := []
  step seen l :=
    match l with
    | .begin o _ _ => if seen.contains o then none else some (o :: seen)
    | _ => some seen

/-- every `begin` of the trace carries a fresh operation id -/
def opIdsFresh (ls : List Label) : Bool := (monC02wf default).ok ls

/-- executor-level assumption under which the trace-only clause `monC02t` holds of the model as well: the
    loop task is not cancelled between the return of its `stopped` callback and its next callback / its end
    (the loop future has no suspension point there).  State: `stopped` completed and no callback began since. -/
def monC02nc (_c : MonCtx) : Mon Bool where
  init := false
  step g l :=
    match l with
    | .cancel => if g then none else some g
    | .cbEnd .stopped true => some true
    | .cbBegin _ => some false
    | _ => some g

def noCancelAfterStopped (ls : List Label) : Bool := (monC02nc default).ok ls

end Hannibal
