import Hannibal.Monitor.Handles
/-
  C04 — stop is a drain barrier and termination is announced after stopped().

  `monC04`  : announcement — awaiting an address, `halt`, `try_halt` and `join` resolve only after the
              `stopped` callback has finished, with Ok / the value exactly when termination was
              graceful, and with an error only when the actor failed.
  `monC04q` : drain barrier — everything whose `send` returned Ok before the first stop request is
              handled; nothing submitted after an accepted stop request returned is ever handled (its
              call returns an error); the actor has terminated gracefully by quiescence.
-/
namespace Hannibal

structure C04St where
  hold : HoldSt                -- (for the kinds of the pending operations)
  failure : Bool
  stoppedDone : Bool           -- `stopped` finished and no callback began since
  terminated : Bool
  deriving Repr, DecidableEq

def isLatchKind : OpKind → Bool
  | .halt | .tryHalt | .await => true
  | _ => false

def isJoinKind : OpKind → Bool
  | .join | .consume => true
  | _ => false

def bad04 (st : C04St) : Label → Bool
  | .ret o r =>
    (match lookup o st.hold.ops with
     | some (k, _) =>
       if isLatchKind k then
         (match r with
          | .ok => !(st.stoppedDone && !st.failure)       -- Ok only after a graceful `stopped`
          | .err .canceled => !st.failure                 -- the termination error only if it failed
          | _ => false)
       else if isJoinKind k then
         (match r with
          | .some _ => !(st.terminated && st.stoppedDone && !st.failure)
          | _ => false)
       else false
     | none => false)
  | _ => false

def failsActor (failOnTimeout : Bool) : Label → Bool
  | .cbAbandon _ => failOnTimeout
  | l => l.isFailure

def next04 (c : MonCtx) (st : C04St) (l : Label) : C04St :=
  let st := { st with hold := st.hold.step l }
  let st := if failsActor c.cfg.failOnTimeout l then { st with failure := true } else st
  let st := if l.terminates then { st with terminated := true } else st
  match l with
  | .cbBegin _ => { st with stoppedDone := false }
  | .cbEnd .stopped _ => { st with stoppedDone := true }
  | _ => st

def monC04 (c : MonCtx) : Mon C04St where
  init := { hold := HoldSt.init c.h0 c.k0, failure := false, stoppedDone := false, terminated := false }
  step st l := if bad04 st l then none else some (next04 c st l)

structure C04qSt where
  ops : List (Nat × OpKind)
  stopIssued : Bool            -- some stop request was issued (accepted or not)
  stopAccepted : Bool          -- some stop request was accepted and has returned
  sentOk : List Nat            -- messages whose send returned Ok before any stop request was issued
  late : List Nat              -- messages whose operation began after an accepted stop request returned
  handled : List Nat
  failure : Bool
  terminated : Bool
  streamEnded : Bool
  deriving Repr, DecidableEq

def monC04q (c : MonCtx) : Mon C04qSt where
  init := { ops := [], stopIssued := false, stopAccepted := false, sentOk := [], late := [], handled := [],
            failure := false, terminated := false, streamEnded := false }
  step st l :=
    match l with
    | .begin o _ k =>
      let st := { st with ops := (o, k) :: st.ops }
      let st := (match k with
        | .halt | .tryHalt | .consume => { st with stopIssued := true }
        | _ => st)
      (match k.msg? with
       | some m => if st.stopAccepted then some { st with late := m :: st.late } else some st
       | none => some st)
    | .stopReq _ ok | .ctxStop ok =>
      some { st with stopIssued := true, stopAccepted := st.stopAccepted || ok }
    | .ret o r =>
      (match lookup o st.ops with
       | none => some st
       | some k =>
         (match k with
          | .send m | .trySend m | .tryForce m =>
            if r == .ok && !st.stopIssued then some { st with sentOk := m :: st.sentOk } else some st
          | .call m | .callw m | .tryCall m =>
            -- a message submitted after an accepted stop request returned: its call returns an error
            if st.late.contains m && !r.isErr then none else some st
          | .halt | .tryHalt => if r == .ok then some { st with stopAccepted := true } else some st
          | _ => some st))
    | .cbBegin (.handle m) => if st.late.contains m then none else some { st with handled := m :: st.handled }
    | .streamEnd => some { st with streamEnded := true }
    | .quiescent _ =>
      -- stop accepted, no failure: everything sent before the first stop request was handled
      if st.stopAccepted && !st.failure && !(c.cfg.stream && st.streamEnded) then
        if st.sentOk.all (fun m => st.handled.contains m) && st.terminated then some st else none
      else some st
    | l =>
      let st := if failsActor c.cfg.failOnTimeout l then { st with failure := true } else st
      if l.terminates then some { st with terminated := true } else some st

end Hannibal
