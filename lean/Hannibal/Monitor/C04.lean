import Hannibal.Monitor.Basic
/-
  C04 — stop is a drain barrier; termination is announced after stopped().
-/
namespace Hannibal

structure C04St where
  ops : List (Nat × OpKind)
  stopIssued : Bool            -- some stop request was issued (accepted or not)
  stopAccepted : Bool          -- some stop request was accepted and has returned
  sentOk : List Nat            -- messages whose send returned Ok before any stop request was issued
  late : List Nat              -- messages whose operation began after an accepted stop request returned
  handled : List Nat
  failure : Bool
  stoppedDone : Bool           -- `stopped` finished and no callback began since
  terminated : Bool
  streamEnded : Bool
  deriving Repr, DecidableEq

def monC04 (c : MonCtx) : Mon C04St where
  init := { ops := [], stopIssued := false, stopAccepted := false, sentOk := [], late := [], handled := [],
            failure := false, stoppedDone := false, terminated := false, streamEnded := false }
  step st l :=
    match l with
    | .begin o _ k =>
      let st := { st with ops := (o, k) :: st.ops }
      let st := (match k with
        | .halt | .tryHalt | .consume => { st with stopIssued := true }
        | _ => st)
      (match k.msg? with
       | some m => if st.stopAccepted then some { st with late := m :: st.late } else some st
       | none => some st)
    | .stopReq _ ok | .ctxStop ok =>
      some { st with stopIssued := true, stopAccepted := st.stopAccepted || ok }
    | .ret o r =>
      (match lookup o st.ops with
       | none => some st
       | some k =>
         (match k with
          | .send m | .trySend m =>
            if r == .ok && !st.stopIssued then some { st with sentOk := m :: st.sentOk } else some st
          | .call m | .callw m | .tryCall m =>
            -- a message submitted after an accepted stop request returned: its call returns an error
            if st.late.contains m && !r.isErr then none else some st
          | .halt | .tryHalt =>
            -- resolves only after `stopped` has finished; Ok exactly when termination was graceful
            (match r with
             | .ok => if st.stoppedDone && !st.failure then some { st with stopAccepted := true } else none
             | .err .canceled => if st.failure then some st else none
             | _ => some st)       -- the stop request itself was refused
          | .await =>
            (match r with
             | .ok => if st.stoppedDone && !st.failure then some st else none
             | .err _ => if st.failure then some st else none
             | _ => none)
          | .join | .consume =>
            (match r with
             | .some _ => if st.terminated && st.stoppedDone && !st.failure then some st else none
             | _ => some st)
          | _ => some st))
    | .cbBegin cb =>
      let st := { st with stoppedDone := false }
      (match cb with
       | .handle m => if st.late.contains m then none else some { st with handled := m :: st.handled }
       | _ => some st)
    | .cbEnd .stopped _ => some { st with stoppedDone := true }
    | .streamEnd => some { st with streamEnded := true }
    | .quiescent _ =>
      -- stop accepted, no failure: everything sent before the first stop request was handled
      if st.stopAccepted && !st.failure && !(c.cfg.stream && st.streamEnded) then
        if st.sentOk.all (fun m => st.handled.contains m) && st.terminated then some st else none
      else some st
    | l =>
      let st := if l.isFailure || (match l with | .cbAbandon _ => c.cfg.failOnTimeout | _ => false)
                then { st with failure := true } else st
      if l.terminates then some { st with terminated := true } else some st

end Hannibal
