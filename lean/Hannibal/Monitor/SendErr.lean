import Hannibal.Monitor.Basic
/-
  The mailbox stays open for as long as the actor's task runs - through `stopped` / `finished` too: an operation
  is refused with a send error (`Disconnected`) only once the task has ended.  A clause of C17 ("resolves exactly
  when the actor has terminated ... otherwise an OwningAddr behaves as a strong handle": `consume` = stop + join
  must not fail on an actor that is still stopping), of C04 ("halt and join resolve only after stopped has
  finished") and of C02 ("operations begun after termination complete with an error": and only those are refused).
-/
namespace Hannibal

def badSendErr (term : Bool) : Label → Bool
  | .ret _ (.err .send) => !term
  | _ => false

def monSendErr : Mon Bool where
  init := false
  step term l := if badSendErr term l then none else some (term || l.terminates)

end Hannibal
