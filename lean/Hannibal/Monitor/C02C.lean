import Hannibal.Monitor.Basic
/-
  C02 / C04, "a call whose own message was handled returns the value the handler produced" in the direction the
  other monitors leave open: once the handler invocation for a call's message has run to completion, the call does
  not return an error (monC02 says: an Ok carries exactly that value; monC04q: a call submitted before any stop
  request returns Ok).  Message numbers and operation ids are fresh (`wf01`, checked on every real trace).

  `monC02c`: `ret o (.err _)` is a violation when `o` is a call whose message's handler invocation ended normally.
-/
namespace Hannibal

structure C02cSt where
  calls : List (Nat × Nat)   -- call op ↦ message
  done : List Nat            -- messages whose handler invocation ran to completion
  deriving Repr, DecidableEq

def bad02c (st : C02cSt) : Label → Bool
  | .ret o r =>
    (match lookup o st.calls with
     | some m => st.done.contains m && r.isErr
     | none => false)
  | _ => false

def next02c (st : C02cSt) : Label → C02cSt
  | .begin o _ k =>
    (match k.isCall, k.msg? with
     | true, some m => { st with calls := (o, m) :: st.calls }
     | _, _ => st)
  | .cbEnd (.handle m) true => { st with done := m :: st.done }
  | _ => st

def monC02c : Mon C02cSt where
  init := { calls := [], done := [] }
  step st l := if bad02c st l then none else some (next02c st l)

end Hannibal
