import Hannibal.Monitor.Basic
/-
  C01 — mailbox is FIFO: sequential, in-order, at-most-once; state is the fold.
-/
namespace Hannibal

structure C01St where
  openCb : Bool
  ops : List (Nat × (Nat × Bool))       -- op ↦ (message, is-call-like)
  completed : List Nat                  -- messages whose submission completed
  before : List (Nat × List Nat)        -- message ↦ completed-but-unhandled messages when its op began
  handled : List Nat
  hlog : List Nat                       -- digest: handled message/item ids of the current value
  digestAt : List (Nat × List Nat)      -- message ↦ digest when its handler finished
  deriving Repr, DecidableEq

def monC01 (_c : MonCtx) : Mon C01St where
  init := { openCb := false, ops := [], completed := [], before := [], handled := [], hlog := [], digestAt := [] }
  step st l :=
    match l with
    | .begin o _ k =>
      (match k.msg? with
       | some m =>
         some { st with ops := (o, (m, k.isCall)) :: st.ops,
                        before := (m, st.completed.filter (fun x => !st.handled.contains x)) :: st.before }
       | none => some st)
    | .ret o r =>
      (match lookup o st.ops with
       | some (m, isCall) =>
         let done := if isCall then (r matches .okReply _) || r == .err .canceled else r == .ok
         let st' := if done then { st with completed := m :: st.completed } else st
         (match r with
          | .okReply rep =>
            -- the reply is the one of its own message and carries the fold of what was handled
            if rep.m == m && lookup m st.digestAt == some rep.digest then some st' else none
          | _ => some st')
       | none =>
         (match r with
          | .some f => if f.digest == st.hlog then some st else none   -- joined value = the fold
          | _ => some st))
    | .cbBegin cb =>
      if st.openCb then none else
      (match cb with
       | .handle m =>
         if st.handled.contains m then none
         else if !((lookup m st.before).getD []).all (fun m1 => st.handled.contains m1) then none
         else some { st with openCb := true, handled := m :: st.handled, hlog := st.hlog ++ [m] }
       | .item k => some { st with openCb := true, hlog := st.hlog ++ [200000 + k] }
       | _ => some { st with openCb := true })
    | .cbEnd cb _ =>
      (match cb with
       | .handle m => some { st with openCb := false, digestAt := (m, st.hlog) :: st.digestAt }
       | _ => some { st with openCb := false })
    | .cbAbandon _ | .cbPanic _ => some { st with openCb := false }
    | .vnew _ => some { st with hlog := [] }
    | _ => some st

/-! ### well-formedness of a label sequence: message numbers and operation ids are never re-used
  (the hypothesis of `C01_holds`; not a property of hannibal but of how traces name things) -/

structure Wf01St where
  seenM : List Nat
  seenO : List Nat
  deriving Repr, DecidableEq

def wfBad (g : Wf01St) : Label → Bool
  | .begin o _ k =>
    g.seenO.contains o || (match k.msg? with | some m => g.seenM.contains m | none => false)
  | .fire _ (some m) => g.seenM.contains m
  | .tickBegin _ m => g.seenM.contains m
  | .extBegin _ m => g.seenM.contains m
  | _ => false

def wfNext (g : Wf01St) : Label → Wf01St
  | .begin o _ k =>
    { seenM := (match k.msg? with | some m => m :: g.seenM | none => g.seenM), seenO := o :: g.seenO }
  | .fire _ (some m) => { g with seenM := m :: g.seenM }
  | .tickBegin _ m => { g with seenM := m :: g.seenM }
  | .extBegin _ m => { g with seenM := m :: g.seenM }
  | _ => g

/-- message numbers (of `begin`, `fire (some m)`, `tickBegin _ m`, `extBegin _ m`) and operation ids (of `begin`) are
    pairwise distinct -/
def monWf01 : Mon Wf01St where
  init := { seenM := [], seenO := [] }
  step g l := if wfBad g l then none else some (wfNext g l)

def wf01 (ls : List Label) : Bool := monWf01.ok ls

end Hannibal
