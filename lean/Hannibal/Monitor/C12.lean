import Hannibal.Monitor.Basic
/-
  C12 — a bounded mailbox exerts backpressure on send.

  At every moment (while the actor has not terminated) the number of send
  operations that have returned Ok and whose message the actor has not yet
  taken out of its mailbox is at most n.
-/
namespace Hannibal

structure C12St where
  sends : List (Nat × Nat)   -- (operation, message) of every send-like operation begun
  out : List Nat             -- returned Ok, not yet taken out of the mailbox
  handled : List Nat         -- taken out (handler invocation began)
  dead : Bool
  deriving Repr, DecidableEq

def isSendKind : OpKind → Option Nat
  | .send m | .trySend m => some m
  | _ => none

def monC12 (cap : Option Nat) : Mon C12St where
  init := { sends := [], out := [], handled := [], dead := false }
  step st l :=
    match l with
    | .begin o _ k =>
      (match isSendKind k with
       | some m => some { st with sends := (o, m) :: st.sends }
       | none => some st)
    | .ret o r =>
      let st' := { st with sends := st.sends.filter (fun p => p.1 != o) }
      if r = .ok then
        (match st.sends.find? (fun p => p.1 == o) with
         | some (_, m) =>
           if st.dead || st.handled.contains m || st.out.contains m then some st'
           else
             (match cap with
              | some n =>
                if (st.out ++ [m]).length ≤ n then some { st' with out := st.out ++ [m] } else none
              | none => some { st' with out := st.out ++ [m] })
         | none => some st')
      else some st'
    | .cdrop o => some { st with sends := st.sends.filter (fun p => p.1 != o) }
    | .cbBegin (.handle m) =>
      some { st with out := st.out.erase m, handled := m :: st.handled }
    | l => if l.terminates then some { st with dead := true } else some st

end Hannibal
