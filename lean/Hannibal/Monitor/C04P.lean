import Hannibal.Monitor.Basic
/-
  C02 / C04: "no message submitted after an accepted stop request returned is ever handled" for the one submission
  that has no handler callback - `ping`.  A ping begun after an accepted stop request returned sits behind the stop
  marker in the mailbox, the actor never reaches it, so it never returns Ok ("a call never returns Ok for a message
  that was not handled", said of pings).

  `monC04p`: `ret o .ok` is a violation when `o` is a ping begun after some stop request was accepted and had returned.
-/
namespace Hannibal

structure C04pSt where
  ops : List (Nat × OpKind)
  stopAccepted : Bool          -- some stop request was accepted and has returned
  late : List Nat              -- pings begun after that
  deriving Repr, DecidableEq

def bad04p (st : C04pSt) : Label → Bool
  | .ret o r => st.late.contains o && r == .ok
  | _ => false

def next04p (st : C04pSt) : Label → C04pSt
  | .begin o _ k =>
    { st with ops := (o, k) :: st.ops,
              late := (match k with | .ping => if st.stopAccepted then o :: st.late else st.late | _ => st.late) }
  | .stopReq _ ok | .ctxStop ok => { st with stopAccepted := st.stopAccepted || ok }
  | .ret o r =>
    (match lookup o st.ops with
     | some .halt | some .tryHalt => if r == .ok then { st with stopAccepted := true } else st
     | _ => st)
  | _ => st

def monC04p : Mon C04pSt where
  init := { ops := [], stopAccepted := false, late := [] }
  step st l := if bad04p st l then none else some (next04p st l)

end Hannibal
