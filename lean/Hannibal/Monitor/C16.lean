import Hannibal.Model.Sys
import Hannibal.Monitor.C05
/-
  C16 — children live exactly as long as their parent and receive its broadcasts.

  `monC16`  (safety, proved for the system model in Props/C16.lean): a broadcast `b` is taken up only by an
            actor that was registered under the broadcast's type with the broadcasting parent when it was sent,
            and at most once per registration.
  `monC16q` (proved for the system model in Props/C16Q.lean): at every quiescent point of a child that was not
            stopped, restarted, has not failed and whose stream (if it is stream-attached) has not ended, the
            child has taken every broadcast up exactly once per registration.
  Lifetime ("kept alive exactly until the parent terminates, then released, then drains and stops
  gracefully") is C05 applied to the child's projection, in which the parent's handle is an ordinary
  strong handle that is dropped by the parent's terminating event (`projOf` below): `monC05` / `monC05q`
  run on every actor's projection.
-/
namespace Hannibal

structure C16St where
  kids : List Kid
  owed : Nat → Nat → Nat       -- broadcast ↦ child ↦ how many times it may still be taken up
  issued : List Nat            -- broadcasts sent so far

/-- registrations of child `c` with parent `p` under type `ty` -/
def regCount (kids : List Kid) (p ty c : Nat) : Nat :=
  (kids.filter (fun k => k.p == p && k.ty == ty && k.c == c)).length

def bad16 (st : C16St) : SLabel → Bool
  | .act c (.extBegin b _) => st.owed b c == 0
  | _ => false

def next16 (st : C16St) : SLabel → C16St
  | .addChild p ty c h => { st with kids := st.kids ++ [{ p, ty, c, h }] }
  | .bcast p ty b =>
    { st with owed := fun b' c => st.owed b' c + (if b' = b then regCount st.kids p ty c else 0),
              issued := b :: st.issued }
  | .act c (.extBegin b _) =>
    { st with owed := fun b' c' => if b' = b ∧ c' = c then st.owed b c - 1 else st.owed b' c' }
  | .act a l => if l.endsTask then { st with kids := st.kids.filter (fun k => k.p != a) } else st
  | _ => st

structure SMon (σ : Type) where
  init : σ
  step : σ → SLabel → Option σ

def SMon.run {σ : Type} (m : SMon σ) (st : σ) : List SLabel → Option σ
  | [] => some st
  | l :: ls => match m.step st l with
    | some st' => SMon.run m st' ls
    | none => none

def SMon.firstFail {σ : Type} (m : SMon σ) (st : σ) (k : Nat) : List SLabel → Option Nat
  | [] => none
  | l :: ls => match m.step st l with
    | some st' => SMon.firstFail m st' (k + 1) ls
    | none => some k

def SMon.ok {σ : Type} (m : SMon σ) (ls : List SLabel) : Bool := (m.run m.init ls).isSome

def monC16 : SMon C16St where
  init := { kids := [], owed := fun _ _ => 0, issued := [] }
  step st l := if bad16 st l then none else some (next16 st l)

/-- what actor `a` sees of a system label, given the parent → child edges at that moment -/
def emits (kids : List Kid) (a : Nat) : SLabel → List Label
  | .act a' l =>
    (if a' = a then [l] else []) ++
      (if l.endsTask then (kids.filter (fun k => k.p == a' && k.c == a)).map (fun k => Label.drop k.h) else [])
  | .bcast p ty b => (kids.filter (fun k => k.p == p && k.ty == ty && k.c == a)).map (fun _ => Label.extPush b)
  | _ => []

/-- the label sequence of actor `a` inside a system run -/
def projFrom (kids : List Kid) (a : Nat) : List SLabel → List Label
  | [] => []
  | l :: ls =>
    emits kids a l ++ projFrom (match l with
      | .addChild p ty c h => kids ++ [{ p, ty, c, h }]
      | .act a' l' => if l'.endsTask then kids.filter (fun k => k.p != a') else kids
      | _ => kids) a ls

def projOf (a : Nat) (ls : List SLabel) : List Label := projFrom [] a ls

structure C16qSt where
  base : C16St
  stopped : List Nat      -- actors somebody asked to stop or restart, or that failed: their mailbox may be dropped

/-- events after which an actor may legitimately drop queued broadcasts.
    `streamEnd`: a stream-attached actor terminates with its stream (C13) whatever is still queued; without this
    exemption the clause is false of the model (witness `c16qStreamWitness`, Props/C16Q.lean). -/
def cuts (l : Label) : Bool :=
  issuesStop l || l.isFailure ||
    (match l with | .cbAbandon _ | .restartReq _ _ | .ctxRestart _ | .streamEnd => true | _ => false)

def monC16q : SMon C16qSt where
  init := { base := { kids := [], owed := fun _ _ => 0, issued := [] }, stopped := [] }
  step st l :=
    let st' : C16qSt := { st with base := next16 st.base l }
    match l with
    | .act a (.quiescent _) =>
      -- nothing is owed any more to an actor that was never stopped, restarted or failed
      if !st.stopped.contains a && st.base.issued.any (fun b => st.base.owed b a > 0) then none else some st'
    | .act a l' => if cuts l' then some { st' with stopped := a :: st'.stopped } else some st'
    | _ => some st'

end Hannibal
