import Hannibal.Monitor.Basic
/-
  C01, per-submitter order said of `ping`, the one submission without a handler callback: the mailbox is FIFO, so
  when a ping returns Ok every message whose send had been acknowledged before the ping began has already been taken
  out of the mailbox (its handler invocation has begun).  A ping never overtakes an earlier acknowledged send - of
  the same task or of any other.

  `monC01p`: `ret o .ok` of a ping is a violation while some message acknowledged before the ping's `begin` has not
  been handled.  Message numbers and operation ids are fresh (`wf01`, checked on every real trace).
-/
namespace Hannibal

structure C01pSt where
  sends : List (Nat × Nat)          -- send-like op ↦ message
  acked : List Nat                  -- messages whose send returned Ok
  begun : List Nat                  -- messages whose handler invocation has begun
  pings : List (Nat × List Nat)     -- ping op ↦ the messages acknowledged before it began
  deriving Repr, DecidableEq

def bad01p (st : C01pSt) : Label → Bool
  | .ret o r =>
    (match lookup o st.pings with
     | some before => r == .ok && before.any (fun m => !st.begun.contains m)
     | none => false)
  | _ => false

def next01p (st : C01pSt) : Label → C01pSt
  | .begin o _ k =>
    (match k with
     | .ping => { st with pings := (o, st.acked) :: st.pings }
     | .send m | .trySend m | .tryForce m => { st with sends := (o, m) :: st.sends }
     | _ => st)
  | .ret o r =>
    (match lookup o st.sends with
     | some m => if r == .ok then { st with acked := m :: st.acked } else st
     | none => st)
  | .cbBegin (.handle m) => { st with begun := m :: st.begun }
  | _ => st

def monC01p : Mon C01pSt where
  init := { sends := [], acked := [], begun := [], pings := [] }
  step st l := if bad01p st l then none else some (next01p st l)

end Hannibal
