import Hannibal.Monitor.Basic
/-
  C11 — handler timeouts abandon exactly the invocations that exceed the limit.

  `monC11`  : an invocation is abandoned only if a timeout t is configured (plain actors) and never before
              t has elapsed since it began; only handler invocations are ever abandoned; an abandoned
              invocation produces no further context effects; with fail_on_timeout nothing is handled any
              more afterwards; without a configured timeout nothing is ever abandoned.
  `monC11p` : on prompt schedules an invocation needing less than t completes and one needing more is
              abandoned exactly at t; the caller of an abandoned invocation receives an error.
-/
namespace Hannibal

structure C11St where
  clock : Nat
  cur : Option (Nat × Nat)           -- open handler invocation: (message, begin time)
  afterAbandon : Bool                -- an invocation was abandoned and no callback began since
  cancelled : Bool
  dead : Bool                        -- fail_on_timeout fired
  deriving Repr, DecidableEq

def tmoOf (c : Cfg) : Option Nat := if c.stream then none else c.timeout

def bad11 (c : MonCtx) (st : C11St) : Label → Bool
  | .cbAbandon cb =>
    !st.cancelled &&
      (match cb, st.cur, tmoOf c.cfg with
       | .handle m, some (m', b), some t => !(m == m' && st.clock ≥ b + t)   -- never before t
       | _, _, _ => true)                                                    -- no timeout / not a handler
  | .ctxStop _ | .ctxRestart _ | .ctxTimer _ _ _ | .ctxWeak _ _ => st.afterAbandon
  | .cbBegin _ => st.dead
  | _ => false

def next11 (c : MonCtx) (st : C11St) : Label → C11St
  | .time t => { st with clock := t }
  | .cbBegin (.handle m) => { st with cur := some (m, st.clock), afterAbandon := false }
  | .cbBegin _ => { st with cur := none, afterAbandon := false }
  | .cbEnd _ _ => { st with cur := none }
  | .cbAbandon _ =>
    if st.cancelled then { st with cur := none }
    else { st with cur := none, afterAbandon := true, dead := c.cfg.failOnTimeout }
  | .cbPanic _ => { st with cur := none }
  | .cancel => { st with cancelled := true }
  | _ => st

def monC11 (c : MonCtx) : Mon C11St where
  init := { clock := 0, cur := none, afterAbandon := false, cancelled := false, dead := false }
  step st l := if bad11 c st l then none else some (next11 c st l)

structure C11pSt where
  clock : Nat
  cur : Option (Nat × Nat × Nat)     -- (message, begin time, announced work)
  ops : List (Nat × Nat)             -- call op ↦ message
  abandoned : List Nat
  cancelled : Bool
  deriving Repr, DecidableEq

def monC11p (c : MonCtx) : Mon C11pSt where
  init := { clock := 0, cur := none, ops := [], abandoned := [], cancelled := false }
  step st l :=
    let tmo := tmoOf c.cfg
    match l with
    | .time t => some { st with clock := t }
    | .begin o _ k =>
      (match k.isCall, k.msg? with
       | true, some m => some { st with ops := (o, m) :: st.ops }
       | _, _ => some st)
    | .cbBegin (.handle m) => some { st with cur := some (m, st.clock, 0) }
    | .work d =>
      (match st.cur with
       | some (m, b, w) => some { st with cur := some (m, b, w + d) }
       | none => some st)
    | .cbEnd (.handle _) _ =>
      (match st.cur, tmo with
       | some (_, _, w), some t =>
         -- an invocation that needs more than t is abandoned (prompt schedules)
         if c.prompt && w > t then none else some { st with cur := none }
       | _, _ => some { st with cur := none })
    | .cbAbandon (.handle m) =>
      if st.cancelled then some { st with cur := none } else
      (match st.cur, tmo with
       | some (_, b, w), some t =>
         -- one that needs less than t completes; abandonment happens exactly at t (prompt schedules)
         if c.prompt && (w < t || st.clock != b + t) then none
         else some { st with cur := none, abandoned := m :: st.abandoned }
       | _, _ => some st)
    | .ret o r =>
      (match lookup o st.ops with
       | some m => if st.abandoned.contains m && !r.isErr then none else some st
       | none => some st)
    | .cancel => some { st with cancelled := true }
    | _ => some st

end Hannibal
