import Hannibal.Monitor.Basic
/-
  C11 — handler timeouts abandon exactly the invocations that exceed the limit.
-/
namespace Hannibal

structure C11St where
  clock : Nat
  cur : Option (Nat × Nat × Nat)     -- open handler invocation: (message, begin time, announced work)
  ops : List (Nat × Nat)             -- call op ↦ message
  abandoned : List Nat
  afterAbandon : Bool                -- an invocation was abandoned and no callback began since
  cancelled : Bool
  dead : Bool                        -- fail_on_timeout fired
  deriving Repr, DecidableEq

def monC11 (c : MonCtx) : Mon C11St where
  init := { clock := 0, cur := none, ops := [], abandoned := [], afterAbandon := false, cancelled := false, dead := false }
  step st l :=
    let tmo := if c.cfg.stream then none else c.cfg.timeout
    match l with
    | .time t => some { st with clock := t }
    | .begin o _ k =>
      (match k, k.msg? with
       | .call _, some m | .callw _, some m | .tryCall _, some m => some { st with ops := (o, m) :: st.ops }
       | _, _ => some st)
    | .cbBegin cb =>
      if st.dead then none else
      (match cb with
       | .handle m => some { st with cur := some (m, st.clock, 0), afterAbandon := false }
       | _ => some { st with afterAbandon := false })
    | .work d =>
      (match st.cur with
       | some (m, b, w) => some { st with cur := some (m, b, w + d) }
       | none => some st)
    | .cbEnd (.handle _) _ =>
      (match st.cur, tmo with
       | some (_, _, w), some t =>
         -- an invocation that needs more than t is abandoned (prompt schedules)
         if c.prompt && w > t then none else some { st with cur := none }
       | _, _ => some { st with cur := none })
    | .cbAbandon (.handle m) =>
      if st.cancelled then some { st with cur := none } else
      (match st.cur, tmo with
       | some (_, b, w), some t =>
         -- abandoned at t, never earlier; one that needs less than t completes (prompt schedules)
         if st.clock < b + t then none
         else if c.prompt && (w < t || st.clock != b + t) then none
         else some { st with cur := none, abandoned := m :: st.abandoned, afterAbandon := true,
                             dead := c.cfg.failOnTimeout }
       | _, _ => none)               -- no timeout configured: nothing is ever abandoned
    | .cbAbandon _ => if st.cancelled then some st else none
    | .ctxStop _ | .ctxRestart _ | .ctxTimer _ _ _ | .ctxWeak _ _ =>
      -- an abandoned invocation produces no further effects
      if st.afterAbandon then none else some st
    | .ret o r =>
      (match lookup o st.ops with
       | some m => if st.abandoned.contains m && !r.isErr then none else some st
       | none => some st)
    | .cancel => some { st with cancelled := true }
    | _ => some st

end Hannibal
