import Hannibal.Monitor.Basic
/-
  C03 — lifecycle callbacks follow started / handle* / stopped.

  `monC03`  : a regular-language check over one actor's callback events (order, exactly-once,
              nothing after the end, nothing after a failure, `finished` before `stopped` for
              stream-attached actors, restart = `stopped` then `started`).
  `monC03q` : the graceful-end clause: after an accepted stop request and absent failures the
              actor has ended (with `stopped` called) by the time nothing can move any more.
-/
namespace Hannibal

inductive L3 where
  | fresh | inStarted | running | inHandler | inStopped | afterStopped
  | inFinished | afterFinished | failed | ended
  deriving DecidableEq, Repr, Inhabited

def monC03 (c : MonCtx) : Mon L3 where
  init := .fresh
  step ph l :=
    let restartable := !c.cfg.stream && c.cfg.strat != .non
    match l with
    | .cbBegin .started =>
      (match ph with
       | .fresh => some .inStarted
       | .afterStopped => if restartable then some .inStarted else none
       | _ => none)
    | .cbEnd .started ok => if ph == .inStarted then some (if ok then .running else .failed) else none
    | .cbBegin (.handle _) => if ph == .running then some .inHandler else none
    | .cbBegin (.item _) => if ph == .running && c.cfg.stream then some .inHandler else none
    | .cbEnd (.handle _) _ | .cbEnd (.item _) _ => if ph == .inHandler then some .running else none
    | .cbBegin .finished => if ph == .running && c.cfg.stream then some .inFinished else none
    | .cbEnd .finished _ => if ph == .inFinished then some .afterFinished else none
    | .cbBegin .stopped =>
      (match ph with
       | .running => if c.cfg.stream then none else some .inStopped
       | .afterFinished => some .inStopped
       | _ => none)
    | .cbEnd .stopped _ => if ph == .inStopped then some .afterStopped else none
    | .cbAbandon _ =>
      (match ph with
       | .inHandler => if c.cfg.failOnTimeout then some .failed else some .running
       | .failed => some .failed        -- drop guard of a callback cut short by a cancellation
       | _ => none)
    | .cbPanic _ | .cancel | .taskPanic => some .failed
    | .taskDone =>
      (match ph with
       | .afterStopped => some .ended
       | .failed => some .failed
       | _ => none)                     -- the loop returned without `stopped`
    | _ => some ph

structure C03qSt where
  graceful : Bool        -- a stop request was accepted
  sawFailure : Bool
  ended : Bool           -- the task ended after `stopped`
  stoppedDone : Bool
  deriving Repr, DecidableEq

def monC03q (c : MonCtx) : Mon C03qSt where
  init := { graceful := false, sawFailure := false, ended := false, stoppedDone := false }
  step st l :=
    match l with
    | .stopReq _ true | .ctxStop true => some { st with graceful := true }
    | .cbEnd .stopped _ => some { st with stoppedDone := true }
    | .cbBegin _ => some { st with stoppedDone := false }
    | .taskDone => some { st with ended := st.stoppedDone }
    | .quiescent _ => if st.graceful && !st.sawFailure && !st.ended then none else some st
    | l =>
      if l.isFailure || (match l with | .cbAbandon _ => c.cfg.failOnTimeout | _ => false)
      then some { st with sawFailure := true } else some st

end Hannibal
