import Hannibal.Monitor.Basic
/-
  C03 — lifecycle callbacks follow started / handle* / stopped.
  A regular-language check over one actor's callback events.
-/
namespace Hannibal

inductive L3 where
  | fresh | inStarted | running | inHandler | inStopped | afterStopped
  | inFinished | afterFinished | failed | ended
  deriving DecidableEq, Repr, Inhabited

structure C03St where
  ph : L3
  graceful : Bool        -- a graceful cause occurred (accepted stop request)
  sawFailure : Bool
  deriving Repr, DecidableEq

def monC03 (c : MonCtx) : Mon C03St where
  init := { ph := .fresh, graceful := false, sawFailure := false }
  step st l :=
    let restartable := !c.cfg.stream && c.cfg.strat != .non
    match l with
    | .cbBegin .started =>
      (match st.ph with
       | .fresh => some { st with ph := .inStarted }
       | .afterStopped => if restartable then some { st with ph := .inStarted } else none
       | _ => none)
    | .cbEnd .started ok =>
      if st.ph == .inStarted then some { st with ph := (if ok then .running else .failed), sawFailure := st.sawFailure || !ok }
      else none
    | .cbBegin (.handle _) => if st.ph == .running then some { st with ph := .inHandler } else none
    | .cbBegin (.item _) =>
      if st.ph == .running && c.cfg.stream then some { st with ph := .inHandler } else none
    | .cbEnd (.handle _) _ | .cbEnd (.item _) _ =>
      if st.ph == .inHandler then some { st with ph := .running } else none
    | .cbBegin .finished =>
      if st.ph == .running && c.cfg.stream then some { st with ph := .inFinished } else none
    | .cbEnd .finished _ => if st.ph == .inFinished then some { st with ph := .afterFinished } else none
    | .cbBegin .stopped =>
      (match st.ph with
       | .running => if c.cfg.stream then none else some { st with ph := .inStopped }
       | .afterFinished => some { st with ph := .inStopped }
       | _ => none)
    | .cbEnd .stopped _ => if st.ph == .inStopped then some { st with ph := .afterStopped } else none
    | .cbAbandon _ =>
      (match st.ph with
       | .inHandler =>
         if c.cfg.failOnTimeout then some { st with ph := .failed, sawFailure := true }
         else some { st with ph := .running }
       | .failed => some st          -- drop guard of a callback cut short by a cancellation
       | _ => none)
    | .cbPanic _ => some { st with ph := .failed, sawFailure := true }
    | .cancel => some { st with ph := .failed, sawFailure := true }
    | .taskPanic => some { st with ph := .failed, sawFailure := true }
    | .taskDone =>
      (match st.ph with
       | .afterStopped => some { st with ph := .ended }
       | .failed => some st
       | _ => none)                  -- the loop returned without `stopped`
    | .stopReq _ true | .ctxStop true => some { st with graceful := true }
    | .quiescent _ =>
      -- an accepted stop request, no failure: the actor has ended gracefully by now
      if st.graceful && !st.sawFailure && st.ph != .ended then none else some st
    | _ => some st

end Hannibal
