import Hannibal.Monitor.Basic
/-
  C11, third clause of `monC11p` on its own: the caller of an abandoned invocation receives an error.

  `monC11c` keeps the part of `monC11p`'s state this clause reads (`ops`, `abandoned`, `cancelled`) and drops
  the timing part (`clock`, `cur`, the `work` / `time` bookkeeping and the two "prompt schedule" checks),
  which `monC11p` keeps checking on traces.  One deliberate difference, in the strict direction: `monC11p`
  records the message of `cbAbandon (handle m)` as abandoned only while it believes a handler invocation to
  be open and a timeout to be configured; `monC11c` records it whenever no `cancel` has been seen.  So the
  set of abandoned messages of `monC11c` includes the one of `monC11p` and every `ret` rejected by this
  clause of `monC11p` is rejected by `monC11c` (`Props/C11C.lean`, `c11c_covers_*`).
-/
namespace Hannibal

structure C11cSt where
  ops : List (Nat × Nat)             -- call op ↦ message
  abandoned : List Nat
  cancelled : Bool
  deriving Repr, DecidableEq

/-- the message of a call-like operation (`k.isCall` and `k.msg? = some m`) -/
def callMsg11c : OpKind → Option Nat
  | .call m | .callw m | .tryCall m => some m
  | _ => none

/-- the caller of an abandoned invocation receives an error -/
def bad11c (st : C11cSt) : Label → Bool
  | .ret o r =>
    (match lookup o st.ops with
     | some m => st.abandoned.contains m && !r.isErr
     | none => false)
  | _ => false

def next11c (st : C11cSt) : Label → C11cSt
  | .begin o _ k =>
    (match callMsg11c k with
     | some m => { st with ops := (o, m) :: st.ops }
     | none => st)
  | .cbAbandon (.handle m) =>
    if st.cancelled then st else { st with abandoned := m :: st.abandoned }
  | .cancel => { st with cancelled := true }
  | _ => st

def monC11c (_c : MonCtx) : Mon C11cSt where
  init := { ops := [], abandoned := [], cancelled := false }
  step st l := if bad11c st l then none else some (next11c st l)

end Hannibal
