import Hannibal.Monitor.Basic
/-
  C14 — stopped() / running() tell the truth without anyone awaiting.
-/
namespace Hannibal

structure C14St where
  terminated : Bool
  deriving Repr, DecidableEq

def monC14 (_c : MonCtx) : Mon C14St where
  init := { terminated := false }
  step st l :=
    match l with
    | .query _ b => if b == st.terminated then some st else none
    | l => if l.terminates then some { st with terminated := true } else some st

end Hannibal
