import Hannibal.Monitor.Basic
/-
  Strong-holder bookkeeping shared by C05 and C15: which handles exist, of
  which kind, and which in-flight operations hold a strong reference.
-/
namespace Hannibal

structure HoldSt where
  handles : List (Nat × HKind)
  pendStrong : List Nat        -- in-flight operations that own a strong handle (try_*, Caller::call, halt, consume)
  opKinds : List (Nat × OpKind)
  deriving Repr, DecidableEq

def HoldSt.init (h0 : Nat) (k0 : HKind) : HoldSt := { handles := [(h0, k0)], pendStrong := [], opKinds := [] }

def HoldSt.kindOf (s : HoldSt) (h : Nat) : Option HKind := lookup h s.handles

def HoldSt.strongHeld (s : HoldSt) : Bool :=
  s.handles.any (fun p => p.2.strong) || !s.pendStrong.isEmpty

def HoldSt.step (s : HoldSt) : Label → HoldSt
  | .mk _ h' k' => { s with handles := (h', k') :: s.handles }
  | .upgrade h (some h') =>
    (match (s.kindOf h).bind HKind.upgraded with
     | some k => { s with handles := (h', k) :: s.handles }
     | none => s)
  | .detach h h' => { s with handles := (h', .addr) :: s.handles.filter (fun p => p.1 != h) }
  | .drop h => { s with handles := s.handles.filter (fun p => p.1 != h) }
  | .ctxWeak k (some h) => { s with handles := (h, k) :: s.handles }
  | .begin o h k =>
    let s := { s with opKinds := (o, k) :: s.opKinds }
    (match k with
     | .trySend _ | .tryCall _ | .tryHalt | .callw _ => { s with pendStrong := o :: s.pendStrong }
     | .halt | .consume =>
       -- the handle moves into the operation
       { s with pendStrong := o :: s.pendStrong, handles := s.handles.filter (fun p => p.1 != h) }
     | _ => s)
  | .ret o _ | .cdrop o => { s with pendStrong := s.pendStrong.filter (fun x => x != o) }
  | _ => s

end Hannibal
