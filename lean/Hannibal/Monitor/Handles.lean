import Hannibal.Monitor.Basic
/-
  Strong-holder bookkeeping shared by C05 and C15: which handles exist and of
  which kind, computed from the handle events of the trace alone.
  (`halt` / `consume` move their handle into the operation: it is released when
  the operation returns or is dropped.)
-/
namespace Hannibal

structure HoldSt where
  handles : List (Nat × HKind)
  ops : List (Nat × (OpKind × Nat))     -- operation ↦ (kind, handle it was issued through)
  deriving Repr, DecidableEq

def HoldSt.init (h0 : Nat) (k0 : HKind) : HoldSt := { handles := [(h0, k0)], ops := [] }

def HoldSt.kindOf (s : HoldSt) (h : Nat) : Option HKind := (s.handles.find? (fun p => p.1 == h)).map (·.2)

/-- some strong handle (Addr, OwningAddr, Sender, Caller or clone) exists -/
def HoldSt.strongHeld (s : HoldSt) : Bool := s.handles.any (fun p => p.2.strong)

def HoldSt.remove (s : HoldSt) (h : Nat) : HoldSt := { s with handles := s.handles.filter (fun p => p.1 != h) }

def HoldSt.release (s : HoldSt) (o : Nat) : HoldSt :=
  match lookup o s.ops with
  | some (.halt, h) | some (.consume, h) => s.remove h
  | _ => s

def HoldSt.step (s : HoldSt) : Label → HoldSt
  | .mk _ h' k' => { s with handles := s.handles ++ [(h', k')] }
  | .upgrade h (some h') =>
    (match (s.kindOf h).bind HKind.upgraded with
     | some k => { s with handles := s.handles ++ [(h', k)] }
     | none => s)
  | .detach h h' => { s with handles := (s.remove h).handles ++ [(h', .addr)] }
  | .drop h => s.remove h
  | .ctxWeak k (some h) => { s with handles := s.handles ++ [(h, k)] }
  | .begin o h k => { s with ops := (o, (k, h)) :: s.ops }
  | .ret o _ | .cdrop o => s.release o
  | _ => s

end Hannibal
