import Hannibal.Model.Registry
/-
  C08 — the service registry is a linearizable map "service type ↦ at most one live instance".

  `Spec08` is the sequential specification in the words of the property: a registry is a function from
  service types to an optional instance, an instance is alive until its task has ended.
  `monC08` runs over a linearised history (the trace with the effect point of every operation marked):
  every operation takes effect exactly once between its begin and its return, the effects in order are a
  legal `Spec08` history, and every return value is the one `Spec08` computed at the effect point.
-/
namespace Hannibal

structure Spec08 where
  reg : Nat → Option Nat       -- service type ↦ registered instance
  dead : List Nat              -- instances that have terminated

namespace Spec08

def alive (s : Spec08) (i : Nat) : Bool := !s.dead.contains i

/-- the live registered instance, if any -/
def live (s : Spec08) (k : Nat) : Option Nat := (s.reg k).filter s.alive

def set (s : Spec08) (k : Nat) (v : Option Nat) : Spec08 :=
  { s with reg := fun k' => if k' = k then v else s.reg k' }

/-- effect and result of an operation that does not spawn (`none`: it has to spawn) -/
def apply (s : Spec08) : ROp → Option (Spec08 × RRes)
  | .fromRegistry k => (s.live k).map (fun i => (s, .inst i))
  | .setup k => (s.live k).map (fun _ => (s, .unit))
  | .register k i =>
    (match s.live k with
     | some _ => some (s, .stillRunning)                         -- a live instance is registered: refused
     | none => some (s.set k (some i), .registered (s.reg k)))   -- returns the dead entry it replaced, if any
  | .replace k i => some (s.set k (some i), .prev (s.reg k))
  | .unregister k => some (s.set k none, .prev (s.reg k))
  | .alreadyRunning k => some (s, .running ((s.reg k).map s.alive))
  | .tryFrom k => some (s, .prev (s.live k))

/-- `from_registry` / `setup` spawn exactly when no live instance is registered -/
def spawn (s : Spec08) (i : Nat) : ROp → Option (Spec08 × RRes)
  | .fromRegistry k => if (s.live k).isNone then some (s.set k (some i), .inst i) else none
  | .setup k => if (s.live k).isNone then some (s.set k (some i), .unit) else none
  | _ => none

end Spec08

/-- a monitor over registry labels -/
structure RMon (σ : Type) where
  init : σ
  step : σ → RLabel → Option σ

def RMon.run {σ : Type} (m : RMon σ) (st : σ) : List RLabel → Option σ
  | [] => some st
  | l :: ls => match m.step st l with
    | some st' => RMon.run m st' ls
    | none => none

def RMon.firstFail {σ : Type} (m : RMon σ) (st : σ) (k : Nat) : List RLabel → Option Nat
  | [] => none
  | l :: ls => match m.step st l with
    | some st' => RMon.firstFail m st' (k + 1) ls
    | none => some k

def RMon.ok {σ : Type} (m : RMon σ) (ls : List RLabel) : Bool := (m.run m.init ls).isSome

structure C08St where
  spec : Spec08
  pend : List (Nat × ROp)
  acted : List (Nat × RRes)

def C08St.findPend (s : C08St) (o : Nat) : Option ROp := (s.pend.find? (fun p => p.1 == o)).map (·.2)
def C08St.findActed (s : C08St) (o : Nat) : Option RRes := (s.acted.find? (fun p => p.1 == o)).map (·.2)

def C08St.done (s : C08St) (o : Nat) (sp : Spec08) (r : RRes) : C08St :=
  { s with spec := sp, pend := s.pend.filter (fun p => p.1 != o), acted := (o, r) :: s.acted }

def monC08 : RMon C08St where
  init := { spec := { reg := fun _ => none, dead := [] }, pend := [], acted := [] }
  step st l :=
    match l with
    | .rbegin o op =>
      if (st.findPend o).isSome || (st.findActed o).isSome then none
      else (match op with
        | .tryFrom _ => none
        | _ => some { st with pend := st.pend ++ [(o, op)] })
    | .ract o =>
      (match st.findPend o with
       | some op => (st.spec.apply op).map (fun (sp, r) => st.done o sp r)
       | none => none)
    | .rspawn o i =>
      (match st.findPend o with
       | some op => (st.spec.spawn i op).map (fun (sp, r) => st.done o sp r)
       | none => none)
    | .rret o r =>
      if st.findActed o = some r then some { st with acted := st.acted.filter (fun p => p.1 != o) } else none
    | .rsync (.tryFrom k) r =>
      -- never a terminated or unregistered instance (`None` is always allowed: the lock may be contended)
      if r = .prev none || r = .prev (st.spec.live k) then some st else none
    | .rsync _ _ => none
    | .term i => some { st with spec := { st.spec with dead := i :: st.spec.dead } }

end Hannibal
