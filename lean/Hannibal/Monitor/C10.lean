import Hannibal.Monitor.Basic
/-
  C10 — timers respect their period/delay, die with the actor and never prolong it.

  `monC10`  : every sleep of a timer task lasts a full period / delay and starts only after the previous
              one was over (so consecutive deliveries are at least one period apart); a timer's closure
              never runs before its delay has elapsed; `delayed_send` / `delayed_exec` fire at most once;
              after the actor terminated no timer fires or re-arms and no callback of it begins.
  `monC10q` : every delivered `interval` tick corresponds to a wake-up of its timer; after termination
              all timer tasks have ended by quiescence (none is leaked).
-/
namespace Hannibal

structure T10 where
  id : Nat
  kind : TimerKind
  d : Nat
  lastDue : Option Nat      -- deadline of the current / last sleep
  fires : Nat
  deriving Repr, DecidableEq

structure C10St where
  clock : Nat
  timers : List T10
  terminated : Bool
  deriving Repr, DecidableEq

def C10St.find (s : C10St) (t : Nat) : Option T10 := s.timers.find? (fun x => x.id == t)

def C10St.upd (s : C10St) (t : Nat) (f : T10 → T10) : C10St :=
  { s with timers := s.timers.map (fun x => if x.id == t then f x else x) }

def delayedKind : TimerKind → Bool
  | .delayedSend | .delayedExec => true
  | _ => false

def bad10 (st : C10St) : Label → Bool
  | .timerArm t due =>
    (match st.find t with
     | none => true
     | some x =>
       st.terminated || decide (due < st.clock + x.d)                   -- a full period / delay from now
         || (match x.lastDue with | some p => decide (st.clock < p) | none => false))   -- previous sleep over
  | .fire t _ =>
    (match st.find t with
     | none => true
     | some x =>
       st.terminated
         || (match x.lastDue with | some p => decide (st.clock < p) | none => true)     -- not before its delay
         || (delayedKind x.kind && decide (x.fires ≥ 1)))                               -- delayed kinds: once
  | .tickBegin _ _ | .cbBegin _ => st.terminated
  | _ => false

def next10 (st : C10St) : Label → C10St
  | .time t => { st with clock := t }
  | .ctxTimer t k d => { st with timers := st.timers ++ [{ id := t, kind := k, d, lastDue := none, fires := 0 }] }
  | .timerArm t due => st.upd t (fun x => { x with lastDue := some due })
  | .fire t _ => st.upd t (fun x => { x with fires := x.fires + 1 })
  | l => if l.terminates then { st with terminated := true } else st

def monC10 (_c : MonCtx) : Mon C10St where
  init := { clock := 0, timers := [], terminated := false }
  step st l := if bad10 st l then none else some (next10 st l)

structure C10qSt where
  arms : List (Nat × Nat)       -- timer ↦ number of times its task went to sleep
  ticks : List (Nat × Nat)      -- timer ↦ ticks delivered
  live : List Nat               -- timers registered and not seen to end
  terminated : Bool
  deriving Repr, DecidableEq

def bump (l : List (Nat × Nat)) (t : Nat) : List (Nat × Nat) :=
  if l.any (fun p => p.1 == t) then l.map (fun p => if p.1 == t then (p.1, p.2 + 1) else p) else (t, 1) :: l

def monC10q (_c : MonCtx) : Mon C10qSt where
  init := { arms := [], ticks := [], live := [], terminated := false }
  step st l :=
    match l with
    | .ctxTimer t _ _ => some { st with live := t :: st.live }
    | .timerArm t _ => some { st with arms := bump st.arms t }
    | .timerEnd t => some { st with live := st.live.filter (fun x => x != t) }
    | .tickBegin t _ =>
      -- each delivered tick was sent at a wake-up that re-armed the timer
      if (lookup t st.ticks).getD 0 + 2 > (lookup t st.arms).getD 0 then none
      else some { st with ticks := bump st.ticks t }
    | .quiescent _ => if st.terminated && !st.live.isEmpty then none else some st
    | l => if l.terminates then some { st with terminated := true } else some st

end Hannibal
