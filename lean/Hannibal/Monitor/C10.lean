import Hannibal.Monitor.Basic
/-
  C10 — timers respect their period/delay, die with the actor, are not leaked.
-/
namespace Hannibal

structure T10 where
  kind : TimerKind
  d : Nat
  lastDue : Option Nat      -- deadline of the current sleep
  arms : Nat
  fires : Nat
  ticks : Nat
  ended : Bool
  deriving Repr, DecidableEq

structure C10St where
  clock : Nat
  timers : List (Nat × T10)
  terminated : Bool
  deriving Repr, DecidableEq

def C10St.upd (s : C10St) (t : Nat) (f : T10 → T10) : C10St :=
  { s with timers := s.timers.map (fun p => if p.1 == t then (p.1, f p.2) else p) }

def monC10 (_c : MonCtx) : Mon C10St where
  init := { clock := 0, timers := [], terminated := false }
  step st l :=
    match l with
    | .time t => some { st with clock := t }
    | .ctxTimer t k d =>
      some { st with timers := (t, { kind := k, d, lastDue := none, arms := 0, fires := 0, ticks := 0, ended := false }) :: st.timers }
    | .timerArm t due =>
      (match lookup t st.timers with
       | none => none
       | some x =>
         -- a full period/delay from now, and not before the previous sleep was over
         if st.terminated then none
         else if due < st.clock + x.d then none
         else if (match x.lastDue with | some p => decide (st.clock < p) | none => false) then none
         else some (st.upd t (fun x => { x with lastDue := some due, arms := x.arms + 1 })))
    | .fire t _ =>
      (match lookup t st.timers with
       | none => none
       | some x =>
         if st.terminated then none
         else if (match x.lastDue with | some p => decide (st.clock < p) | none => true) then none   -- not before its delay
         else if x.kind != .intervalWith && x.fires ≥ 1 then none                           -- delayed kinds: once
         else some (st.upd t (fun x => { x with fires := x.fires + 1 })))
    | .tickBegin t _ =>
      (match lookup t st.timers with
       | none => none
       | some x =>
         -- each delivered tick was sent at a wake-up that re-armed the timer
         if x.ticks + 1 + 1 > x.arms then none
         else some (st.upd t (fun x => { x with ticks := x.ticks + 1 })))
    | .timerEnd t => some (st.upd t (fun x => { x with ended := true }))
    | .cbBegin _ => if st.terminated then none else some st
    | .quiescent _ =>
      -- after termination all timer tasks have ended: none is leaked
      if st.terminated && !st.timers.all (fun p => p.2.ended) then none else some st
    | l => if l.terminates then some { st with terminated := true } else some st

end Hannibal
