import Hannibal.Monitor.Handles
/-
  C13 — stream-attached actors handle every item in order and end with the stream.

  `monC13`  : every handled item is exactly the next one the stream yielded (in order, no repeats, no
              skips), no item or message being handled is ever abandoned, `finished` and then `stopped`
              are called at most once each and in that order.
  `monC13q` : by the time nothing can move any more: if the stream ended, a stop was accepted or the
              last strong handle is gone, the actor has ended gracefully; otherwise every item yielded
              so far was handled.
-/
namespace Hannibal

structure C13St where
  ready : List Nat          -- items made available and not yet handled (in order)
  cancelled : Bool
  finishedSeen : Nat
  stoppedSeen : Nat
  deriving Repr, DecidableEq

/-- what must not happen -/
def bad13 (st : C13St) : Label → Bool
  | .cbBegin (.item k) => st.ready.head? != some k      -- not exactly the next item the stream yielded
  | .cbBegin .finished => st.finishedSeen ≥ 1
  | .cbBegin .stopped => st.stoppedSeen ≥ 1 || st.finishedSeen == 0
  | .cbAbandon _ => !st.cancelled                       -- an item or message being handled is never abandoned
  | _ => false

def next13 (st : C13St) : Label → C13St
  | .streamReady k => { st with ready := st.ready ++ [k] }
  | .cbBegin (.item _) => { st with ready := st.ready.tail }
  | .cbBegin .finished => { st with finishedSeen := 1 }
  | .cbBegin .stopped => { st with stoppedSeen := 1 }
  | .cancel => { st with cancelled := true }
  | _ => st

def monC13 (c : MonCtx) : Mon C13St where
  init := { ready := [], cancelled := false, finishedSeen := 0, stoppedSeen := 0 }
  step st l := if !c.cfg.stream then some st else if bad13 st l then none else some (next13 st l)

structure C13qSt where
  ready : List Nat
  ended : Bool
  stopIssued : Bool
  failure : Bool
  terminated : Bool
  graceful : Bool
  hold : HoldSt
  deriving Repr, DecidableEq

def monC13q (c : MonCtx) : Mon C13qSt where
  init := { ready := [], ended := false, stopIssued := false, failure := false, terminated := false,
            graceful := false, hold := HoldSt.init c.h0 c.k0 }
  step st l :=
    if !c.cfg.stream then some st else
    let st := { st with hold := st.hold.step l }
    match l with
    | .streamReady k => some { st with ready := st.ready ++ [k] }
    | .streamEnd => some { st with ended := true }
    | .cbBegin (.item _) => some { st with ready := st.ready.tail, graceful := false }
    | .cbBegin _ => some { st with graceful := false }
    | .cbEnd .stopped true => some { st with graceful := true }
    | .stopReq _ true | .ctxStop true => some { st with stopIssued := true }
    | .begin _ _ .halt | .begin _ _ .tryHalt | .begin _ _ .consume => some { st with stopIssued := true }
    | .cancel => some { st with failure := true, terminated := true }
    | .quiescent _ =>
      if st.failure then some st
      else if st.ended || st.stopIssued || !st.hold.strongHeld then
        (if st.terminated && st.graceful then some st else none)   -- ends with the stream / on stop / last drop
      else if !st.terminated && !st.ready.isEmpty then none         -- every item yielded so far was handled
      else some st
    | l =>
      let st := if l.isFailure then { st with failure := true } else st
      if l.terminates then some { st with terminated := true } else some st

/-! ### fairness of the loop's tie-break (trace-only, statistical)

  "Messages sent to its address are handled too, interleaved with items" and "an explicit stop terminates it
  even if the stream never ends": while both the stream and the mailbox are ready the loop picks between them
  at random (`futures::select!`), so the number of further items taken up while an accepted stop request or an
  acknowledged message waits is geometrically distributed; more than `fairBound` of them has probability
  2^-40 per occasion with a fair coin and is certain for a loop that always prefers the stream.  The model has
  no fairness notion, so this clause is checked on real traces only. -/

def fairBound : Nat := 40

structure C13fSt where
  stopAccepted : Bool
  afterStop : Nat               -- items taken up since the first accepted stop request
  sends : List (Nat × Nat)      -- operation ↦ message
  waiting : List (Nat × Nat)    -- acknowledged, not yet handled message ↦ items taken up since
  handled : List Nat
  deriving Repr, DecidableEq

def monC13f (c : MonCtx) : Mon C13fSt where
  init := { stopAccepted := false, afterStop := 0, sends := [], waiting := [], handled := [] }
  step st l :=
    if !c.cfg.stream then some st else
    match l with
    | .stopReq _ true | .ctxStop true => some { st with stopAccepted := true }
    | .begin o _ (.send m) | .begin o _ (.trySend m) | .begin o _ (.tryForce m) =>
      some { st with sends := (o, m) :: st.sends }
    | .ret o .ok =>
      (match lookup o st.sends with
       | some m => if st.handled.contains m then some st else some { st with waiting := (m, 0) :: st.waiting }
       | none => some st)
    | .cbBegin (.handle m) =>
      some { st with waiting := st.waiting.filter (fun p => p.1 != m), handled := m :: st.handled }
    | .cbBegin (.item _) =>
      let st' := { st with afterStop := (if st.stopAccepted then st.afterStop + 1 else 0),
                           waiting := st.waiting.map (fun p => (p.1, p.2 + 1)) }
      if st'.afterStop > fairBound || st'.waiting.any (fun p => p.2 > fairBound) then none else some st'
    | _ => some st

end Hannibal
