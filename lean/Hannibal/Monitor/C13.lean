import Hannibal.Monitor.Handles
/-
  C13 — stream-attached actors handle every item in order and end with the stream.
-/
namespace Hannibal

structure C13St where
  ready : List Nat          -- items made available and not yet handled (in order)
  ended : Bool
  stopIssued : Bool
  cancelled : Bool
  failure : Bool
  terminated : Bool
  graceful : Bool
  finishedSeen : Nat
  stoppedSeen : Nat
  hold : HoldSt
  deriving Repr, DecidableEq

def monC13 (c : MonCtx) : Mon C13St where
  init := { ready := [], ended := false, stopIssued := false, cancelled := false, failure := false,
            terminated := false, graceful := false, finishedSeen := 0, stoppedSeen := 0,
            hold := HoldSt.init c.h0 c.k0 }
  step st l :=
    if !c.cfg.stream then some st else
    let st := { st with hold := st.hold.step l }
    match l with
    | .streamReady k => some { st with ready := st.ready ++ [k] }
    | .streamEnd => some { st with ended := true }
    | .cbBegin (.item k) =>
      -- exactly the next item the stream yielded
      (match st.ready with
       | k' :: rest => if k == k' then some { st with ready := rest, graceful := false } else none
       | [] => none)
    | .cbBegin .finished => if st.finishedSeen ≥ 1 then none else some { st with finishedSeen := 1, graceful := false }
    | .cbBegin .stopped =>
      if st.stoppedSeen ≥ 1 || st.finishedSeen == 0 then none else some { st with stoppedSeen := 1, graceful := false }
    | .cbBegin _ => some { st with graceful := false }
    | .cbEnd .stopped true => some { st with graceful := true }
    | .cbAbandon _ => if st.cancelled then some st else none      -- never abandoned
    | .stopReq _ true | .ctxStop true => some { st with stopIssued := true }
    | .begin _ _ .halt | .begin _ _ .tryHalt | .begin _ _ .consume => some { st with stopIssued := true }
    | .cancel => some { st with cancelled := true, failure := true, terminated := true }
    | .quiescent _ =>
      if st.failure then some st
      else if st.ended || st.stopIssued || !st.hold.strongHeld then
        (if st.terminated && st.graceful then some st else none)   -- ends with the stream / on stop
      else if !st.terminated && !st.ready.isEmpty then none         -- every item yielded so far was handled
      else some st
    | l =>
      let st := if l.isFailure then { st with failure := true } else st
      if l.terminates then some { st with terminated := true } else some st

end Hannibal
