import Hannibal.Monitor.Handles
/-
  C05 — strong handles keep an actor alive, weak never do; last drop drains, then stops.

  `monC05`  (proved for every run of the model, Props/C05.lean):
     (1) the final `stopped` (and `finished`) of an actor begins only if somebody asked it to stop, it failed,
         its stream ended, or no strong handle exists any more;
     (3) upgrading a weak handle succeeds only while a strong holder exists (a handle, an in-flight
         try_* / Caller::call operation, or a timer task in the middle of its send);
     (4) timers never keep the actor alive: with no strong holder left a timer cannot go round again.
  `monC05q` (proved for every run of the model whose `begin` labels carry fresh operation ids, Props/C05Q.lean):
     (2) no strong holder left, no stop, no failure ⇒ by quiescence the actor has handled everything whose
         submission was acknowledged and has terminated gracefully.
         `monC05qOrig` is the clause as first written, `monC05q` the same automaton as guard `bad05q` + update
         `next05q` (equal step functions: `monC05q_orig_step`).
-/
namespace Hannibal

structure C05St where
  hold : HoldSt
  inflight : List Nat          -- in-flight try_send / try_force_send / try_call / try_halt / Caller::call (they own a strong handle)
  stopIssued : Bool
  restartsPending : Nat
  failure : Bool
  streamEnded : Bool
  armed : List Nat             -- timers that have been armed at least once
  sending : List Nat           -- timers whose closure ran and whose send may still be in flight (they own a strong sender)
  deriving Repr, DecidableEq

/-- operations that own a strong handle of their own while in flight -/
def holderKind : OpKind → Bool
  | .trySend _ | .tryForce _ | .tryCall _ | .tryHalt | .callw _ => true
  | _ => false

def issuesStop : Label → Bool
  | .stopReq _ _ | .ctxStop _ => true
  | .begin _ _ .halt | .begin _ _ .tryHalt | .begin _ _ .consume => true
  | _ => false

def bad05 (c : MonCtx) (st : C05St) : Label → Bool
  -- (3) upgrading succeeds only while a strong holder exists
  | .upgrade _ (some _) => !st.hold.strongHeld && st.inflight.isEmpty && st.sending.isEmpty
  -- (4) with no strong holder left an `interval` cannot upgrade its weak sender any more
  | .timerArm t _ =>
    st.armed.contains t && !st.hold.strongHeld && st.inflight.isEmpty
      && (st.sending.filter (fun x => x != t)).isEmpty && !st.sending.contains t
  -- (1) nobody stopped it, it has not failed, a strong holder exists: it keeps running
  | .cbBegin .stopped =>
    st.restartsPending == 0 && st.hold.strongHeld && !st.stopIssued && !st.failure
      && !(c.cfg.stream && st.streamEnded)
  | .cbBegin .finished => st.hold.strongHeld && !st.stopIssued && !st.failure && !st.streamEnded
  | _ => false

def next05 (c : MonCtx) (st : C05St) (l : Label) : C05St :=
  { hold := st.hold.step l
    inflight := (match l with
      | .begin o _ k => if holderKind k then o :: st.inflight else st.inflight
      | .ret o _ | .cdrop o => st.inflight.filter (fun x => x != o)
      | _ => st.inflight)
    stopIssued := st.stopIssued || issuesStop l
    restartsPending := (match l with
      | .restartReq _ true | .ctxRestart true => st.restartsPending + 1
      | .cbBegin .stopped => st.restartsPending - 1
      | _ => st.restartsPending)
    failure := st.failure || l.isFailure || (match l with | .cbAbandon _ => c.cfg.failOnTimeout | _ => false)
    streamEnded := st.streamEnded || (match l with | .streamEnd => true | _ => false)
    armed := (match l with | .timerArm t _ => t :: st.armed | _ => st.armed)
    sending := (match l with
      | .timerArm t _ | .timerEnd t => st.sending.filter (fun x => x != t)
      | .fire t (some _) => t :: st.sending
      | _ => st.sending) }

def monC05 (c : MonCtx) : Mon C05St where
  init := { hold := HoldSt.init c.h0 c.k0, inflight := [], stopIssued := false, restartsPending := 0, failure := false,
            streamEnded := false, armed := [], sending := [] }
  step st l := if bad05 c st l then none else some (next05 c st l)

structure C05qSt where
  hold : HoldSt
  stopIssued : Bool
  failure : Bool
  streamEnded : Bool
  terminated : Bool
  graceful : Bool
  sends : List (Nat × Nat)
  sentOk : List Nat
  handled : List Nat
  deriving Repr, DecidableEq

/-- `monC05q` as first written (one automaton).  `monC05q` below is the same automaton in guard / update form:
    the two step functions are equal (`monC05q_orig_step`, `Props/C05Q.lean`). -/
def monC05qOrig (c : MonCtx) : Mon C05qSt where
  init := { hold := HoldSt.init c.h0 c.k0, stopIssued := false, failure := false, streamEnded := false,
            terminated := false, graceful := false, sends := [], sentOk := [], handled := [] }
  step st l :=
    let st := { st with hold := st.hold.step l, stopIssued := st.stopIssued || issuesStop l,
                        failure := st.failure || l.isFailure
                          || (match l with | .cbAbandon _ => c.cfg.failOnTimeout | _ => false),
                        terminated := st.terminated || l.terminates }
    match l with
    | .begin o _ (.send m) | .begin o _ (.trySend m) | .begin o _ (.tryForce m) =>
      some { st with sends := (o, m) :: st.sends }
    | .ret o .ok =>
      (match lookup o st.sends with
       | some m => some { st with sentOk := m :: st.sentOk }
       | none => some st)
    | .streamEnd => some { st with streamEnded := true }
    | .cbBegin (.handle m) => some { st with graceful := false, handled := m :: st.handled }
    | .cbBegin _ => some { st with graceful := false }
    | .cbEnd .stopped true => some { st with graceful := true }
    | .quiescent _ =>
      -- (2) no strong holder left, no stop, no failure: drained, then stopped gracefully
      -- (a stream-attached actor whose stream ended terminates for that reason: C13 judges it)
      if !st.hold.strongHeld && !st.failure && !st.stopIssued && !(c.cfg.stream && st.streamEnded) then
        if st.terminated && st.graceful && st.sentOk.all (fun m => st.handled.contains m) then some st else none
      else some st
    | _ => some st

/-- state update of `monC05q` -/
def next05q (c : MonCtx) (st : C05qSt) (l : Label) : C05qSt :=
  { hold := st.hold.step l
    stopIssued := st.stopIssued || issuesStop l
    failure := st.failure || l.isFailure || (match l with | .cbAbandon _ => c.cfg.failOnTimeout | _ => false)
    streamEnded := st.streamEnded || (match l with | .streamEnd => true | _ => false)
    terminated := st.terminated || l.terminates
    graceful := (match l with
      | .cbBegin _ => false
      | .cbEnd .stopped true => true
      | _ => st.graceful)
    sends := (match l with
      | .begin o _ (.send m) | .begin o _ (.trySend m) | .begin o _ (.tryForce m) => (o, m) :: st.sends
      | _ => st.sends)
    sentOk := (match l with
      | .ret o .ok => (match lookup o st.sends with | some m => m :: st.sentOk | none => st.sentOk)
      | _ => st.sentOk)
    handled := (match l with
      | .cbBegin (.handle m) => m :: st.handled
      | _ => st.handled) }

/-- (2) no strong holder left, no stop, no failure: drained, then stopped gracefully
    (a stream-attached actor whose stream ended terminates for that reason: C13 judges it) -/
def bad05q (c : MonCtx) (st : C05qSt) : Label → Bool
  | .quiescent _ =>
    !st.hold.strongHeld && !st.failure && !st.stopIssued && !(c.cfg.stream && st.streamEnded)
      && !(st.terminated && st.graceful && st.sentOk.all (fun m => st.handled.contains m))
  | _ => false

/-- proved for every run of the model whose `begin` labels carry fresh operation ids (`Props/C05Q.lean`) -/
def monC05q (c : MonCtx) : Mon C05qSt where
  init := { hold := HoldSt.init c.h0 c.k0, stopIssued := false, failure := false, streamEnded := false,
            terminated := false, graceful := false, sends := [], sentOk := [], handled := [] }
  step st l := if bad05q c st l then none else some (next05q c st l)

end Hannibal
