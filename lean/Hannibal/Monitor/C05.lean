import Hannibal.Monitor.Handles
/-
  C05 — strong handles keep an actor alive, weak never do; last drop drains, then stops.
-/
namespace Hannibal

structure C05St where
  hold : HoldSt
  inflight : List Nat          -- in-flight try_send / try_call / try_halt / Caller::call (they own a strong handle)
  stopIssued : Bool
  restartsPending : Nat
  failure : Bool
  streamEnded : Bool
  terminated : Bool
  graceful : Bool
  sends : List (Nat × Nat)
  sentOk : List Nat
  handled : List Nat
  everEmpty : Bool             -- the strong-holder set was observed empty
  armed : List Nat             -- timers that have been armed at least once
  sending : List Nat           -- timers whose closure ran and whose send may still be in flight (they own a strong sender)
  deriving Repr, DecidableEq

def monC05 (c : MonCtx) : Mon C05St where
  init := { hold := HoldSt.init c.h0 c.k0, inflight := [], stopIssued := false, restartsPending := 0, failure := false,
            streamEnded := false, terminated := false, graceful := false, sends := [], sentOk := [],
            handled := [], everEmpty := false, armed := [], sending := [] }
  step st l :=
    -- (3) upgrading succeeds only while a strong holder exists
    let bad3 := (match l with
      | .upgrade _ (some _) => !st.hold.strongHeld && st.inflight.isEmpty && st.sending.isEmpty
      | _ => false)
    -- timers never keep the actor alive: with no strong holder left an `interval` cannot upgrade its
    -- weak sender any more, so it cannot go round again
    let bad4 := (match l with
      | .timerArm t _ =>
        st.armed.contains t && !st.hold.strongHeld && st.inflight.isEmpty
          && (st.sending.filter (fun x => x != t)).isEmpty && !st.sending.contains t
      | _ => false)
    let st := (match l with
      | .timerArm t _ => { st with armed := t :: st.armed, sending := st.sending.filter (fun x => x != t) }
      | .timerEnd t => { st with sending := st.sending.filter (fun x => x != t) }
      | .fire t (some _) => { st with sending := t :: st.sending }
      | _ => st)
    if bad3 || bad4 then none else
    let hold' := st.hold.step l
    let inflight' := (match l with
      | .begin o _ (.trySend _) | .begin o _ (.tryCall _) | .begin o _ .tryHalt | .begin o _ (.callw _) =>
        o :: st.inflight
      | .ret o _ | .cdrop o => st.inflight.filter (fun x => x != o)
      | _ => st.inflight)
    let st := { st with hold := hold', inflight := inflight', everEmpty := st.everEmpty || !hold'.strongHeld }
    match l with
    | .stopReq _ _ | .ctxStop _ => some { st with stopIssued := true }
    | .restartReq _ true | .ctxRestart true => some { st with restartsPending := st.restartsPending + 1 }
    | .begin o _ k =>
      let st := (match k with
        | .halt | .tryHalt | .consume => { st with stopIssued := true }
        | _ => st)
      (match k with
       | .send m | .trySend m => some { st with sends := (o, m) :: st.sends }
       | _ => some st)
    | .ret o .ok =>
      (match lookup o st.sends with
       | some m => some { st with sentOk := m :: st.sentOk }
       | none => some st)
    | .streamEnd => some { st with streamEnded := true }
    | .cbBegin cb =>
      let st := { st with graceful := false }
      (match cb with
       | .handle m => some { st with handled := m :: st.handled }
       | .stopped =>
         if st.restartsPending > 0 then some { st with restartsPending := st.restartsPending - 1 }
         -- (1) nobody stopped it, it has not failed, a strong holder exists: it keeps running
         else if st.hold.strongHeld && !st.stopIssued && !st.failure && !(c.cfg.stream && st.streamEnded)
         then none else some st
       | .finished =>
         if st.hold.strongHeld && !st.stopIssued && !st.failure && !st.streamEnded then none else some st
       | _ => some st)
    | .cbEnd .stopped true => some { st with graceful := true }
    | .quiescent _ =>
      -- (2) no strong holder left, no stop, no failure: drained, then stopped gracefully
      -- (a stream-attached actor whose stream ended terminates for that reason: C13 judges it)
      if !st.hold.strongHeld && !st.failure && !st.stopIssued && !(c.cfg.stream && st.streamEnded) then
        if st.terminated && st.graceful && st.sentOk.all (fun m => st.handled.contains m) then some st else none
      else some st
    | l =>
      let st := if l.isFailure || (match l with | .cbAbandon _ => c.cfg.failOnTimeout | _ => false)
                then { st with failure := true } else st
      if l.terminates then some { st with terminated := true } else some st

end Hannibal
