import Hannibal.Monitor.Basic
import Hannibal.Monitor.C11
/-
  C11, timing clauses of `monC11p` (prompt schedules): an invocation whose announced work exceeds the
  timeout t does not complete, and an abandoned invocation (not one cut short by a cancellation) had
  announced work ≥ t and is abandoned exactly at begin + t.

  `monC11t` is `monC11p` without the `ops` / `abandoned` / `ret` clause ("the caller of an abandoned
  invocation receives an error"); on the remaining labels it takes exactly the same decisions.
-/
namespace Hannibal

structure C11tSt where
  clock : Nat
  cur : Option (Nat × Nat × Nat)     -- (message, begin time, announced work)
  cancelled : Bool
  deriving Repr, DecidableEq

def bad11t (c : MonCtx) (st : C11tSt) : Label → Bool
  | .cbEnd (.handle _) _ =>
    (match st.cur, tmoOf c.cfg with
     | some (_, _, w), some t => c.prompt && decide (w > t)
     | _, _ => false)
  | .cbAbandon (.handle _) =>
    !st.cancelled &&
      (match st.cur, tmoOf c.cfg with
       | some (_, b, w), some t => c.prompt && (decide (w < t) || st.clock != b + t)
       | _, _ => false)
  | _ => false

def next11t (c : MonCtx) (st : C11tSt) : Label → C11tSt
  | .time t => { st with clock := t }
  | .cbBegin (.handle m) => { st with cur := some (m, st.clock, 0) }
  | .work d =>
    (match st.cur with
     | some (m, b, w) => { st with cur := some (m, b, w + d) }
     | none => st)
  | .cbEnd (.handle _) _ => { st with cur := none }
  | .cbAbandon (.handle _) =>
    if st.cancelled then { st with cur := none } else
    (match st.cur, tmoOf c.cfg with
     | some _, some _ => { st with cur := none }
     | _, _ => st)
  | .cancel => { st with cancelled := true }
  | _ => st

def monC11t (c : MonCtx) : Mon C11tSt where
  init := { clock := 0, cur := none, cancelled := false }
  step st l := if bad11t c st l then none else some (next11t c st l)

end Hannibal
