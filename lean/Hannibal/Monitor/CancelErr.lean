import Hannibal.Monitor.Basic
/-
  A call or ping is never cancelled without a reason (converse of C02's "pending operations complete with an error
  when the actor goes down", and of C11's "the caller of an abandoned invocation gets an error"): it returns
  `Canceled` only if the actor's task has ended, or - for a call - if the handler invocation for its own message
  was abandoned by the handler timeout or panicked.
-/
namespace Hannibal

structure CancelSt where
  ops : List (Nat × OpKind)
  term : Bool
  broken : List Nat          -- messages whose handler invocation was abandoned or panicked
  deriving Repr, DecidableEq

def badCancelErr (st : CancelSt) : Label → Bool
  | .ret o (.err .canceled) =>
    (match lookup o st.ops with
     | none => false
     | some k =>
       (k.isCall || k == .ping) && !st.term &&
         !(match k.msg? with
           | some m => k.isCall && st.broken.contains m
           | none => false))
  | _ => false

def nextCancelErr (st : CancelSt) : Label → CancelSt
  | .begin o _ k => { st with ops := (o, k) :: st.ops }
  | .cbAbandon (.handle m) => { st with broken := m :: st.broken }
  | .cbPanic (.handle m) => { st with broken := m :: st.broken }
  | l => if l.terminates then { st with term := true } else st

def monCancelErr : Mon CancelSt where
  init := { ops := [], term := false, broken := [] }
  step st l := if badCancelErr st l then none else some (nextCancelErr st l)

end Hannibal
