import Hannibal.Monitor.C12
/-
  C12, "every send still returns once the actor catches up or terminates".

  `monC12q`: at a quiescent point (nothing is runnable, no timer pending; for the model: the loop is parked on an
  empty mailbox or the actor is done) no send operation is still outstanding.  Operation ids are fresh
  (`opIdsFresh`, checked on every real trace by `monC02wf`).
-/
namespace Hannibal

structure C12qSt where
  sends : List Nat           -- operation ids of the send-like operations begun
  deriving Repr, DecidableEq

def bad12q (st : C12qSt) : Label → Bool
  | .quiescent pend => pend.any (fun o => st.sends.contains o)
  | _ => false

def next12q (st : C12qSt) : Label → C12qSt
  | .begin o _ k => if (isSendKind k).isSome then { sends := o :: st.sends } else st
  | _ => st

def monC12q : Mon C12qSt where
  init := { sends := [] }
  step st l := if bad12q st l then none else some (next12q st l)

end Hannibal
