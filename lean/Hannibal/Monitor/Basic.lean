import Hannibal.Model.Actor
/-
  A monitor is a deterministic automaton over the observable labels of one
  actor's trace; `none` means "the property is violated here".  Monitors never
  look at model state: they are the formal statements of the properties and
  they are what runs on traces of the real implementation.
-/
namespace Hannibal

structure Mon (σ : Type) where
  init : σ
  step : σ → Label → Option σ

namespace Mon
variable {σ : Type}

def run (m : Mon σ) (st : σ) : List Label → Option σ
  | [] => some st
  | l :: ls => match m.step st l with
    | some st' => run m st' ls
    | none => none

/-- index of the first label at which the monitor fails, if any -/
def firstFail (m : Mon σ) (st : σ) (k : Nat) : List Label → Option Nat
  | [] => none
  | l :: ls => match m.step st l with
    | some st' => firstFail m st' (k + 1) ls
    | none => some k

def ok (m : Mon σ) (ls : List Label) : Bool := (m.run m.init ls).isSome

end Mon

/-- What a monitor knows about the actor it watches (from the `spawn` line of the trace). -/
structure MonCtx where
  cfg : Cfg
  h0 : Nat
  k0 : HKind
  prompt : Bool       -- the schedule only advances time when nothing is runnable
  deriving Repr, Inhabited

def OpKind.msg? : OpKind → Option Nat
  | .send m | .trySend m | .tryForce m | .call m | .callw m | .tryCall m => some m
  | _ => none

def OpKind.isCall : OpKind → Bool
  | .call _ | .callw _ | .tryCall _ => true
  | _ => false

def OpKind.isSend : OpKind → Bool
  | .send _ | .trySend _ | .tryForce _ => true
  | _ => false

def Res.isErr : Res → Bool
  | .err _ => true
  | _ => false

def lookup {α : Type} (k : Nat) : List (Nat × α) → Option α
  | [] => none
  | (k', v) :: rest => if k' == k then some v else lookup k rest

/-- Events that mean "the actor's task failed" (as opposed to returning after `stopped`). -/
def Label.isFailure : Label → Bool
  | .cbPanic _ | .cancel | .taskPanic | .cbEnd .started false => true
  | _ => false

/-- The executor-level events after which an actor is "terminated". -/
def Label.terminates : Label → Bool
  | .taskDone | .taskPanic | .cancel => true
  | _ => false

end Hannibal
