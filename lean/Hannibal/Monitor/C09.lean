import Hannibal.Model.Broker
/-
  C09 — the broker delivers each publication at most once per subscriber, only to subscribers, in one
  common order that extends every publisher's own order.

  The monitors see the client-side events only (`bbegin` / `bret` of subscribe, unsubscribe, publish,
  `deliver`, `term`); the internal moves `benq` / `bproc` of a witness are skipped.  Every event gets a
  timestamp; operation `x` is *definitely before* `y` when `x` returned before `y` began.

  `monC09`  (safety; proved for the broker model in Props/C09.lean):
     (1) a publication is taken up at most once by a subscriber;
     (2) only by an actor that may be subscribed: some subscribe of it began before the publish returned and is
         not followed by an unsubscribe that lies definitely after it and definitely before the publish;
     (3) if publish m1 is definitely before publish m2 no subscriber takes m2 up before m1;
     (4) any two subscribers take the publications they both take up in the same relative order.
  `monC09q` (trace-only, at quiescence): a publication whose publish returned is taken up by every subscriber that
         is definitely subscribed (a subscribe definitely before the publish, every unsubscribe of it definitely
         before that subscribe), has not terminated and for which no unsubscribe began afterwards.
-/
namespace Hannibal

structure Op9 where
  o : Nat
  it : BItem
  tb : Nat
  tr : Option Nat
  deriving DecidableEq, Repr, Inhabited

structure C09St where
  now : Nat
  ops : List Op9
  seq : List (Nat × Nat)       -- (subscriber, publication) taken up, oldest first
  dead : List Nat
  deriving DecidableEq, Repr, Inhabited

def defBefore (x y : Op9) : Bool :=
  match x.tr with
  | some r => decide (r < y.tb)
  | none => false

/-- `x` began before `y` returned (or `y` is still open) -/
def beganBeforeEnd (x y : Op9) : Bool :=
  match y.tr with
  | some r => decide (x.tb < r)
  | none => true

def C09St.pubOf (st : C09St) (m : Nat) : Option Op9 := st.ops.find? (fun p => p.it == .pub m)

/-- may subscriber `c` be in the table when publication `m` is handled? -/
def C09St.allowed (st : C09St) (c m : Nat) : Bool :=
  match st.pubOf m with
  | none => false
  | some P =>
    st.ops.any (fun S => S.it == .sub c && beganBeforeEnd S P &&
      !st.ops.any (fun U => U.it == .unsub c && defBefore S U && defBefore U P))

def C09St.pubBefore (st : C09St) (m1 m2 : Nat) : Bool :=
  match st.pubOf m1, st.pubOf m2 with
  | some P1, some P2 => defBefore P1 P2
  | _, _ => false

def idxOf (l : List (Nat × Nat)) (x : Nat × Nat) : Option Nat :=
  let i := l.findIdx (fun y => y == x)
  if i < l.length then some i else none

/-- some other subscriber took both `m` and `m'` up, `m` first -/
def C09St.otherOrder (st : C09St) (c m m' : Nat) : Bool :=
  st.seq.any (fun p => p.1 != c && p.2 == m &&
    (match idxOf st.seq (p.1, m), idxOf st.seq (p.1, m') with
     | some i, some j => decide (i < j)
     | _, _ => false))

def bad09 (st : C09St) : BLabel → Bool
  | .deliver c m =>
    st.seq.contains (c, m)                                                   -- (1)
      || !st.allowed c m                                                      -- (2)
      || st.seq.any (fun p => p.1 == c && st.pubBefore m p.2)                 -- (3)
      || st.seq.any (fun p => p.1 == c && st.otherOrder c m p.2)              -- (4)
  | _ => false

def next09 (st : C09St) : BLabel → C09St
  | .bbegin o it => { st with now := st.now + 1, ops := st.ops ++ [{ o, it, tb := st.now, tr := none }] }
  | .bret o =>
    { st with now := st.now + 1,
              ops := st.ops.map (fun x => if x.o == o && x.tr.isNone then { x with tr := some st.now } else x) }
  | .deliver c m => { st with now := st.now + 1, seq := st.seq ++ [(c, m)] }
  | .term c => { st with now := st.now + 1, dead := c :: st.dead }
  | _ => st

structure BMon (σ : Type) where
  init : σ
  step : σ → BLabel → Option σ

def BMon.run {σ : Type} (m : BMon σ) (st : σ) : List BLabel → Option σ
  | [] => some st
  | l :: ls => match m.step st l with
    | some st' => BMon.run m st' ls
    | none => none

def BMon.firstFail {σ : Type} (m : BMon σ) (st : σ) (k : Nat) : List BLabel → Option Nat
  | [] => none
  | l :: ls => match m.step st l with
    | some st' => BMon.firstFail m st' (k + 1) ls
    | none => some k

def BMon.ok {σ : Type} (m : BMon σ) (ls : List BLabel) : Bool := (m.run m.init ls).isSome

def monC09 : BMon C09St where
  init := { now := 0, ops := [], seq := [], dead := [] }
  step st l := if bad09 st l then none else some (next09 st l)

/-- is `c` definitely subscribed when publication `P` is handled, and nothing happened since that could
    excuse a missing delivery? -/
def C09St.required (st : C09St) (c : Nat) (P : Op9) : Bool :=
  P.tr.isSome && !st.dead.contains c &&
  st.ops.any (fun S => S.it == .sub c && defBefore S P &&
    st.ops.all (fun U => !(U.it == .unsub c) || defBefore U S))

/-- run at the end of a quiescent trace -/
def C09St.quiescentOk (st : C09St) : Bool :=
  st.ops.all (fun P =>
    match P.it with
    | .pub m =>
      st.ops.all (fun S =>
        match S.it with
        | .sub c => !st.required c P || st.seq.contains (c, m)
        | _ => true)
    | _ => true)

end Hannibal

namespace Hannibal

/-- Trace well-formedness for C09: a publication number is published at most once (the state is the
    list of publication numbers begun so far).  Needed by clause (1) and by `pubOf`, which identifies the
    publish operation of a delivery by its number. -/
def wfC09 : BMon (List Nat) where
  init := []
  step W l :=
    match l with
    | .bbegin _ (.pub m) => if W.contains m then none else some (m :: W)
    | _ => some W

def wf09 (ls : List BLabel) : Bool := wfC09.ok ls

end Hannibal
