import Hannibal.Monitor.Handles
/-
  C07 — restart keeps identity and mailbox and yields a freshly started incarnation.

  `monC07`  : strategy (default keeps the value, recreate-from-default starts a fresh Default value,
              a non-restartable spawn ignores the request) and timers (those registered by a previous
              incarnation no longer fire once the new one has started).
  `monC07o` : order — a message submitted after k accepted restart requests is handled by
              incarnation k+1 (exactly, because submission is atomic with `begin`).
-/
namespace Hannibal

structure C07St where
  inc : Nat                          -- incarnations started so far
  started : Bool                     -- the current incarnation's `started` has completed
  timers : List (Nat × Nat)          -- timer ↦ incarnation that registered it
  vnewSeen : Bool                    -- a fresh value was constructed since the last `stopped`
  deriving Repr, DecidableEq

def monC07 (c : MonCtx) : Mon C07St where
  init := { inc := 0, started := false, timers := [], vnewSeen := false }
  step st l :=
    let restartable := !c.cfg.stream && c.cfg.strat != .non
    match l with
    | .cbBegin .started =>
      if st.inc ≥ 1 then
        -- a non-restartable spawn ignores the request; recreate starts a fresh Default value, default keeps it
        if !restartable then none
        else if c.cfg.strat == .recreate && !st.vnewSeen then none
        else if c.cfg.strat == .only && st.vnewSeen then none
        else some { st with inc := st.inc + 1, started := false, vnewSeen := false }
      else some { st with inc := st.inc + 1, started := false, vnewSeen := false }
    | .cbEnd .started ok => some { st with started := ok }
    | .cbEnd .stopped _ => some { st with vnewSeen := false }
    | .vnew _ => some { st with vnewSeen := true }
    | .ctxTimer t _ _ => some { st with timers := (t, st.inc) :: st.timers }
    | .fire t _ | .timerArm t _ =>
      -- timers registered by a previous incarnation no longer fire once the new one has started
      (match lookup t st.timers with
       | some i => if i < st.inc && st.started then none else some st
       | none => some st)
    | _ => some st

structure C07oSt where
  inc : Nat
  accepted : Nat                     -- restart requests accepted so far
  expect : List (Nat × Nat)          -- client message ↦ restart requests accepted before it was submitted
  failure : Bool
  hold : HoldSt
  quiet : Bool                       -- stop issued / final callbacks begun / terminated
  timers : List (Nat × TimerKind)
  deriving Repr, DecidableEq

def monC07o (c : MonCtx) : Mon C07oSt where
  init := { inc := 0, accepted := 0, expect := [], failure := false, hold := HoldSt.init c.h0 c.k0, quiet := false,
            timers := [] }
  step st l :=
    let restartable := !c.cfg.stream && c.cfg.strat != .non
    -- a non-restartable spawn ignores the request altogether: its repeating timers keep going
    let badIgnore := !restartable && !c.cfg.stream && st.accepted > 0 && !st.quiet && !st.failure
      && st.hold.strongHeld && (match l with
        | .timerEnd t => (match lookup t st.timers with
            | some .interval | some .intervalWith => true
            | _ => false)
        | _ => false)
    if badIgnore then none else
    let st := { st with hold := st.hold.step l }
    let st := (match l with
      | .ctxTimer t k _ => { st with timers := (t, k) :: st.timers }
      | .stopReq _ _ | .ctxStop _ | .cbBegin .stopped | .begin _ _ .halt | .begin _ _ .tryHalt
      | .begin _ _ .consume => { st with quiet := true }
      | l => if l.terminates then { st with quiet := true } else st)
    match l with
    | .restartReq _ true | .ctxRestart true => some { st with accepted := st.accepted + 1 }
    | .begin _ _ k =>
      (match k.msg? with
       | some m => some { st with expect := (m, st.accepted) :: st.expect }
       | none => some st)
    | .cbBegin .started => some { st with inc := st.inc + 1 }
    | .cbBegin (.handle m) =>
      if st.failure then none else
      (match lookup m st.expect with
       | some n =>
         if restartable then (if st.inc == n + 1 then some st else none)
         else (if st.inc == 1 then some st else none)
       | none => some st)
    | l => if l.isFailure then some { st with failure := true } else some st

end Hannibal
