import Hannibal.Monitor.Basic
/-
  C07 — restart keeps identity and mailbox and yields a freshly started incarnation.
-/
namespace Hannibal

structure C07St where
  inc : Nat                          -- incarnations started so far
  started : Bool                     -- the current incarnation's `started` has completed
  accepted : Nat                     -- restart requests accepted so far
  expect : List (Nat × Nat)          -- client message ↦ restart requests accepted before it was submitted
  timers : List (Nat × Nat)          -- timer ↦ incarnation that registered it
  afterStopped : Bool                -- between `stopped` and `started` of a refresh
  vnewSeen : Bool
  failure : Bool
  deriving Repr, DecidableEq

def monC07 (c : MonCtx) : Mon C07St where
  init := { inc := 0, started := false, accepted := 0, expect := [], timers := [], afterStopped := false,
            vnewSeen := false, failure := false }
  step st l :=
    let restartable := !c.cfg.stream && c.cfg.strat != .non
    match l with
    | .restartReq _ true | .ctxRestart true => some { st with accepted := st.accepted + 1 }
    | .begin _ _ k =>
      (match k.msg? with
       | some m => some { st with expect := (m, st.accepted) :: st.expect }
       | none => some st)
    | .cbBegin .started =>
      if st.inc ≥ 1 then
        -- a non-restartable spawn ignores the request; recreate starts a fresh Default value, default keeps it
        if !restartable then none
        else if c.cfg.strat == .recreate && !st.vnewSeen then none
        else if c.cfg.strat == .only && st.vnewSeen then none
        else some { st with inc := st.inc + 1, started := false, afterStopped := false, vnewSeen := false }
      else some { st with inc := st.inc + 1, started := false, vnewSeen := false }
    | .cbEnd .started ok => some { st with started := ok, failure := st.failure || !ok }
    | .cbEnd .stopped _ => some { st with afterStopped := true, vnewSeen := false }
    | .vnew _ => some { st with vnewSeen := true }
    | .cbBegin (.handle m) =>
      if st.failure then none else
      (match lookup m st.expect with
       | some n =>
         -- messages accepted before / after a request are handled by the incarnation before / after it
         if restartable then (if st.inc == n + 1 then some st else none)
         else (if st.inc == 1 then some st else none)
       | none => some st)
    | .ctxTimer t _ _ => some { st with timers := (t, st.inc) :: st.timers }
    | .fire t _ | .timerArm t _ =>
      -- timers registered by a previous incarnation no longer fire once the new one has started
      (match lookup t st.timers with
       | some i => if i < st.inc && st.started then none else some st
       | none => some st)
    | l => if l.isFailure then some { st with failure := true } else some st

end Hannibal
