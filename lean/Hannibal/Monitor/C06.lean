import Hannibal.Monitor.Basic
/-
  C06 (single-actor part) — a failed actor is visible as errors, never as hangs:
  after the failure every operation on it resolves with an error, nothing of it
  runs any more, its timers end.

  The property is the conjunction of two monitors over the same state / the same update `next06`:
  `monC06`  : (proved for the model, `Props/C06.lean`) after the failure no callback begins; after
              failure + termination no timer fires / re-arms and no tick begins; a `ret` after the failure:
              await / halt / tryHalt return an error, join / consume return `.none` or an error, an
              `okReply` only for a call begun before the failure whose handler completed ok, a `ping`
              begun after the failure never returns ok; at quiescence after a failure all timers ended.
  `monC06t` : (trace-only) a send begun after the failure never returns ok; at quiescence after a failure
              no operation is pending.
  `monC06s` : (proved; a weakening of the send clause of `monC06t`, not needed on traces) a send begun after
              the failed actor's task is gone never returns ok.
  `monC06q` : (proved for traces that never reuse an operation id, `uniqueBegins`; it is the quiescence
              clause of `monC06t` on its own) at quiescence after a failure no operation is pending.
  `monC06 ∧ monC06t` accepts exactly the traces the one-piece formulation (`monC06orig` in
  `Props/C06.lean`, theorem `monC06_split`) accepts.
-/
namespace Hannibal

structure C06St where
  failed : Bool
  ops : List (Nat × (OpKind × Bool))     -- op ↦ (kind, begun after the failure)
  finishedOk : List Nat
  timers : List (Nat × Bool)             -- timer ↦ ended
  terminated : Bool
  deriving Repr, DecidableEq

/-- the events that make the actor "failed" -/
def fails06 (failOnTimeout : Bool) : Label → Bool
  | .cbAbandon _ => failOnTimeout
  | l => l.isFailure

def next06 (c : MonCtx) (st : C06St) : Label → C06St
  | .begin o _ k => { st with ops := (o, (k, st.failed)) :: st.ops }
  | .cbEnd (.handle m) true => { st with finishedOk := m :: st.finishedOk }
  | .ctxTimer t _ _ => { st with timers := (t, false) :: st.timers }
  | .timerEnd t => { st with timers := st.timers.map (fun p => if p.1 == t then (t, true) else p) }
  | l =>
    let st := if fails06 c.cfg.failOnTimeout l then { st with failed := true } else st
    if l.terminates then { st with terminated := true } else st

/-- verdict on the result `r` of an operation of kind `k` returning after the failure (proved part) -/
def retBad06 (k : OpKind) (late : Bool) (fin : List Nat) (r : Res) : Bool :=
  match k, r with
  | .await, r | .halt, r | .tryHalt, r => !r.isErr
  | .join, r | .consume, r => !(r == .none || r.isErr)
  | k, .okReply rep => !(!late && k.isCall && fin.contains rep.m)
  | .ping, .ok => late
  | _, _ => false

/-- trace-only part: a send begun after the failure returns ok -/
def retBad06t (k : OpKind) (late : Bool) (r : Res) : Bool :=
  late && k.isSend && r == .ok

def bad06 (st : C06St) : Label → Bool
  | .cbBegin _ => st.failed
  | .fire _ _ | .tickBegin _ _ | .timerArm _ _ => st.failed && st.terminated
  | .ret o r =>
    st.failed &&
      (match lookup o st.ops with
       | none => false
       | some (k, late) => retBad06 k late st.finishedOk r)
  | .quiescent _ => st.failed && !st.timers.all (·.2)
  | _ => false

def bad06t (st : C06St) : Label → Bool
  | .ret o r =>
    st.failed &&
      (match lookup o st.ops with
       | none => false
       | some (k, late) => retBad06t k late r)
  | .quiescent pend => st.failed && !pend.all (fun o => (lookup o st.ops).isNone)
  | _ => false

def monC06 (c : MonCtx) : Mon C06St where
  init := { failed := false, ops := [], finishedOk := [], timers := [], terminated := false }
  step st l := if bad06 st l then none else some (next06 c st l)

def monC06t (c : MonCtx) : Mon C06St where
  init := { failed := false, ops := [], finishedOk := [], timers := [], terminated := false }
  step st l := if bad06t st l then none else some (next06 c st l)

/-- state of `monC06s`: op ↦ (kind, begun after the failure *and* the end of the task) -/
structure C06sSt where
  failed : Bool
  terminated : Bool
  ops : List (Nat × (OpKind × Bool))
  deriving Repr, DecidableEq

def next06s (c : MonCtx) (st : C06sSt) : Label → C06sSt
  | .begin o _ k => { st with ops := (o, (k, st.failed && st.terminated)) :: st.ops }
  | l =>
    { st with failed := st.failed || fails06 c.cfg.failOnTimeout l,
              terminated := st.terminated || l.terminates }

def bad06s (st : C06sSt) : Label → Bool
  | .ret o r =>
    (match lookup o st.ops with
     | some (k, true) => k.isSend && r == .ok
     | _ => false)
  | _ => false

def monC06s (c : MonCtx) : Mon C06sSt where
  init := { failed := false, terminated := false, ops := [] }
  step st l := if bad06s st l then none else some (next06s c st l)

/-- the quiescence clause of `monC06t` on its own -/
def bad06q (st : C06St) : Label → Bool
  | .quiescent pend => st.failed && !pend.all (fun o => (lookup o st.ops).isNone)
  | _ => false

def monC06q (c : MonCtx) : Mon C06St where
  init := { failed := false, ops := [], finishedOk := [], timers := [], terminated := false }
  step st l := if bad06q st l then none else some (next06 c st l)

/-- well-formedness of a trace: every `begin` carries a fresh operation id -/
def monUniq : Mon (List Nat) where
  init := []
  step u l :=
    match l with
    | .begin o _ _ => if u.contains o then none else some (o :: u)
    | _ => some u

def uniqueBegins (ls : List Label) : Bool := monUniq.ok ls

end Hannibal
