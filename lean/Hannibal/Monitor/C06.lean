import Hannibal.Monitor.Basic
/-
  C06 (single-actor part) — a failed actor is visible as errors, never as hangs:
  after the failure every operation on it resolves with an error, nothing of it
  runs any more, its timers end.
-/
namespace Hannibal

structure C06St where
  failed : Bool
  ops : List (Nat × (OpKind × Bool))     -- op ↦ (kind, begun after the failure)
  finishedOk : List Nat
  timers : List (Nat × Bool)             -- timer ↦ ended
  terminated : Bool
  deriving Repr, DecidableEq

def monC06 (c : MonCtx) : Mon C06St where
  init := { failed := false, ops := [], finishedOk := [], timers := [], terminated := false }
  step st l :=
    match l with
    | .begin o _ k => some { st with ops := (o, (k, st.failed)) :: st.ops }
    | .cbEnd (.handle m) true => some { st with finishedOk := m :: st.finishedOk }
    | .cbBegin _ => if st.failed then none else some st
    | .fire _ _ | .tickBegin _ _ | .timerArm _ _ => if st.failed && st.terminated then none else some st
    | .ctxTimer t _ _ => some { st with timers := (t, false) :: st.timers }
    | .timerEnd t => some { st with timers := st.timers.map (fun p => if p.1 == t then (t, true) else p) }
    | .ret o r =>
      if !st.failed then some st else
      (match lookup o st.ops with
       | none => some st
       | some (k, late) =>
         (match k, r with
          | .await, r | .halt, r | .tryHalt, r => if r.isErr then some st else none
          | .join, r | .consume, r => if r == .none || r.isErr then some st else none
          | k, .okReply rep => if !late && k.isCall && st.finishedOk.contains rep.m then some st else none
          | .ping, .ok => if late then none else some st
          | k, .ok => if late && k.isSend then none else some st
          | _, _ => some st))
    | .quiescent pend =>
      if st.failed then
        (if pend.all (fun o => (lookup o st.ops).isNone) && st.timers.all (·.2) then some st else none)
      else some st
    | l =>
      let fail := l.isFailure || (match l with | .cbAbandon _ => c.cfg.failOnTimeout && !st.failed | _ => false)
      let st := if fail then { st with failed := true } else st
      if l.terminates then some { st with terminated := true } else some st

end Hannibal
