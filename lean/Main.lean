import Hannibal.Driver.Parse
import Hannibal.Driver.Accept
import Hannibal.Driver.Monitors
import Hannibal.Driver.Spawn18
import Hannibal.Driver.Types19
import Hannibal.Driver.Reg08
import Hannibal.Driver.Sys16
import Hannibal.Driver.Brk09
import Hannibal.Generated.Wiring
open Hannibal Hannibal.Driver

def reprLabel (l : Label) : String := (toString (repr l)).replace "\n" " "

def processCase (mode : String) (pid : String) (header : String) (lines : List String) : IO Unit := do
  if mode == "brk09" then
    IO.println (processBrk header lines (pid == "witness"))
    return ()
  if mode == "life09" then
    -- C05's clause "broker subscriptions never keep it alive", on the subscribers of the broker family
    let v := subscriberLifetimes header lines
    IO.println (s!"{header} :: " ++ (if v.isEmpty then "monitor[C05]=ok " else v))
    return ()
  if mode == "sys16" then
    IO.println (processSys Wiring.current header lines (pid == "witness"))
    return ()
  if mode == "reg08" then
    IO.println (processReg Wiring.current header lines (pid == "witness"))
    return ()
  let c := parseCase header lines
  let mut out := s!"{header} :: "
  if !c.bad.isEmpty then
    out := out ++ s!"unparsed={c.bad.length}:{c.bad.head!} "
  for sp in c.spawns do
    let ls := c.labelsOf sp.a
    let s0 := AState.init sp.cfg sp.h sp.hk
    match accept Wiring.current s0 ls with
    | .accepted wit maxF tau =>
      out := out ++ s!"actor={sp.a} accept=ok labels={ls.length} tau={tau} frontier={maxF} "
      if mode == "witness" then
        out := out ++ "\n  witness: " ++ " ; ".intercalate (wit.map reprLabel) ++ "\n"
    | .rejected k l f =>
      out := out ++ s!"actor={sp.a} accept=rejected@{k}:{reprLabel l}:frontier={f} "
    let ctx : MonCtx := { cfg := sp.cfg, h0 := sp.h, k0 := sp.hk, prompt := (header.splitOn "prompt=1").length > 1 }
    let pids := if pid == "all" then allMonitors else pid.splitOn ","
    for q in pids do
      match runMonitor q ctx ls with
      | some none => out := out ++ s!"monitor[{q}]=ok "
      | some (some k) => out := out ++ s!"monitor[{q}]=violation@{k}:{reprLabel (ls.getD k (.quiescent []))} "
      | none => pure ()
  IO.println out

partial def loop (mode : String) (pid : String) (h : IO.FS.Stream) (header : Option String) (acc : Array String) : IO Unit := do
  let line ← h.getLine
  if line.isEmpty then return ()
  let line := String.ofList (line.toList.filter (fun c => c != '\n' && c != '\r'))
  if line.startsWith "case " then
    loop mode pid h (some line) #[]
  else if line == "end" then
    match header with
    | some hd => processCase mode pid hd acc.toList
    | none => pure ()
    loop mode pid h none #[]
  else
    loop mode pid h header (acc.push line)

partial def spawnLoop (r : Runtime) (h : IO.FS.Stream) : IO Unit := do
  let line ← h.getLine
  if line.isEmpty then return ()
  let line := String.ofList (line.toList.filter (fun c => c != '\n' && c != '\r'))
  IO.println (checkLine r line)
  spawnLoop r h

partial def typesLoop (h : IO.FS.Stream) : IO Unit := do
  let line ← h.getLine
  if line.isEmpty then return ()
  let line := String.ofList (line.toList.filter (fun c => c != '\n' && c != '\r'))
  IO.println (checkUse line)
  typesLoop h

def main (args : List String) : IO Unit := do
  let mode := args.headD "accept"
  if mode == "types19" then
    typesLoop (← IO.getStdin)
    return ()
  if mode == "spawn18" then
    spawnLoop (parseRuntime ((args.drop 1).headD "tokio")) (← IO.getStdin)
    return ()
  let pid := (args.drop 1).headD "-"
  loop mode pid (← IO.getStdin) none #[]
