import Hannibal.Model.Basic
import Hannibal.Model.Chan
import Hannibal.Model.Actor
import Hannibal.Generated.Wiring
