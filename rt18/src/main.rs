//! C18: the same timing-independent client programs on the three real runtimes.
//! One line per scenario: `<scenario> <entry> <ops> => <observations>`; the check compares the
//! three outputs with each other and with the Lean model's prediction (Model/Spawn.lean).
use std::time::Duration;

use futures::FutureExt;
use hannibal::{Addr, OwningAddr, prelude::*, runtime::{block_on, sleep}, spawner::DefaultSpawner};

#[derive(Debug, Default)]
struct Ctr {
    n: u32,
    items: u32,
    ticks: u32,
}
impl Actor for Ctr {}
impl Service for Ctr {}
impl hannibal::RestartableActor for Ctr {}

#[message(response = u32)]
struct Get;
#[message]
struct Inc;
#[derive(Clone)]
#[message]
struct Tick;
#[message]
struct StartTimer;
#[message(response = u32)]
struct Ticks;

impl Handler<Get> for Ctr {
    async fn handle(&mut self, _: &mut Context<Self>, _: Get) -> u32 {
        self.n
    }
}
impl Handler<Inc> for Ctr {
    async fn handle(&mut self, _: &mut Context<Self>, _: Inc) {
        self.n += 1;
    }
}
impl Handler<Tick> for Ctr {
    async fn handle(&mut self, _: &mut Context<Self>, _: Tick) {
        self.ticks += 1;
    }
}
impl Handler<StartTimer> for Ctr {
    async fn handle(&mut self, ctx: &mut Context<Self>, _: StartTimer) {
        ctx.interval(Tick, Duration::from_millis(10));
    }
}
impl Handler<Ticks> for Ctr {
    async fn handle(&mut self, _: &mut Context<Self>, _: Ticks) -> u32 {
        self.ticks
    }
}
impl StreamHandler<u32> for Ctr {
    async fn handle(&mut self, _: &mut Context<Self>, _: u32) {
        self.items += 1;
    }
}

/// a second service type so registry scenarios do not interfere
#[derive(Debug, Default)]
struct Svc2(u32);
impl Actor for Svc2 {}
impl Service for Svc2 {}
impl Handler<Get> for Svc2 {
    async fn handle(&mut self, _: &mut Context<Self>, _: Get) -> u32 {
        self.0
    }
}

async fn tmo<T>(f: impl Future<Output = T>) -> Option<T> {
    futures::select! {
        r = f.fuse() => Some(r),
        _ = sleep(Duration::from_millis(1500)).fuse() => None,
    }
}

async fn call(addr: &Addr<Ctr>) -> &'static str {
    match tmo(addr.call(Get)).await {
        Some(Ok(_)) => "callOk",
        Some(Err(_)) => "callErr",
        None => "callHang",
    }
}

async fn join(o: &mut OwningAddr<Ctr>) -> &'static str {
    match tmo(o.join()).await {
        Some(Some(_)) => "joinSome",
        Some(None) => "joinNone",
        None => "joinHang",
    }
}

fn never() -> futures::stream::Pending<u32> {
    futures::stream::pending()
}

/// give a cancelled / finishing task time to actually go away
async fn settle() {
    sleep(Duration::from_millis(30)).await;
}

async fn scenarios() -> Vec<String> {
    let mut out = vec![];
    macro_rules! rec {
        ($name:expr, $entry:expr, $ops:expr, $obs:expr) => {
            out.push(format!("{} {} {} => {}", $name, $entry, $ops, $obs.join(",")));
        };
    }
    // ---- plain entry points: the actor keeps running after the call returned
    {
        let addr = Ctr::default().spawn();
        settle().await;
        rec!("s01", "spawn", "call", vec![call(&addr).await]);
    }
    {
        let o = Ctr::default().spawn_owning();
        settle().await;
        let a = o.to_addr();
        rec!("s02", "spawnOwning", "call", vec![call(&a).await]);
    }
    {
        // drop the OwningAddr, keep a plain clone
        let o = Ctr::default().spawn_owning();
        let a = o.to_addr();
        drop(o);
        settle().await;
        rec!("s03", "spawnOwning", "dropOwner,call", vec![call(&a).await]);
    }
    {
        let o = Ctr::default().spawn_owning();
        let a = o.detach();
        settle().await;
        rec!("s04", "spawnOwning", "detach,call", vec![call(&a).await]);
    }
    {
        let mut o = Ctr::default().spawn_owning();
        let mut a = o.to_addr();
        let c = call(&a).await;
        a.stop().ok();
        let j1 = join(&mut o).await;
        let j2 = join(&mut o).await;
        rec!("s05", "spawnOwning", "call,stop,join,join", vec![c, j1, j2]);
    }
    {
        let addr = <Ctr as hannibal::spawner::DefaultSpawnable<DefaultSpawner>>::spawn_default().unwrap();
        settle().await;
        rec!("s06", "spawnDefault", "call", vec![call(&addr).await]);
    }
    {
        let o = <Ctr as hannibal::spawner::DefaultSpawnable<DefaultSpawner>>::spawn_owning().unwrap();
        let a = o.to_addr();
        drop(o);
        settle().await;
        rec!("s07", "spawnOwningDefault", "dropOwner,call", vec![call(&a).await]);
    }
    {
        let addr = Ctr::default().spawn_on_stream(never()).unwrap();
        settle().await;
        rec!("s08", "spawnOnStream", "call", vec![call(&addr).await]);
    }
    {
        let o = Ctr::default().spawn_owning_on_stream(never()).unwrap();
        let a = o.to_addr();
        drop(o);
        settle().await;
        rec!("s09", "spawnOwningOnStream", "dropOwner,call", vec![call(&a).await]);
    }
    // ---- builder terminals
    {
        let addr = hannibal::build(Ctr::default()).unbounded().spawn();
        settle().await;
        rec!("s10", "builderSpawn", "call", vec![call(&addr).await]);
    }
    {
        let addr = hannibal::build(Ctr::default()).bounded(1).recreate_from_default().spawn();
        settle().await;
        rec!("s11", "builderSpawn", "call", vec![call(&addr).await]);
    }
    {
        let mut o = hannibal::build(Ctr::default()).bounded(2).spawn_owning();
        let mut a = o.to_addr();
        let c = call(&a).await;
        a.stop().ok();
        rec!("s12", "builderSpawnOwning", "call,stop,join", vec![c, join(&mut o).await]);
    }
    {
        let o = hannibal::build(Ctr::default()).unbounded().non_restartable().spawn_owning();
        let a = o.to_addr();
        drop(o);
        settle().await;
        rec!("s13", "builderSpawnOwning", "dropOwner,call", vec![call(&a).await]);
    }
    {
        let addr = hannibal::build(Ctr::default()).on_stream(never()).spawn();
        settle().await;
        rec!("s14", "streamBuilderSpawn", "call", vec![call(&addr).await]);
    }
    {
        let addr = hannibal::build(Ctr::default()).bounded_on_stream(1, never()).spawn();
        settle().await;
        rec!("s15", "streamBuilderSpawn", "call", vec![call(&addr).await]);
    }
    {
        let mut o = hannibal::build(Ctr::default()).on_stream(never()).spawn_owning();
        let mut a = o.to_addr();
        let c = call(&a).await;
        a.stop().ok();
        rec!("s16", "streamBuilderSpawnOwning", "call,stop,join", vec![c, join(&mut o).await]);
    }
    {
        let o = hannibal::build(Ctr::default()).on_stream(never()).spawn_owning();
        let a = o.to_addr();
        drop(o);
        settle().await;
        rec!("s17", "streamBuilderSpawnOwning", "dropOwner,call", vec![call(&a).await]);
    }
    // ---- registry
    {
        let addr = Ctr::from_registry().await;
        settle().await;
        rec!("s18", "fromRegistry", "call", vec![call(&addr).await]);
        let _ = Addr::<Ctr>::unregister().await;
    }
    {
        let r = hannibal::build(Svc2(7)).unbounded().register().await;
        settle().await;
        let obs = match r {
            Ok((addr, _)) => match tmo(addr.call(Get)).await {
                Some(Ok(_)) => "callOk",
                Some(Err(_)) => "callErr",
                None => "callHang",
            },
            Err(_) => "registerErr",
        };
        rec!("s19", "register", "call", vec![obs]);
        let _ = Addr::<Svc2>::unregister().await;
    }
    // ---- custom spawner entry point: the caller owns the ActorHandle
    {
        use hannibal::spawner::SpawnableWith;
        let (a, h) = Ctr::default().spawn_with::<DefaultSpawner>();
        drop(h);
        settle().await;
        rec!("s20", "spawnWith", "dropOwner,call", vec![call(&a).await]);
    }
    {
        use hannibal::spawner::SpawnableWith;
        let (a, h) = Ctr::default().spawn_with::<DefaultSpawner>();
        h.detach();
        settle().await;
        rec!("s21", "spawnWith", "detach,call", vec![call(&a).await]);
    }
    // ---- join futures as first-class values: created, polled, dropped independently of the owner
    {
        // consume_sync: stop, create the join future, drop the owner, then await the future
        let o = Ctr::default().spawn_owning();
        settle().await;
        let r = match o.consume_sync() {
            Ok(f) => match tmo(f).await {
                Some(Some(_)) => "joinSome",
                Some(None) => "joinNone",
                None => "joinHang",
            },
            Err(_) => "consumeErr",
        };
        rec!("s22", "spawnOwning", "stop,joinCreate,dropOwner,joinAwait", vec![r]);
    }
    {
        // a join future polled once (pending) and dropped, e.g. a join with a timeout
        let mut o = Ctr::default().spawn_owning();
        let a = o.to_addr();
        settle().await;
        let mut f = o.join();
        let polled = futures::poll!(&mut f).is_pending();
        drop(f);
        settle().await;
        let c = call(&a).await;
        rec!("s23", "spawnOwning", "joinCreate,joinPoll,joinDrop,call", vec![if polled { "joinPending" } else { "joinReady" }, c]);
    }
    {
        // the same, then stop and join again: the task handle went with the dropped future
        let mut o = Ctr::default().spawn_owning();
        let mut a = o.to_addr();
        settle().await;
        let mut f = o.join();
        let polled = futures::poll!(&mut f).is_pending();
        drop(f);
        settle().await;
        let c = call(&a).await;
        a.stop().ok();
        settle().await;
        let j = join(&mut o).await;
        rec!("s24", "spawnOwning", "joinCreate,joinPoll,joinDrop,call,stop,join", vec![if polled { "joinPending" } else { "joinReady" }, c, j]);
    }
    {
        // a join future created but never polled, owner dropped, future dropped
        let mut o = Ctr::default().spawn_owning();
        let a = o.to_addr();
        let f = o.join();
        drop(o);
        settle().await;
        let c1 = call(&a).await;
        drop(f);
        settle().await;
        let c2 = call(&a).await;
        rec!("s25", "spawnOwning", "joinCreate,dropOwner,call,joinDrop,call", vec![c1, c2]);
    }
    {
        // a join future created but never polled, owner detached, then stop and await the future
        let mut o = Ctr::default().spawn_owning();
        let f = o.join();
        let mut a = o.detach();
        settle().await;
        let c = call(&a).await;
        a.stop().ok();
        let r = match tmo(f).await {
            Some(Some(_)) => "joinSome",
            Some(None) => "joinNone",
            None => "joinHang",
        };
        rec!("s26", "spawnOwning", "joinCreate,detach,call,stop,joinAwait", vec![c, r]);
    }
    {
        // unpolled join future dropped while the owner lives on; then the usual stop + join
        let mut o = Ctr::default().spawn_owning();
        let mut a = o.to_addr();
        let f = o.join();
        drop(f);
        settle().await;
        let c = call(&a).await;
        a.stop().ok();
        let j = join(&mut o).await;
        rec!("s27", "spawnOwning", "joinCreate,joinDrop,call,stop,join", vec![c, j]);
    }
    {
        // spawn_with: the caller owns the ActorHandle; polled join future dropped
        use hannibal::spawner::SpawnableWith;
        let (a, mut h) = Ctr::default().spawn_with::<DefaultSpawner>();
        settle().await;
        let mut f = h.join();
        let polled = futures::poll!(&mut f).is_pending();
        drop(f);
        drop(h);
        settle().await;
        let c = call(&a).await;
        rec!("s28", "spawnWith", "joinCreate,joinPoll,joinDrop,dropOwner,call", vec![if polled { "joinPending" } else { "joinReady" }, c]);
    }
    // ---- finite stream: ends with the stream, on every runtime
    {
        let mut o = Ctr::default().spawn_owning_on_stream(futures::stream::iter(0..3u32)).unwrap();
        let r = match tmo(o.join()).await {
            Some(Some(c)) => format!("items={}", c.items),
            Some(None) => "joinNone".into(),
            None => "joinHang".into(),
        };
        out.push(format!("x01 spawnOwningOnStream finite-stream => {}", r));
    }
    // ---- timers: fire at least once, never after stop
    {
        let mut addr = Ctr::default().spawn();
        addr.send(StartTimer).await.ok();
        sleep(Duration::from_millis(200)).await;
        let t1 = tmo(addr.call(Ticks)).await.and_then(|r| r.ok()).unwrap_or(0);
        addr.stop().ok();
        let stopped = tmo(addr.clone()).await.map(|r| r.is_ok()).unwrap_or(false);
        out.push(format!("x02 spawn timers => fired={},stopped={}", t1 >= 1, stopped));
    }
    out
}

fn main() {
    let lines = block_on(scenarios());
    for l in lines {
        println!("{}", l);
    }
}
