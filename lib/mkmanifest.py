#!/usr/bin/env python3
"""Regenerates MANIFEST.json from lib/props.py + lib/manifest_texts.py."""
import json, os, sys
sys.path.insert(0, os.path.dirname(__file__))
from props import PROPS
from manifest_texts import TEXTS, NOT_APPLICABLE

ROOT = os.path.dirname(os.path.dirname(os.path.abspath(__file__)))
checks = []
for pid in sorted(PROPS):
    t = TEXTS[pid]
    checks.append({
        "property_id": pid,
        "quick_cmd": "./check %s quick" % pid,
        "thorough_cmd": "./check %s thorough" % pid,
        "evidence_file": "/verif/evidence/%s.json" % pid,
        "replay_cmd_template": "./check %s --replay {path}" % pid,
        "engine": "lean4-proof+trace-correspondence",
        "level_claimed": {"category": "proof", "text": t["text"], "design_ref": t["design_ref"]},
        "level_note": t["note"],
        "technique": t["technique"],
    })
m = {
    "version": 1,
    "setup_cmd": "./setup",
    "hooks": {
        "guard": "verif",
        "enable": "cargo feature `verif` of hannibal (the harness crate depends on hannibal with features=[\"verif\"])",
        "baseline_off_cmd": "cd /repo && cargo test --workspace --no-fail-fast --offline",
        "source_commits": ["3256c43", "926e15e"],
        "add_only": True,
    },
    "engines": [
        {"name": "lean4-proof+trace-correspondence", "path": "/verif/lean", "serves_properties": sorted(PROPS),
         "kind_free_text": "Lean 4 models (Model/Actor.lean: one actor; Model/Sys.lean: systems of actors with parent -> child "
                           "edges; Model/Registry.lean; Model/Broker.lean; Model/Spawn.lean; Model/Types.lean) + monitors "
                           "(Monitor/*.lean) + property theorems (Props/*.lean, index Props/All.lean); wiring regenerated from "
                           "/repo/src by /verif/extract; real traces from /verif/harness (controlled executor on real hannibal, "
                           "one process per case, random / PCT / exhaustive schedules) are accepted by the models and judged by "
                           "the monitors via hdriver (modes accept, sys16, reg08, brk09, spawn18, types19)"},
    ],
    "checks": checks,
    "not_applicable": NOT_APPLICABLE,
    "notes": "See DESIGN.md. Properties are added to `checks` as their proof + correspondence run end to end.",
}
json.dump(m, open(os.path.join(ROOT, "MANIFEST.json"), "w"), indent=1)
print("MANIFEST.json: %d checks, %d not_applicable" % (len(checks), len(NOT_APPLICABLE)))
