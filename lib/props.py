"""Per-property configuration of ./check."""

PROPS = {
    "C12": {
        "modules": ["Hannibal.Props.C12"],
        "theorems": ["Hannibal.C12_holds", "Hannibal.C12_current", "Hannibal.C12_state",
                     "Hannibal.wellWired12_current"],
        "cases": {"quick": {"C12": 1500}, "thorough": {"C12": 20000}},
        "assumptions": [
            "atomicity: everything a task does inside one poll is atomic w.r.t. other tasks (single-thread executor)",
            "futures-channel mpsc semantics as read from 0.3.31 (do_send_b / next_message / Receiver::drop)",
            "the bound is demanded until the executor-level termination event of the actor task",
        ],
    },
}
