"""Per-property configuration of ./check."""

COMMON_ASSUMPTIONS = [
    "atomicity: everything a task does inside one poll is atomic w.r.t. other tasks (single-thread executor)",
    "the model (Model/Actor.lean) describes hannibal at API-event granularity; its tie to the code is trace acceptance",
]

PROPS = {
    "C14": {
        "modules": ["Hannibal.Props.C14", "Hannibal.Props.C14Current"],
        "theorems": ["Hannibal.C14_holds", "Hannibal.C14_current", "Hannibal.wellWired14_current"],
        "cases": {"quick": {"C08@reg08": 500, "C14": 1200}, "thorough": {"C08@reg08": 8000, "C14": 15000, "x:C14": 320, "C05": 3000, "C02": 3000}},
        "assumptions": COMMON_ASSUMPTIONS + [
            "'everything that depends on them - on-demand respawn of services, register-if-stopped, try_from_registry - "
            "reacts to a termination that nobody awaited': the registry family is run through the registry acceptor inside "
            "this check (C08@reg08: linearizability against Spec08, whose liveness is the truthful one)",
            "'terminated' = the executor-level end of the actor's task (taskDone / taskPanic / cancel)",
        ],
    },
    "C15": {
        "modules": ["Hannibal.Props.C15", "Hannibal.Props.C15Current",
                    "Hannibal.Props.C15IW", "Hannibal.Props.C15IWCurrent"],
        "theorems": ["Hannibal.C15_holds", "Hannibal.C15_current", "Hannibal.wellWired15_current",
                     "Hannibal.C15iw_holds", "Hannibal.C15iw_current"],
        "cases": {"quick": {"C15": 1200, "C05": 300}, "thorough": {"C15": 15000, "x:C15": 320, "C05": 5000, "C07": 3000}},
        "assumptions": COMMON_ASSUMPTIONS + [
            "interval_with timers (monC15iw: a timer whose closure ran while a strong handle was held does not end "
            "unless the actor became quiet) are theorem C15iw_holds under WellWired15",
            "'conversions never change which actor is addressed' is structural in the single-actor model (one "
            "handle table per actor); it is observed on traces through the actor id carried by every reply",
        ],
    },
    "C03": {
        "modules": ["Hannibal.Props.C03", "Hannibal.Props.C03Current", "Hannibal.Props.C03Q", "Hannibal.Props.C03QCurrent"],
        "theorems": ["Hannibal.C03_holds", "Hannibal.C03_current",
                     "Hannibal.C03q_holds", "Hannibal.C03q_current"],
        "cases": {"quick": {"C03": 1500}, "thorough": {"C03": 20000, "x:C03": 320, "C13": 3000, "C07": 3000}},
        "assumptions": COMMON_ASSUMPTIONS + [
            "the graceful-end clause (monC03q: after an accepted stop and absent failures the actor has ended with "
            "stopped() by quiescence) is theorem C03q_holds (no hypothesis)",
        ],
    },
    "C07": {
        "modules": ["Hannibal.Props.C07", "Hannibal.Props.C07Current",
                    "Hannibal.Props.C07O", "Hannibal.Props.C07OCurrent"],
        "theorems": ["Hannibal.C07_holds", "Hannibal.C07_current", "Hannibal.wellWired07_current",
                     "Hannibal.C07o_holds", "Hannibal.C07o_current"],
        "cases": {"quick": {"C07": 1500, "C09@brk09": 800}, "thorough": {"C07": 20000, "x:C07": 320, "C03": 3000, "C09@brk09": 8000}},
        "assumptions": COMMON_ASSUMPTIONS + [
            "the order clause and 'a non-restartable spawn ignores the request altogether' (monC07o) are theorem "
            "C07o_holds under WellWired05 and wf01 (fresh message numbers / operation ids, checked on every real trace)",
            "handles stay valid across restarts: structural in the model (the handle table is untouched by restart steps)",
        ],
    },
    "C18": {
        "kind": "rt18",
        "modules": ["Hannibal.Props.C18", "Hannibal.Props.C18Current"],
        "theorems": ["Hannibal.C18_holds", "Hannibal.C18_current", "Hannibal.wellWired18_current"],
        "cases": {"quick": {}, "thorough": {}},
        "assumptions": [
            "per-runtime task semantics (drop = detach on tokio/async-std, cancel on smol) are modelled, validated by the real runtimes",
            "panics are outside the family; programs are timing independent except generous timeouts",
        ],
    },
    "C19": {
        "kind": "ct19",
        "modules": ["Hannibal.Props.C19", "Hannibal.Props.C19Current"],
        "theorems": ["Hannibal.C19_holds", "Hannibal.C19_no_bypass", "Hannibal.C19_current",
                     "Hannibal.wellWired19_current"],
        "cases": {"quick": {}, "thorough": {}},
        "assumptions": [
            "rustc's trait solver is modelled only for the bound shapes that occur in hannibal's API surface",
            "the catalogue is the tie between that abstraction and rustc (74 programs, 31 entry points)",
        ],
    },
    "C13": {
        "modules": ["Hannibal.Props.C13", "Hannibal.Props.C13Current", "Hannibal.Props.C13Q", "Hannibal.Props.C13QCurrent"],
        "theorems": ["Hannibal.C13_holds", "Hannibal.C13_current",
                     "Hannibal.C13q_holds", "Hannibal.C13q_current"],
        "cases": {"quick": {"C13": 1500}, "thorough": {"C13": 20000, "x:C13": 320, "C03": 3000}},
        "assumptions": COMMON_ASSUMPTIONS + [
            "the quiescence clauses (monC13q: ends with the stream / on stop / on last drop; every yielded item handled) "
            "are theorem C13q_holds under WellWired05 and fresh operation ids (opIdsFresh, checked on every real trace; "
            "witness c13qReuseWitness shows it is needed)",
            "the loop's random tie-break is exercised by seeds and schedules; the model allows both outcomes",
        ],
    },
    "C04": {
        "modules": ["Hannibal.Props.C04", "Hannibal.Props.C04Current", "Hannibal.Props.C04Q", "Hannibal.Props.C04QCurrent", "Hannibal.Props.C04P", "Hannibal.Props.C04PCurrent",
                    "Hannibal.Props.SendErr", "Hannibal.Props.SendErrCurrent"],
        "theorems": ["Hannibal.C04_holds", "Hannibal.C04_current", "Hannibal.wellWired04_current",
                     "Hannibal.C04q_holds", "Hannibal.C04q_current", "Hannibal.wellWired04q_current", "Hannibal.monC04q_step", "Hannibal.C04p_holds", "Hannibal.C04p_current",
                     "Hannibal.SendErr_holds", "Hannibal.SendErr_current"],
        "cases": {"quick": {"C04": 1500}, "thorough": {"C04": 20000, "x:C04": 320, "C02": 3000, "C17": 3000}},
        "assumptions": COMMON_ASSUMPTIONS + [
            "'no message submitted after an accepted stop request returned is ever handled', said of pings: monC04p is "
            "theorem C04p_holds (fresh operation ids; witness c04pReuseOp)",
            "'(its call returns Ok)': monC02c in the chain - a call whose message was handled to completion does not return "
            "an error - is theorem C02c_holds (listed under C02)",
            "the drain-barrier clauses (monC04q: sends acknowledged before the first stop request are handled; nothing "
            "submitted after an accepted stop returned is handled and its call errs; graceful end by quiescence) are "
            "theorem C04q_holds under WellWired05 and wf01 (message numbers / operation ids fresh: checked on every "
            "real trace; witnesses c04qReuseMsg, c04qReuseOp, c04qHollow show each hypothesis is needed)",
        ],
    },
    "C17": {
        "modules": ["Hannibal.Props.C17", "Hannibal.Props.C17Current",
                    "Hannibal.Props.C17N", "Hannibal.Props.C17NCurrent", "Hannibal.Props.C17R",
                    "Hannibal.Props.SendErr", "Hannibal.Props.SendErrCurrent"],
        "theorems": ["Hannibal.C17_holds", "Hannibal.C17_current",
                     "Hannibal.C17n_holds", "Hannibal.C17n_current", "Hannibal.C17r_holds",
                     "Hannibal.SendErr_holds", "Hannibal.SendErr_current"],
        "cases": {"quick": {"C17": 1500}, "thorough": {"C17": 20000, "x:C17": 320, "C04": 3000}},
        "assumptions": COMMON_ASSUMPTIONS + [
            "when None is allowed (monC17n) is theorem C17n_holds under fresh operation ids and consumeLast (no join / "
            "consume begins after a consume began: consume(self) takes the owning address by value); both are checked on "
            "every real trace and both are needed (witnesses c17n_consume_witness, c17n_reuse_witness)",
            "a second join that finds the join slot already taken returns None at once (interpretation of 'later joins yield None')",
            "detach / strong-handle behaviour of OwningAddr: covered by C05/C15 handle tables (owning is a strong kind)",
        ],
    },
    "C11": {
        "modules": ["Hannibal.Props.C11", "Hannibal.Props.C11Current", "Hannibal.Props.C11C", "Hannibal.Props.C11CCurrent",
                    "Hannibal.Props.C11T", "Hannibal.Props.C11TCurrent", "Hannibal.Proofs.C11TProj",
                    "Hannibal.Props.C11Shape", "Hannibal.Props.CancelErr", "Hannibal.Props.CancelErrCurrent"],
        "theorems": ["Hannibal.C11_holds", "Hannibal.C11_current", "Hannibal.C11c_holds", "Hannibal.C11c_current",
                     "Hannibal.C11t_holds", "Hannibal.C11t_current", "Hannibal.prun_run", "Hannibal.monC11p_ok_imp_monC11t",
                     "Hannibal.shape11_current", "Hannibal.CancelErr_holds", "Hannibal.CancelErr_current"],
        "cases": {"quick": {"C11": 1500}, "thorough": {"C11": 20000, "x:C11": 320, "C06": 3000}},
        "assumptions": COMMON_ASSUMPTIONS + [
            "prompt-schedule clauses of monC11p (needs-less-than-t completes, needs-more is abandoned exactly at t) are "
            "theorem C11t_holds for prompt runs of the model (prun: the clock advances only while the invocation in "
            "progress is asleep and its deadline is not due - the reading of 'the schedule only advances time when nothing "
            "is runnable'); monC11t is exactly the timing part of monC11p (monC11p_ok_imp_monC11t, "
            "monC11p_eq_monC11t_of_noRet); witness c11tLate: false of unrestricted runs. On real traces monC11p itself runs",
            "'the caller of an abandoned invocation gets an error' is theorem C11c_holds for every run with fresh message "
            "numbers and operation ids (wf01, checked on every real trace by monWf01; witnesses c11cReuseMsg, c11cReuseOp)",
            "d = t is excluded (select! picks randomly); virtual clock replaces real time",
            "a timeout of zero is outside the model and the generators: futures::select! may pick the expired Delay before "
            "the payload future is polled at all, so an invocation can be abandoned before it begins (consistent with C11's "
            "text, but the model lets an invocation be abandoned only after it began); that the configured timeout is "
            "used unchanged and guards task payloads only is the shape obligation shape11_current",
            "'state intact afterwards' is covered by the digest clause of C01's monitor on the same traces",
        ],
    },
    "C01": {
        "modules": ["Hannibal.Props.C01", "Hannibal.Props.C01Current", "Hannibal.Props.C01TryForce",
                    "Hannibal.Props.C01P", "Hannibal.Props.C01PCurrent"],
        "theorems": ["Hannibal.C01_holds", "Hannibal.C01_current", "Hannibal.monC01_step",
                     "Hannibal.C01p_holds", "Hannibal.C01p_holds_fresh", "Hannibal.C01p_current"],
        "cases": {"quick": {"C01": 1200, "C11": 600}, "thorough": {"C01": 20000, "x:C01": 320, "C11": 6000, "C12": 3000, "C07": 3000}},
        "assumptions": COMMON_ASSUMPTIONS + [
            "well-formedness hypothesis wf01 (message numbers and operation ids of the trace are fresh) - checked "
            "on every real trace by monWf01 in the same run; without it the model has runs the monitor rejects "
            "(c01ReuseMsg, c01ReuseOp in Props/C01Current.lean)",
            "'completed' = send returned Ok, call/ping returned (Ok or Canceled); a send that failed is not completed",
            "per-submitter order said of pings, which have no handler callback: monC01p (when a ping returns Ok every "
            "message acknowledged before it began has been taken out of the mailbox) is theorem C01p_holds_fresh for "
            "runs with fresh operation ids (witness c01pReuseOp)",
            "multi-actor part of 'from any task' (other actors as submitters) appears as ordinary client operations",
        ],
    },
    "C02": {
        "modules": ["Hannibal.Props.C02", "Hannibal.Props.C02Current", "Hannibal.Props.C02Guarded",
                    "Hannibal.Props.C02C", "Hannibal.Props.C02CCurrent",
                    "Hannibal.Props.SendErr", "Hannibal.Props.SendErrCurrent",
                    "Hannibal.Props.CancelErr", "Hannibal.Props.CancelErrCurrent"],
        "theorems": ["Hannibal.C02_holds", "Hannibal.C02_current", "Hannibal.C02_split", "Hannibal.C02t_holds",
                     "Hannibal.C02orig_holds", "Hannibal.C02orig_current", "Hannibal.C02g_holds",
                     "Hannibal.C02c_holds", "Hannibal.C02c_current",
                     "Hannibal.SendErr_holds", "Hannibal.SendErr_current",
                     "Hannibal.CancelErr_holds", "Hannibal.CancelErr_current"],
        "cases": {"quick": {"C02": 1500}, "thorough": {"C02": 20000, "x:C02": 320, "C06": 3000, "C04": 3000}},
        "assumptions": COMMON_ASSUMPTIONS + [
            "operation ids of the trace are fresh (opIdsFresh, checked on every real trace by monC02wf)",
            "'a call whose own message was handled to completion does not return an error' (monC02c, the converse of the "
            "reply-identity clause) is theorem C02c_holds for runs with fresh message numbers and operation ids (wf01; "
            "witnesses c02cReuseMsg, c02cReuseOp)",
            "'an await begun after a graceful termination returns Ok' (monC02t) is false of unguarded runs (the model "
            "then allows a cancel between the return of stopped() and the end of the task, where the loop future has "
            "no suspension point); it is proved for guarded runs (C02g_holds: the property as first written), which "
            "are the runs the acceptor accepts, and checked directly on real traces",
            "'provided user handlers themselves terminate': handler scripts of the harness always do",
        ],
    },
    "C06": {
        "modules": ["Hannibal.Props.C06", "Hannibal.Props.C06Send", "Hannibal.Props.C06Quiet", "Hannibal.Props.C06Split",
                    "Hannibal.Props.C06Current", "Hannibal.Props.C06Guarded"],
        "theorems": ["Hannibal.C06_holds", "Hannibal.C06_current", "Hannibal.wellWired06_current", "Hannibal.monC06_split",
                     "Hannibal.C06s_holds", "Hannibal.C06s_current", "Hannibal.C06q_holds", "Hannibal.C06q_current",
                     "Hannibal.C06r_holds", "Hannibal.C06g_holds"],
        "cases": {"quick": {"C06": 1500, "C16@sys16": 600}, "thorough": {"C06": 20000, "x:C06": 320, "C02": 3000, "C11": 3000, "C16@sys16": 6000}},
        "assumptions": COMMON_ASSUMPTIONS + [
            "single-actor part: 'children are released and stop gracefully', 'the registry treats it as not running' "
            "and 'other actors keep working' are the multi-actor clauses; they are carried by C16 (release at any "
            "termination cause), C08 (term events of failed instances) and by acceptance of every other actor's trace",
            "'a send begun after the failure never returns Ok' is false of unguarded runs between the failure and the "
            "end of the task (c06LateSend: the receiver lives until taskDone; in the real code both happen in one "
            "poll); it is proved for guarded runs (C06r_holds, and C06g_holds: the single-actor part as first "
            "written), which are the runs the acceptor accepts, and trace-checked (monC06t)",
            "'nothing pending at quiescence' is proved for traces with fresh operation ids (uniqueBegins, checked on "
            "every real trace by monUniq)",
            "every single fault kind x position is sampled by the generator (start error / panic, handler panic, stopped "
            "panic, timeout failure, cancellation at the j-th poll), pairs of faults only in thorough runs via restart_err",
        ],
    },
    "C05": {
        "modules": ["Hannibal.Props.C05", "Hannibal.Props.C05Current", "Hannibal.Props.C05Q", "Hannibal.Props.C05QCurrent",
                    "Hannibal.Props.C05D", "Hannibal.Props.C05DCurrent"],
        "theorems": ["Hannibal.C05_holds", "Hannibal.C05_current", "Hannibal.wellWired05_current",
                     "Hannibal.C05q_holds", "Hannibal.C05q_current", "Hannibal.monC05q_orig",
                     "Hannibal.C05d_holds", "Hannibal.C05d_current", "Hannibal.C05df_holds", "Hannibal.drun_grun"],
        "cases": {"quick": {"C05": 1500, "C09@life09": 600, "C16@sys16": 500},
                  "thorough": {"C05": 20000, "x:C05": 320, "C15": 3000, "C13": 3000, "C09@life09": 12000,
                               "C16@sys16": 8000}},
        "assumptions": COMMON_ASSUMPTIONS + [
            "'drains, then terminates gracefully once the last strong handle is gone' (monC05q) is proved for every run "
            "with fresh operation ids (C05q_holds; opIdsFresh is checked on every real trace; witness c05qReuseWitness "
            "shows it is needed): at a quiescent point with no strong holder, no stop, no failure the actor has "
            "terminated gracefully and every acknowledged send was handled",
            "'every message already accepted' also covers calls whose future the client dropped (monC05d: handled by "
            "quiescence, and never skipped in favour of a later submission): theorem C05d_holds for runs of the model in "
            "which a client only drops the future of a call whose submission went through (drun; the acceptor applies that "
            "guard to every real trace; witness c05dGuardWitness) with fresh ids (wf01, checked by monWf01)",
            "'broker subscriptions never keep it alive': the holder clause of monC05q is also run on every subscriber of "
            "the broker family (C09@life09: subscribers end by stop, by ctx.stop and by the last drop, before and after "
            "publications); the broker's table and buffers are not holders the trace knows of",
            "'a parent's child list keeps it alive': the actor-tree family is run through the system acceptor "
            "(C16@sys16: monC05 / monC05q on every actor's projection of the system run, with the parent's registrations "
            "as holders)",
            "service registry, parent's child list and broker subscriptions as holders are multi-actor: they appear "
            "in single-actor traces as ordinary strong / weak handles held by the harness's registry and broker ops",
            "wiring hypothesis WellWired05 (strong kinds own both closures, weak kinds own nothing and must upgrade) "
            "is re-proved by `decide` for the wiring regenerated from the source on every run",
        ],
    },
    "C08": {
        "modules": ["Hannibal.Props.C08", "Hannibal.Props.C08Current"],  # shape08_current: Generated/SysFacts
        "theorems": ["Hannibal.C08_holds", "Hannibal.C08_current", "Hannibal.wellWired08_current", "Hannibal.shape08_current"],
        "driver": "reg08",
        "cases": {"quick": {"C08": 2000}, "thorough": {"C08": 40000}},
        "assumptions": [
            "atomicity: everything a task does inside one poll is atomic w.r.t. other tasks (single-thread executor)",
            "every registry operation holds the RwLock for its whole check-then-act (one effect step per operation; "
            "from_registry_and_spawn keeps the write lock until it returns): validated by acceptance of real "
            "histories - a history with two overlapping effects is rejected by the model",
            "an instance counts as terminated from the executor-level end of its task (tdone / taskpanic / cancel)",
            "try_from_registry may return None while a spawning lookup holds the write lock (try_read)",
            "setup() is a lookup whose result is discarded; Service::from_registry for brokers goes through the same code",
        ],
    },
    "C16": {
        "modules": ["Hannibal.Props.C16", "Hannibal.Props.C16Current", "Hannibal.Props.C16Q", "Hannibal.Props.C16QCurrent"],
        "theorems": ["Hannibal.C16_kept", "Hannibal.C16_released", "Hannibal.sys_actor_run", "Hannibal.C16_lifetime",
                     "Hannibal.C16_broadcast", "Hannibal.C16_lifetime_current", "Hannibal.C16_broadcast_current",
                     "Hannibal.C16q_holds", "Hannibal.C16q_current", "Hannibal.monC16q_lenient", "Hannibal.shape16_current"],
        "driver": "sys16",
        "cases": {"quick": {"C16": 2000}, "thorough": {"C16": 40000}},
        "assumptions": COMMON_ASSUMPTIONS + [
            "'every registered child that was never stopped / restarted / failed (and whose stream did not end) has taken "
            "the broadcast up exactly once per registration by its quiescent point' (monC16q) is theorem C16q_holds "
            "(WellWired05); the exemption for stream-attached children whose stream ended was added when the clause as "
            "first written turned out false of the model (witness c16qStreamWitness; monC16q_lenient: the repair only "
            "exempts); 'released children drain and stop gracefully by quiescence' is C05q_holds applied to the child's "
            "projection (sys_actor_run) and is also checked on every actor's projection of every real trace",
            "the children map lives in the Context, which is dropped with the loop future: modelled as 'the step that "
            "ends the parent's task drops every child handle' and validated by acceptance of real traces with every "
            "termination cause (stop, drop, halt, handler panic, ctx.stop, cancellation at the j-th poll, restart)",
            "send_to_children uses the forcing path and ignores errors (Wiring.path sendToChildren is extracted; "
            "children of the harness have unbounded mailboxes)",
            "a client never uses a handle it moved into a parent (Sys.clientOk) - true of Rust move semantics",
        ],
    },
    "C09": {
        "modules": ["Hannibal.Props.C09",
                    "Hannibal.Props.C09Q", "Hannibal.Props.C09Current", "Hannibal.Props.C09P"],
        "theorems": ["Hannibal.C09_holds", "Hannibal.c09_step", "Hannibal.deliver_ok",
                     "Hannibal.C09q_holds", "Hannibal.C09qs_holds", "Hannibal.shape09_current",
                     "Hannibal.C09p_progress", "Hannibal.C09p_publish_returns"],
        "driver": "brk09",
        "cases": {"quick": {"C09": 2500}, "thorough": {"C09": 50000}},
        "assumptions": [
            "atomicity: everything a task does inside one poll is atomic w.r.t. other tasks (single-thread executor)",
            "Model/Broker.lean: subscribe / unsubscribe / publish enter the broker's FIFO mailbox at one point between "
            "the operation's begin and return; the broker handles one item at a time; what is on its way to a subscriber "
            "is taken up in FIFO order - assumed in the theorem, validated by the depth-first search for internal moves "
            "on real histories (a budget overrun counts as a rejection)",
            "publication numbers are fresh (wf09, checked on every real trace)",
            "'exactly once to every definitely-subscribed live subscriber by quiescence' (quiescentOk) is theorem "
            "C09q_holds for runs of the model that end settled (empty mailbox, nothing in flight) - which the acceptor "
            "demands of every quiescent real history; 'the broker never keeps a subscriber alive / terminated subscribers "
            "neither block nor fail a publish' are judged on the real traces: every publish of the family returns Ok "
            "although subscribers terminate at arbitrary positions, and nothing may stay in flight",
            "one broker per topic type; topics are independent (the driver projects per topic)",
        ],
    },
    "C10": {
        "modules": ["Hannibal.Props.C10", "Hannibal.Props.C10Current", "Hannibal.Props.C10Q", "Hannibal.Props.C10QCurrent"],
        "theorems": ["Hannibal.C10_holds", "Hannibal.C10_current",
                     "Hannibal.C10q_holds", "Hannibal.C10q_current"],
        "cases": {"quick": {"C10": 1500}, "thorough": {"C10": 20000, "x:C10": 320, "C07": 3000}},
        "assumptions": COMMON_ASSUMPTIONS + [
            "tick/wake-up correspondence and 'all timer tasks ended by quiescence, none leaked' (monC10q) are theorem "
            "C10q_holds (no hypothesis); on real traces the executor's task census backs the timerEnd events",
            "'exactly k deliveries after k periods on an idle actor': the proved part gives at most (spacing >= period); "
            "'at least' is a liveness clause checked on quiescent real traces by monC10q's arm/tick accounting",
            "virtual clock replaces tokio::time::sleep; the model forbids the clock to jump past an armed deadline "
            "(validated by acceptance of real traces in which the executor fires timers in deadline order)",
        ],
    },
    "C12": {
        "modules": ["Hannibal.Props.C12", "Hannibal.Props.C12Q", "Hannibal.Props.C12QCurrent"],
        "theorems": ["Hannibal.C12_holds", "Hannibal.C12_current", "Hannibal.C12_state",
                     "Hannibal.wellWired12_current", "Hannibal.C12q_holds", "Hannibal.C12q_current"],
        "cases": {"quick": {"C12": 1500}, "thorough": {"C12": 20000, "x:C12": 320}},
        "assumptions": [
            "atomicity: everything a task does inside one poll is atomic w.r.t. other tasks (single-thread executor)",
            "futures-channel mpsc semantics as read from 0.3.31 (do_send_b / next_message / Receiver::drop)",
            "the bound is demanded until the executor-level termination event of the actor task",
            "'every send still returns once the actor catches up or terminates': monC12q (no send outstanding at a "
            "quiescent point) is theorem C12q_holds for runs with fresh operation ids (witness c12q_reuse_simple), and "
            "clause (d) of monC02 for terminated actors; both run on the real traces",
        ],
    },
}

# CROSS-FAMILY: every single-actor monitor is meaningful on every single-actor trace; each check therefore also
# runs a slice of all the other single-actor families (a seeded change for C01 was first missed because the
# C01 family has no handler timeouts).
SINGLE_ACTOR = ["C01", "C02", "C03", "C04", "C05", "C06", "C07", "C10", "C11", "C12", "C13", "C14", "C15", "C17"]
for _pid in SINGLE_ACTOR:
    _c = PROPS[_pid]["cases"]
    for _fam in SINGLE_ACTOR:
        _c["quick"].setdefault(_fam, 150)
        _c["thorough"].setdefault(_fam, 2000)
    # SMALL: uniform draws from a small systematically structured program space (every strategy x mailbox x
    # fault kind, 1-4 operations from a fixed alphabet, optional second client, optional finale)
    _c["quick"].setdefault("SMALL", 600)
    _c["thorough"].setdefault("SMALL", 12000)
