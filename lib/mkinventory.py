#!/usr/bin/env python3
"""Print the theorem inventory (markdown) from lib/props.py: property -> modules, property theorems."""
import sys, os
sys.path.insert(0, os.path.dirname(__file__))
from props import PROPS
print("| property | Lean modules (under `lean/Hannibal/`) | theorems audited with `#print axioms` on every run |")
print("|---|---|---|")
for pid in sorted(PROPS):
    sp = PROPS[pid]
    mods = ", ".join("`%s`" % m.replace("Hannibal.", "") for m in sp["modules"])
    ths = ", ".join("`%s`" % t.replace("Hannibal.", "") for t in sp["theorems"])
    print("| %s | %s | %s |" % (pid, mods, ths))
