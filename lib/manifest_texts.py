TEXTS = {
    "C09": {
        "text": "Machine-checked Lean 4 theorem C09_holds: every run of the broker model (Model/Broker.lean: any number of "
                "publishers, subscribers and publications; subscribe / re-subscribe / unsubscribe / publish begun, "
                "entering the broker's mailbox, handled and returning in any interleaving with deliveries and "
                "subscriber terminations) with fresh publication numbers is accepted by monC09, all four clauses, which "
                "are phrased over client-visible events and their timestamps only: (1) a publication is taken up at "
                "most once by a subscriber (re-subscribing does not duplicate); (2) only by an actor that may be "
                "subscribed - some subscribe of it began before the publish returned and no unsubscribe lies "
                "definitely after that subscribe and definitely before the publish; (3) if publish m1 returned before "
                "publish m2 began no subscriber takes m2 up before m1 (every publisher's own order is respected); (4) "
                "any two subscribers take the publications they both receive up in the same relative order. The proof "
                "carries the global enqueue / handling order as a ghost (enq_order: returned-before-begun implies "
                "enqueued earlier) and shows every subscriber's taken-up + in-flight sequence is a strictly "
                "increasing subsequence of the handling order. The model is tied to the real Broker<T> by a "
                "linearizability-style search on real histories.",
        "design_ref": "DESIGN.md §5 C09",
        "note": "Exactly-once by quiescence is theorem C09q_holds: in every run of the broker model that ends settled "
                "(empty mailbox, nothing in flight - what the acceptor demands of a quiescent real history) every "
                "publication whose publish returned has been taken up by every live subscriber whose subscribe "
                "returned before the publish began and whose unsubscribes all returned before that subscribe began. "
                "The two non-blocking clauses are trace-checked. Trusted: Lean kernel + axioms; Model/Broker.lean "
                "validated by acceptance of real histories (1-3 publishers incl. Context::publish, 1-4 subscribers, "
                "1-2 topics).",
        "technique": "Lean 4 proof (ghost handling order, subsequence invariant) + linearizability check of real histories against the model",
    },
    "C16": {
        "text": "Machine-checked Lean 4 theorems about systems of any number of actors with any parent -> child graph "
                "(Model/Sys.lean: every system step is made of steps of the single-actor model): C16_kept - in every "
                "reachable system state every handle registered with add_child / register_child is a live Sender in "
                "the child's handle table and its owner has not terminated; C16_released - the step that ends a "
                "parent's task (graceful or not) removes all its registrations and drops exactly those handles in the "
                "children; sys_actor_run - what happens to any one actor inside any system run is a run of the "
                "single-actor model over its projection (own events, a drop of the parent's handle at the parent's "
                "end, one forced submission per registration at a broadcast), so every single-actor theorem holds of "
                "every actor of every system, recursively down any hierarchy; C16_lifetime - C05 for every actor of "
                "every system (a child's final stopped() begins only if it was asked to stop, failed, its stream ended "
                "or no strong handle is left); C16_broadcast - a broadcast is taken up only by an actor registered "
                "under its type with the broadcasting parent when it was sent, at most once per registration. The "
                "system model is tied to the code by acceptance of whole multi-actor traces (trees up to depth 3 / 6 "
                "nodes, children under two message types and add_child, some also held from outside, parents ending "
                "by every cause).",
        "design_ref": "DESIGN.md §5 C16",
        "note": "Unit broadcasts (send_to_children(()) to add_child children) are observed too: the harness numbers them "
                "per add_child registration, the child's Handler<()> claims the numbers in mailbox order. "
                "Exactly-once is theorem C16q_holds (monC16q): at its quiescent point every actor that was never stopped, "
                "restarted, failed or stream-ended has taken every broadcast up exactly once per registration. "
                "Graceful stop of released children is C05q_holds on the child's projection (sys_actor_run), also "
                "checked on every actor's projection of every real trace. Trusted: Lean kernel + axioms; "
                "Model/Sys.lean validated by multi-actor trace acceptance.",
        "technique": "Lean 4 proof (system invariant + projection theorem lifting all single-actor theorems + mailbox counting) + checked multi-actor trace correspondence",
    },
    "C01": {
        "text": "Machine-checked Lean 4 theorem C01_holds (no wiring hypothesis): every run of the actor model whose "
                "message numbers and operation ids are fresh (wf01, a decidable trace predicate checked on every real "
                "trace) - any number of client tasks and handle kinds, both submission paths, unbounded or bounded "
                "mailbox of any capacity, timers, restarts, every interleaving - is accepted by monC01, all five "
                "clauses: handler invocations never overlap; a message is handled at most once; when handle(m2) begins, "
                "every message whose submission had completed before m2's submission began has been handled (FIFO "
                "across handles and paths); a reply carries its own message and the fold of everything handled up to "
                "the end of its handler; a joined value carries the fold of exactly the handled messages in order. "
                "Invariant QInv over the mailbox: no duplicates, disjoint from handled, every 'before' message is "
                "handled or strictly ahead in the queue; sigma.hlog = s.log.",
        "design_ref": "DESIGN.md §5 C01",
        "note": "All submission paths of the public API are in the model and the harness, including "
                "WeakSender::try_force_send (operation kind tryForce). The chain also runs monC07 / monC07o: an incarnation is "
                "only replaced by a requested restart. "
                "Trusted: Lean kernel + axioms; futures-channel FIFO modelled in Model/Chan.lean and validated by trace "
                "acceptance; the freshness hypothesis is checked per trace (monWf01).",
        "technique": "Lean 4 proof (queue-order invariant by induction over all runs) + checked trace correspondence",
    },
    "C02": {
        "text": "Machine-checked Lean 4 theorem C02_holds: for every wiring whose loop notifies after stopped(), every "
                "run of the actor model with fresh operation ids is accepted by monC02: no operation returns twice; an "
                "Ok reply is the one produced by the completed handler invocation of the call's own message (never "
                "swapped, duplicated or invented); operations begun after termination complete with an error (awaits: "
                "an error unless the termination was graceful; joins: None or the value); and at every quiescent "
                "point nothing hangs: no operation is pending on a terminated actor and on a live one only waits for "
                "its termination are. Invariant WaitInv: a pending call/ping has its payload in the queue or is the "
                "slot of the running invocation, a pending halt/consume has its stop queued or the loop has left; "
                "fail/finish cancel every queued slot. The monitor is split exactly (C02_split): the remaining clause "
                "'a late await returns Ok after a graceful end' is proved under noCancelAfterStopped (C02t_holds) and "
                "checked directly on real traces.",
        "design_ref": "DESIGN.md §5 C02",
        "note": "Only operations begun after the end of the task are refused with a send error: SendErr_holds (no "
                "hypothesis), monSendErr in the chain; a call or ping returns Canceled only after the end of the task or "
                "after the invocation for its own message was abandoned / panicked: CancelErr_holds (fresh operation "
                "ids), monCancelErr in the chain. "
                "monC02t (a late await after a graceful end returns Ok) is false of unguarded runs and proved for guarded "
                "runs (C02g_holds), which are what the acceptor accepts. 'Awaits complete with the termination result' is "
                "carried in the chain by monC04 (announcement clauses) and monC06 (both proved). Trusted: Lean "
                "kernel + axioms; oneshot reply channels modelled as op states, validated by trace acceptance.",
        "technique": "Lean 4 proof (op-table / mailbox coupling invariant, quiescence lemma) + checked trace correspondence",
    },
    "C06": {
        "text": "Machine-checked Lean 4 theorems for the single-actor part of C06: C06_holds (for every wiring whose loop "
                "notifies after stopped()): in every run of the actor model - every failure kind (start error or "
                "panic, handler or stopped panic, timeout with fail_on_timeout, cancellation) at every position - after "
                "the failure no callback begins, after failure and termination no timer fires, re-arms or ticks, "
                "awaiting / halt return an error, join / consume return None or an error, an Ok reply only for a call "
                "begun before the failure whose handler completed, a ping begun after it never returns Ok, and at "
                "quiescence all timer tasks have ended; C06q_holds: at quiescence after a failure no operation is "
                "pending (fresh operation ids); C06s_holds: a send begun after the failed actor's task is gone never "
                "returns Ok; monC06_split: monC06 and monC06t together accept exactly what the one-piece formulation "
                "accepts.",
        "design_ref": "DESIGN.md §5 C06",
        "note": "Containment across actors is exercised inside this check too: it runs the actor-tree family (C16@sys16, "
                "handler panics injected into members of a tree; monC16 / monC16q on the system run: live siblings of a "
                "failed child keep receiving the parent's broadcasts). "
                "The send clause between failure and task end is false of unguarded runs and proved for guarded runs "
                "(C06r_holds / C06g_holds), which are what the acceptor accepts; the chain also runs monC17 (join yields "
                "None), monC10 (timers stop firing) and monC03; multi-actor clauses via C08 / C16 and per-actor acceptance.",
        "technique": "Lean 4 proof (failed-phase / latch / op-state invariants) + checked trace correspondence with fault injection",
    },
    "C08": {
        "text": "Machine-checked Lean 4 theorem C08_holds: if the registry decides liveness from the termination latch "
                "itself and already_running maps the entry through `running` (WellWired08: both facts are re-extracted "
                "from src/actor/service.rs and src/addr.rs on every run and re-proved by decide), then every run of "
                "the registry model (Model/Registry.lean) - any number of tasks, service types and instances; "
                "from_registry, setup, register, replace, unregister, try_from_registry, already_running begun, "
                "taking effect and returning in any interleaving with instance terminations - is accepted by monC08: "
                "each operation takes effect exactly once between its begin and its return, the effects in order "
                "are a legal history of the sequential specification Spec08 (a function type -> optional instance), "
                "and each return value is the one the specification computed at the effect point, i.e. the history "
                "is linearizable. Spec08 is shown to say what the property says (spec_lookup, spec_spawn_iff, "
                "spec_register, spec_register_ok, spec_already_running). The model is tied to the code by a "
                "linearizability search on real concurrent histories: the acceptor inserts the effect points, with "
                "the default-instance spawn observed directly.",
        "design_ref": "DESIGN.md §5 C08",
        "note": "Trusted: Lean kernel + axioms; Model/Registry.lean validated by acceptance of real histories "
                "(1-4 tasks, 1-2 service types, stop / halt / self-termination in between); extractor facts "
                "livenessQuery and alreadyRunningPolarity.",
        "technique": "Lean 4 proof (refinement of the registry model to a sequential specification) + regenerated wiring + linearizability check of real histories against the model",
    },
    "C05": {
        "text": "Machine-checked Lean 4 theorem C05_holds: for every wiring in which the strong handle kinds own both "
                "channel closures and the weak kinds own nothing and must upgrade (WellWired05, re-proved by decide "
                "for the wiring regenerated from src/addr*.rs, src/channel.rs, src/context.rs on every run), every "
                "run of the actor model - all handle manipulations (clone, downgrade, upgrade, convert, detach, drop "
                "in any order and from any task), submissions, timers, restarts, under every interleaving - is "
                "accepted by monC05: the final stopped() / finished() of an actor begins only if a stop was "
                "requested, it failed, its stream ended, or no strong handle exists any more; upgrading a weak handle "
                "succeeds only while a strong holder exists (a handle, an in-flight try_* / Caller::call, a timer "
                "task in the middle of its send) - hence fails for ever once none is left (Dead05 is inductive: "
                "dead_step); with no strong holder left no timer goes round again. Invariants: monitor handle table "
                "= model handle table, in-flight and sending sets cover the model's owners, stop / restart requests "
                "in the mailbox were issued, and 'the loop left idle because of a stop, the stream's end, or because "
                "nothing owns a sender'.",
        "design_ref": "DESIGN.md §5 C05",
        "note": "The second half - 'when the last strong handle is dropped it first handles every message already "
                "accepted and then terminates gracefully' - is theorem C05q_holds (monC05q; same wiring hypothesis, "
                "operation ids fresh): at every quiescent point of every run, no strong holder + no stop + no "
                "failure implies terminated, gracefully, with every acknowledged send handled. Calls whose future was "
                "dropped are drained too and never skipped (theorem C05d_holds, for runs in which only calls whose "
                "submission went through are dropped - the guard the acceptor applies). Child list and broker "
                "subscriptions as holders are exercised inside this check (actor-tree family through the system acceptor, "
                "broker family through the subscriber-lifetime driver); registry: C08. Trusted: Lean kernel + axioms; extractor facts "
                "holds/upgradeReq; Arc/Weak reference counting modelled as owner sets, validated by trace acceptance.",
        "technique": "Lean 4 proof (owner-set simulation + inductive 'nothing owns a sender' invariant) + regenerated wiring + checked trace correspondence",
    },
    "C10": {
        "text": "Machine-checked Lean 4 theorem C10_holds (no wiring hypothesis): every run of the actor model - any "
                "number of timers of the four kinds with any durations, any virtual-clock history, both mailbox kinds, "
                "any interleaving with messages, restarts and termination by any cause - is accepted by monC10: every "
                "sleep of a timer task lasts a full period / delay from the instant it is armed and is armed only "
                "after the previous sleep was over (hence consecutive deliveries of one interval are at least one "
                "period apart), no timer acts before its deadline, delayed_send / delayed_exec act at most once, and "
                "after the actor terminated no timer fires or re-arms and no callback begins. Invariant: a relational "
                "coupling (Rel2) between the model's timer table and the monitor's records (last deadline, fire count) "
                "plus 'terminated implies every timer task is dead'. The timer loops' shape (sleep first, then submit "
                "through a WeakSender) is tied to the code by acceptance of real traces with tarm/fire/tend events "
                "emitted by the controlled executor.",
        "design_ref": "DESIGN.md §5 C10",
        "note": "Leak-freedom at quiescence and tick/wake-up accounting (monC10q: every tick taken up was pushed at a "
                "wake-up that re-armed the timer; at a quiescent point no timer task is left) are theorem C10q_holds "
                "(no hypothesis). 'Never prolong the actor' is C05's timer clause (proved). Trusted: Lean kernel + "
                "axioms; virtual time in place of tokio sleep.",
        "technique": "Lean 4 proof (relational timer-table simulation, exhaustive step case analysis) + checked trace correspondence",
    },
    "C11": {
        "text": "Machine-checked Lean 4 theorem C11_holds (no wiring hypothesis): every run of the actor model - all "
                "timeout values and handler durations on the virtual clock, any message sequence with further messages "
                "queued behind the slow one, fail_on_timeout on or off, both mailbox kinds, plain or stream-attached - "
                "is accepted by monC11: an invocation is abandoned only if a timeout t is configured (never on "
                "stream-attached actors), only handler invocations are, never before begin + t; an abandoned "
                "invocation produces no further context effects; with fail_on_timeout no callback ever begins again; "
                "without a configured timeout nothing is ever abandoned. The deadline lives in the loop model "
                "(timeout_fut) and is tied to the code by acceptance of real traces in which the harness's "
                "futures-timer Delay runs on the virtual clock.",
        "design_ref": "DESIGN.md §5 C11",
        "note": "'The caller of an abandoned invocation gets an error' is theorem C11c_holds (monC11c); conversely nobody "
                "else's call is cancelled while the actor lives on: CancelErr_holds (fresh operation ids), monCancelErr "
                "in the chain. The prompt-schedule clauses (needs less than t completes, needs more is abandoned exactly "
                "at t) are theorem C11t_holds for prompt runs (prun); on real traces monC11p itself runs. A configured "
                "timeout of zero is outside the model (DESIGN 12). Trusted: Lean kernel + axioms; virtual time in place "
                "of futures-timer; select! tie at d = t excluded.",
        "technique": "Lean 4 proof (deadline/phase coupling by exhaustive step case analysis) + checked trace correspondence",
    },
    "C04": {
        "text": "Machine-checked Lean 4 theorem C04_holds: for every wiring whose loop notifies after stopped(), every "
                "run of the actor model is accepted by monC04 (announcement): awaiting any clone of the address, "
                "halt, try_halt, join and consume resolve only after the stopped callback has finished - Ok / the "
                "value exactly when termination was graceful, the termination error only when the actor failed - "
                "for every awaiter, created before or after termination. Invariants: the latch leaves `pending` "
                "exactly at the end of the task (fired iff graceful), the join result exists only after a graceful "
                "end, the monitor's flags are functions of the loop phase, the monitor-side operation table equals "
                "the model's. The order stopped()/notify() is re-extracted from both loops on every run; the "
                "negation is proved for the early-notify wiring by a concrete witness.",
        "design_ref": "DESIGN.md §5 C04",
        "note": "The drain barrier is theorem C04q_holds (monC04q, both clauses, every run; WellWired05, fresh message "
                "numbers and operation ids): a message submitted after an accepted stop request returned is never "
                "handled and its call errs; at every quiescent point after an accepted stop without failure the actor "
                "has terminated and every send acknowledged before the first stop request was handled. The mailbox stays "
                "open through stopped(): SendErr_holds (no hypothesis), monSendErr in the chain. Trusted: Lean "
                "kernel + axioms; latch/oneshot/Shared model validated by trace acceptance.",
        "technique": "Lean 4 proof (latch/result state invariants + flag/phase simulation) + regenerated wiring + checked trace correspondence",
    },
    "C17": {
        "text": "Machine-checked Lean 4 theorem C17_holds: for every wiring whose loop notifies after stopped(), every "
                "run of the actor model is accepted by monC17: join / consume yield the actor value only after the "
                "actor terminated gracefully, in its final state (the digest equals the fold of everything handled by "
                "that value, stopped() seen), and at most once per actor - for any mix of submissions, joins "
                "(repeated, concurrent), consume, detach and any termination cause. Builds on the C04 invariants plus "
                "log/result coupling (monitor fold = model log, value handed out iff result slot emptied).",
        "design_ref": "DESIGN.md §5 C17",
        "note": "The None clauses (monC17n: None / AlreadyStopped only for a join that found the slot taken, or after "
                "termination when the actor failed or the value was already handed out; a join that found the slot "
                "taken never yields a value) are theorem C17n_holds (fresh operation ids; consume is the last use of "
                "the owning address). Errors of consume (= stop + join): theorem SendErr_holds (no hypothesis) - an operation "
                "is refused with a send error only after the end of the task, the mailbox stays open through stopped() - "
                "with monSendErr in the chain. The harness also exercises join futures that are created and dropped unpolled. "
                "Trusted: Lean kernel + axioms; join-slot model (async mutex + JoinHandle) validated by trace acceptance.",
        "technique": "Lean 4 proof (result-slot and log refinement on top of the latch invariants) + regenerated wiring + checked trace correspondence",
    },
    "C13": {
        "text": "Machine-checked Lean 4 theorem C13_holds (no wiring hypothesis): every run of the actor model with an "
                "attached stream (empty, finite, never-ending, never-ready, bursty; messages interleaved; both "
                "outcomes of the select tie-break; every termination cause) is accepted by monC13: each handled item "
                "is exactly the next one the stream yielded (order, no repeats, no skips), no item or message being "
                "handled is ever abandoned (the stream loop has no deadline), finished then stopped at most once "
                "each. The stream loop of the model is tied to create_loop_on_stream by acceptance of real traces "
                "driven through a harness-controlled stream.",
        "design_ref": "DESIGN.md §5 C13",
        "note": "The quiescence clauses (monC13q: at a quiescent point without failure the actor has terminated gracefully "
                "if the stream ended, a stop was issued or no strong handle is left - even if the stream never ends - "
                "and otherwise every item yielded so far has been handled) are theorem C13q_holds (WellWired05, fresh "
                "operation ids). Trusted: Lean kernel + axioms; hand-written stream-loop model validated by trace "
                "acceptance.",
        "technique": "Lean 4 proof (item queue refinement + phase invariants by exhaustive step case analysis) + checked trace correspondence",
    },
    "C19": {
        "text": "Machine-checked Lean 4 theorems C19_holds / C19_no_bypass over Model/Types.lean: if every public "
                "entry point carries the trait bounds listed in `required`, then for ALL profiles of actor and message "
                "types every use the (modelled) compiler accepts is legitimate - a handler exists, fire-and-forget "
                "paths (send, Sender, WeakSender, timers, children, broker topics) carry unit responses, restart "
                "needs RestartableActor, with_stream only exists on the non-restartable builder state and needs a "
                "StreamHandler, recreate_from_default needs Default - and type-erased / weak handles can only be "
                "produced through entry points carrying those bounds. The bounds of the 31 entry points are "
                "re-extracted from generics, where-clauses and impl headers on every run and the instance lemma "
                "re-proved by `decide`. Correspondence: a catalogue of 74 minimal client programs (each ill-typed one "
                "paired with a well-typed twin) is compiled against /repo; rustc's verdict must equal the model's "
                "`accepts` on every program, every ill-typed program must be rejected.",
        "design_ref": "DESIGN.md §5 C19",
        "note": "Trusted: Lean kernel + axioms propext/Quot.sound; the abstraction of rustc's trait solving to bound "
                "shapes; translator's reading of signatures; the USE line of each catalogue program.",
        "technique": "Lean 4 proof (bounds table implies rule set, for all type profiles) + regenerated bounds + rustc correspondence on a catalogue",
    },
    "C18": {
        "text": "Machine-checked Lean 4 theorem C18_holds over Model/Spawn.lean (task handle in a shared slot, lazy join "
                "futures that take it at their first poll, optional detach closure, slot dies with its last owner): if no "
                "spawn entry point drops the task handle, no spawner installs a detach closure and every spawner whose "
                "runtime cancels a task on drop wraps the handle in a detach-on-drop guard, then for every entry point, "
                "every runtime and every program of drop/detach/stop/call/join/joinCreate/joinPoll/joinAwait/joinDrop "
                "operations (any length) the observable outcome equals the one on tokio, and every entry point leaves "
                "the actor running. What each entry point does with the handle, whether ActorHandle has a detaching "
                "Drop impl, whether join/detach are plain, and per spawner: detach closure, guard, lazy-shared-slot shape "
                "are re-extracted from spawner.rs, builder.rs, service.rs, actor_handle.rs, *_spawner.rs on every run and "
                "the instance lemma re-proved by `decide`. Correspondence: a catalogue of timing-independent client "
                "programs covering every spawn entry point and join futures that are created / polled / dropped "
                "independently of the owner is built and run on the three REAL runtimes; the model must predict every "
                "observation on every runtime, and the three outputs must be identical.",
        "design_ref": "DESIGN.md §5 C18, §8 D5, §15.2 D6",
        "note": "Trusted: Lean kernel + axioms; the modelled per-runtime meaning of dropping a task handle (the only "
                "runtime-dependent ingredient), validated by the real runtimes; translator's classification of the "
                "entry-point bodies; rt18 catalogue and its 1.5 s timeouts. Panics are out of scope of the family.",
        "technique": "Lean 4 proof (runtime independence by induction over handle programs) + regenerated spawn wiring + real-runtime correspondence",
    },
    "C07": {
        "text": "Machine-checked Lean 4 theorem C07_holds: for every wiring whose R::refresh calls stopped() before "
                "started() and aborts the timers registered so far, every run of the actor model is accepted by "
                "monC07: default strategy restarts the same value, recreate-from-default gives started() to a "
                "fresh Default value, a non-restartable spawn never starts twice, and no timer registered by a "
                "previous incarnation fires or re-arms once the new incarnation has started (invariant: timers of "
                "earlier incarnations are dead, dead timers never come back). The refresh facts are re-extracted "
                "from restart_strategy.rs on every run; the negation is proved for the no-abort wiring by a witness.",
        "design_ref": "DESIGN.md §5 C07, §8 D3",
        "note": "Identity across restarts as others see it: the check also runs the broker family (C09@brk09) with "
                "restartable subscribers (recreate-from-default among them) that subscribe again in started - the broker "
                "keys its table by the context id, so a restart that changed the identity shows as a duplicate delivery. "
                "The order clause (a message submitted after k accepted restart requests is handled by incarnation "
                "k+1; by incarnation 1 on a non-restartable spawn, which also keeps its repeating timers) is theorem "
                "C07o_holds (monC07o; WellWired05, fresh message numbers and operation ids). 'started error during "
                "restart terminates as failed' is covered by C03 / C06. Trusted: Lean kernel + axioms; timer model "
                "(spawned/sleeping/sending/dead/ended) validated by executor-level arm/end events.",
        "technique": "Lean 4 proof (dead-timer monotonicity + phase simulation) + regenerated wiring + checked trace correspondence",
    },
    "C03": {
        "text": "Machine-checked Lean 4 theorem C03_holds (no wiring hypothesis): the C03 monitor state is a function "
                "of the model's loop phase, so every run of the actor model (plain and stream-attached loops, all "
                "restart strategies, every termination cause, anything still queued) yields a callback sequence in "
                "the regular language started (handle|item)* [finished] stopped, repeated per processed restart, "
                "truncated by failures, with nothing afterwards and no handler after a failed started. The model's "
                "phase machine is tied to environment.rs / restart_strategy.rs by acceptance of real traces over "
                "termination cause x mailbox kind x strategy x plain/stream.",
        "design_ref": "DESIGN.md §5 C03",
        "note": "The quiescence clause (after an accepted stop and absent failures the task has ended right after a "
                "completed stopped(), monC03q) is theorem C03q_holds (no hypothesis): an accepted stop request stays in "
                "the mailbox of a live loop until the loop takes it. Trusted: Lean kernel + axioms; hand-written phase "
                "machine validated by trace acceptance; harness callback logging (drop guards).",
        "technique": "Lean 4 proof (phase/monitor simulation by exhaustive step case analysis) + checked trace correspondence",
    },
    "C15": {
        "text": "Machine-checked Lean 4 theorem C15_holds: for every wiring in which every strong handle kind "
                "(Addr, OwningAddr, Sender, Caller) owns both halves of the channel, every run of the actor model "
                "is accepted by monC15: while any strong handle exists, Context::stop/restart succeed, every weak "
                "handle upgrades, weak_address() is Some and interval timers of the running incarnation do not end. "
                "Which closures each kind owns is re-extracted from Addr's fields and the bodies of Sender::new / "
                "Caller::new / from_weak_tx on every run and the instance lemma re-proved by `decide`; the negation "
                "is proved for the Caller-holds-only-tx wiring by a concrete witness. The monitor-side handle table "
                "is proved equal to the model's. interval_with timers (monC15iw) are judged on real traces only.",
        "design_ref": "DESIGN.md §5 C15, §8 D2",
        "note": "The interval_with clause is theorem C15iw_holds (monC15iw, WellWired15). Target preservation "
                "(every handle keeps addressing the same actor) is structural in the model and trace-checked. Trusted: "
                "Lean kernel + axioms propext/Classical.choice/Quot.sound; model of Arc ownership as handle table + "
                "in-flight operations; translator's capture analysis of the constructor closures.",
        "technique": "Lean 4 proof (handle-table refinement + ownership invariant) + regenerated wiring + checked trace correspondence",
    },
    "C14": {
        "text": "Machine-checked Lean 4 theorem C14_holds: for every wiring whose liveness queries answer from the "
                "latch itself and whose loop notifies after stopped(), every run of the actor model (all programs, "
                "interleavings, termination causes, awaited or not) is accepted by the C14 monitor: every "
                "stopped()/running() on every handle equals 'the actor's task has ended'. The wiring facts "
                "(shape of Addr::stopped/running, WeakAddr::stopped, latch_resolved, order of stopped()/notify()) are "
                "re-extracted from /repo/src and re-proved by `decide` on every run; the negation is proved for the "
                "peek-only wiring by a concrete witness. Real traces (queries at every position relative to "
                "termination and to awaits) must be accepted by the model and pass the monitor.",
        "design_ref": "DESIGN.md §5 C14, §8 D1",
        "note": "Trusted: Lean kernel, axioms propext/Classical.choice/Quot.sound; model of Shared/oneshot latch "
                "(pending/fired/dropped + per-handle drained flag) validated by trace acceptance; translator's shape "
                "recognition of the query bodies. Registry reactions that depend on the queries (respawn, register-if-stopped, try_from_registry) are judged inside this check too: the registry family runs through the registry acceptor (linearizability against Spec08, whose liveness is the truthful one).",
        "technique": "Lean 4 proof (latch/doneness invariant) + regenerated wiring + checked trace correspondence",
    },
    "C12": {
        "text": "Machine-checked Lean 4 theorem C12_holds: for every wiring whose send entry points use the waiting "
                "path, every mailbox bound n (0 included) or unbounded, every label sequence of the actor model "
                "(all client programs, interleavings, timers, restarts, faults; no size bound) is accepted by the "
                "C12 monitor (#sends returned Ok - #of those taken out <= n until termination). The wiring instance "
                "lemma is re-proved by `decide` over the table regenerated from /repo/src on every run. The model is "
                "tied to the code by having it accept every trace of a sampled family of real executions, on which "
                "the same monitor is also evaluated.",
        "design_ref": "DESIGN.md §5 C12, §4, §6",
        "note": "Trusted: Lean kernel; axioms propext/Classical.choice/Quot.sound only; hand-written model of "
                "futures-channel mpsc + hannibal loop validated by trace acceptance (sampling, not proof); translator; "
                "harness executor (single-thread, poll-granular atomicity). 'every send still returns once the actor "
                "catches up or terminates' is theorem C12q_holds (no send outstanding at a quiescent point; fresh operation "
                "ids) plus clause (d) of monC02, both also run on the traces.",
        "technique": "Lean 4 proof (invariant by induction over model runs) + regenerated wiring + checked trace correspondence",
    },
}

_PENDING = "check under construction in this round: model + theorem not yet wired into ./check (see DESIGN.md build order); not claimed until its three obligations run end to end"
NOT_APPLICABLE = [
    {"property_id": p, "reason": _PENDING}
    for p in []
]
