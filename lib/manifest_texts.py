TEXTS = {
    "C12": {
        "text": "Machine-checked Lean 4 theorem C12_holds: for every wiring whose send entry points use the waiting "
                "path, every mailbox bound n (0 included) or unbounded, every label sequence of the actor model "
                "(all client programs, interleavings, timers, restarts, faults; no size bound) is accepted by the "
                "C12 monitor (#sends returned Ok - #of those taken out <= n until termination). The wiring instance "
                "lemma is re-proved by `decide` over the table regenerated from /repo/src on every run. The model is "
                "tied to the code by having it accept every trace of a sampled family of real executions, on which "
                "the same monitor is also evaluated.",
        "design_ref": "DESIGN.md §5 C12, §4, §6",
        "note": "Trusted: Lean kernel; axioms propext/Classical.choice/Quot.sound only; hand-written model of "
                "futures-channel mpsc + hannibal loop validated by trace acceptance (sampling, not proof); translator; "
                "harness executor (single-thread, poll-granular atomicity). 'every send still returns' is carried "
                "as enabledness in the model (dropRx / deq unpark) not as a temporal theorem.",
        "technique": "Lean 4 proof (invariant by induction over model runs) + regenerated wiring + checked trace correspondence",
    },
}

_PENDING = "check under construction in this round: model + theorem not yet wired into ./check (see DESIGN.md build order); not claimed until its three obligations run end to end"
NOT_APPLICABLE = [
    {"property_id": p, "reason": _PENDING}
    for p in ["C01", "C02", "C03", "C04", "C05", "C06", "C07", "C08", "C09", "C10", "C11", "C13", "C14", "C15",
              "C16", "C17", "C18", "C19"]
]
