//! Client-program DSL interpreted against the real hannibal API.

use std::{
    cell::RefCell,
    collections::{HashMap, VecDeque},
    pin::Pin,
    rc::Rc,
    sync::{Arc, Mutex},
    task::{Context as TaskCx, Poll, Waker},
    time::Duration,
};

use futures::{FutureExt, Stream, future::LocalBoxFuture};
use hannibal::{
    Addr, Broker, Caller, OwningAddr, Sender, Service, WeakAddr, WeakCaller, WeakSender, error::Result,
    prelude::Spawnable, spawner::JoinFuture,
};

use crate::exec::{Inner, TaskKind, cur, emit};
use crate::node::{Act, Bcast, Behaviour, Item, Node, Note, Reply, Req, Topic, err_kind, res_str};

// ------------------------------------------------------------ handle boxes

pub trait DynAddr {
    fn k(&self) -> usize;
    fn ctxid(&self) -> u64;
    fn stop(&mut self) -> Result<()>;
    fn restart(&mut self) -> Result<()>;
    fn halt(self: Box<Self>) -> LocalBoxFuture<'static, Result<()>>;
    fn wait_mut(&mut self) -> LocalBoxFuture<'_, Result<()>>;
    fn running(&self) -> bool;
    fn stopped(&self) -> bool;
    fn call(&self, r: Req) -> LocalBoxFuture<'_, Result<Reply>>;
    fn ping(&self) -> LocalBoxFuture<'_, Result<()>>;
    fn send(&self, n: Note) -> LocalBoxFuture<'_, Result<()>>;
    fn clone_box(&self) -> Box<dyn DynAddr>;
    fn downgrade(&self) -> Box<dyn DynWeak>;
    fn sender(&self) -> Sender<Note>;
    fn caller(&self) -> Caller<Req>;
    fn weak_sender(&self) -> WeakSender<Note>;
    fn weak_caller(&self) -> WeakCaller<Req>;
    fn sender_unit(&self) -> Sender<()>;
    fn sender_b0(&self) -> Sender<Bcast<0>>;
    fn sender_b1(&self) -> Sender<Bcast<1>>;
    fn weak_topic0(&self) -> WeakSender<Topic<0>>;
    fn weak_topic1(&self) -> WeakSender<Topic<1>>;
    fn register(self: Box<Self>) -> LocalBoxFuture<'static, Result<(Box<dyn DynAddr>, Option<Box<dyn DynAddr>>)>>;
    fn replace(self: Box<Self>) -> LocalBoxFuture<'static, Option<Box<dyn DynAddr>>>;
}

impl<const K: usize> DynAddr for Addr<Node<K>> {
    fn k(&self) -> usize {
        K
    }
    fn ctxid(&self) -> u64 {
        hannibal::verif::addr_id(self)
    }
    fn stop(&mut self) -> Result<()> {
        Addr::stop(self)
    }
    fn restart(&mut self) -> Result<()> {
        Addr::restart(self)
    }
    fn halt(self: Box<Self>) -> LocalBoxFuture<'static, Result<()>> {
        Addr::halt(*self).boxed_local()
    }
    fn wait_mut(&mut self) -> LocalBoxFuture<'_, Result<()>> {
        async move { (&mut *self).await }.boxed_local()
    }
    fn running(&self) -> bool {
        Addr::running(self)
    }
    fn stopped(&self) -> bool {
        Addr::stopped(self)
    }
    fn call(&self, r: Req) -> LocalBoxFuture<'_, Result<Reply>> {
        Addr::call(self, r).boxed_local()
    }
    fn ping(&self) -> LocalBoxFuture<'_, Result<()>> {
        Addr::ping(self).boxed_local()
    }
    fn send(&self, n: Note) -> LocalBoxFuture<'_, Result<()>> {
        Addr::send(self, n).boxed_local()
    }
    fn clone_box(&self) -> Box<dyn DynAddr> {
        Box::new(self.clone())
    }
    fn downgrade(&self) -> Box<dyn DynWeak> {
        Box::new(Addr::downgrade(self))
    }
    fn sender(&self) -> Sender<Note> {
        Addr::sender(self)
    }
    fn caller(&self) -> Caller<Req> {
        Addr::caller(self)
    }
    fn weak_sender(&self) -> WeakSender<Note> {
        Addr::weak_sender(self)
    }
    fn weak_caller(&self) -> WeakCaller<Req> {
        Addr::weak_caller(self)
    }
    fn sender_unit(&self) -> Sender<()> {
        Addr::sender(self)
    }
    fn sender_b0(&self) -> Sender<Bcast<0>> {
        Addr::sender(self)
    }
    fn sender_b1(&self) -> Sender<Bcast<1>> {
        Addr::sender(self)
    }
    fn weak_topic0(&self) -> WeakSender<Topic<0>> {
        Addr::weak_sender(self)
    }
    fn weak_topic1(&self) -> WeakSender<Topic<1>> {
        Addr::weak_sender(self)
    }
    fn register(self: Box<Self>) -> LocalBoxFuture<'static, Result<(Box<dyn DynAddr>, Option<Box<dyn DynAddr>>)>> {
        async move {
            let (me, old) = Addr::register(*self).await?;
            Ok((Box::new(me) as Box<dyn DynAddr>, old.map(|o| Box::new(o) as Box<dyn DynAddr>)))
        }
        .boxed_local()
    }
    fn replace(self: Box<Self>) -> LocalBoxFuture<'static, Option<Box<dyn DynAddr>>> {
        async move { Addr::replace(*self).await.map(|o| Box::new(o) as Box<dyn DynAddr>) }.boxed_local()
    }
}

pub trait DynWeak {
    fn upgrade(&self) -> Option<Box<dyn DynAddr>>;
    fn stopped(&self) -> bool;
    fn try_stop(&mut self) -> Result<()>;
    fn try_halt(&mut self) -> LocalBoxFuture<'_, Result<()>>;
    fn clone_box(&self) -> Box<dyn DynWeak>;
}
impl<const K: usize> DynWeak for WeakAddr<Node<K>> {
    fn upgrade(&self) -> Option<Box<dyn DynAddr>> {
        WeakAddr::upgrade(self).map(|a| Box::new(a) as Box<dyn DynAddr>)
    }
    fn stopped(&self) -> bool {
        WeakAddr::stopped(self)
    }
    fn try_stop(&mut self) -> Result<()> {
        WeakAddr::try_stop(self)
    }
    fn try_halt(&mut self) -> LocalBoxFuture<'_, Result<()>> {
        WeakAddr::try_halt(self).boxed_local()
    }
    fn clone_box(&self) -> Box<dyn DynWeak> {
        Box::new(self.clone())
    }
}

pub trait DynOwning {
    fn as_addr(&self) -> &dyn DynAddr;
    fn as_addr_mut_stop(&mut self) -> Result<()>;
    fn join(&mut self) -> LocalBoxFuture<'static, Option<String>>;
    fn consume(self: Box<Self>) -> LocalBoxFuture<'static, Result<String>>;
    /// `consume_sync`: stop, hand the join future out, drop the owner
    fn consume_sync(self: Box<Self>) -> Result<LocalBoxFuture<'static, Option<String>>>;
    fn to_addr(&self) -> Box<dyn DynAddr>;
    fn detach(self: Box<Self>) -> Box<dyn DynAddr>;
}
fn final_digest<const K: usize>(n: &Node<K>) -> String {
    format!("{} {} {}", n.birth, u8::from(n.stopped_seen), n.digest())
}
impl<const K: usize> DynOwning for OwningAddr<Node<K>> {
    fn as_addr(&self) -> &dyn DynAddr {
        OwningAddr::as_addr(self)
    }
    fn as_addr_mut_stop(&mut self) -> Result<()> {
        // OwningAddr exposes no `stop`; `consume` is the stop entry point
        Err(hannibal::error::ActorError::AlreadyStopped)
    }
    fn join(&mut self) -> LocalBoxFuture<'static, Option<String>> {
        let f: JoinFuture<Node<K>> = OwningAddr::join(self);
        async move { f.await.map(|n| final_digest(&n)) }.boxed_local()
    }
    fn consume(self: Box<Self>) -> LocalBoxFuture<'static, Result<String>> {
        async move { OwningAddr::consume(*self).await.map(|n| final_digest(&n)) }.boxed_local()
    }
    fn consume_sync(self: Box<Self>) -> Result<LocalBoxFuture<'static, Option<String>>> {
        let f: JoinFuture<Node<K>> = OwningAddr::consume_sync(*self)?;
        Ok(async move { f.await.map(|n| final_digest(&n)) }.boxed_local())
    }
    fn to_addr(&self) -> Box<dyn DynAddr> {
        Box::new(OwningAddr::to_addr(self))
    }
    fn detach(self: Box<Self>) -> Box<dyn DynAddr> {
        Box::new(OwningAddr::detach(*self))
    }
}

/// A handle of any kind; the `usize` is the actor id it was derived from
/// (usize::MAX if not statically known).
pub enum HandleBox {
    Addr(usize, Box<dyn DynAddr>),
    Owning(usize, Box<dyn DynOwning>),
    Weak(usize, Box<dyn DynWeak>),
    SenderNote(usize, Sender<Note>),
    CallerReq(usize, Caller<Req>),
    WeakSenderNote(usize, WeakSender<Note>),
    WeakCallerReq(usize, WeakCaller<Req>),
    SenderUnit(usize, Sender<()>),
    SenderB0(Sender<Bcast<0>>),
    SenderB1(Sender<Bcast<1>>),
}

thread_local! {
    /// per client: the broker address it obtained once and keeps publishing through
    static BROKER0: RefCell<HashMap<usize, Addr<Broker<Topic<0>>>>> = RefCell::new(HashMap::new());
    static BROKER1: RefCell<HashMap<usize, Addr<Broker<Topic<1>>>>> = RefCell::new(HashMap::new());
    pub static POOL: RefCell<HashMap<usize, HandleBox>> = RefCell::new(HashMap::new());
    /// context id -> actor id, learned when an actor's `started` runs
    pub static CTXMAP: RefCell<HashMap<u64, usize>> = RefCell::new(HashMap::new());
    pub static STREAMS: RefCell<HashMap<usize, Arc<Mutex<StreamState>>>> = RefCell::new(HashMap::new());
}

impl HandleBox {
    pub fn weak_addr<const K: usize>(a: usize, w: WeakAddr<Node<K>>) -> Self {
        HandleBox::Weak(a, Box::new(w))
    }
    pub fn addr_unknown<const K: usize>(addr: Addr<Node<K>>) -> Self {
        let id = CTXMAP.with(|m| m.borrow().get(&hannibal::verif::addr_id(&addr)).copied()).unwrap_or(usize::MAX);
        HandleBox::Addr(id, Box::new(addr))
    }
    pub fn kind(&self) -> &'static str {
        match self {
            HandleBox::Addr(..) => "addr",
            HandleBox::Owning(..) => "owning",
            HandleBox::Weak(..) => "weakaddr",
            HandleBox::SenderNote(..) => "sender",
            HandleBox::CallerReq(..) => "caller",
            HandleBox::WeakSenderNote(..) => "weaksender",
            HandleBox::WeakCallerReq(..) => "weakcaller",
            HandleBox::SenderUnit(..) => "senderunit",
            HandleBox::SenderB0(..) => "senderb0",
            HandleBox::SenderB1(..) => "senderb1",
        }
    }
}

pub fn aid(a: usize) -> String {
    if a == usize::MAX { "-".into() } else { a.to_string() }
}

// ------------------------------------------------------------ controlled stream

#[derive(Default)]
pub struct StreamState {
    items: VecDeque<usize>,
    ended: bool,
    waker: Option<Waker>,
}
pub struct CtlStream(Arc<Mutex<StreamState>>, usize);
impl Stream for CtlStream {
    type Item = Item;
    fn poll_next(self: Pin<&mut Self>, cx: &mut TaskCx<'_>) -> Poll<Option<Item>> {
        let mut s = self.0.lock().unwrap();
        if let Some(k) = s.items.pop_front() {
            Poll::Ready(Some(Item(k)))
        } else if s.ended {
            Poll::Ready(None)
        } else {
            s.waker = Some(cx.waker().clone());
            Poll::Pending
        }
    }
}

// ------------------------------------------------------------ programs

#[derive(Clone, Copy, Debug, PartialEq)]
pub enum Strat {
    Only,
    Recreate,
    Non,
}

#[derive(Clone, Debug)]
pub struct SpawnSpec {
    pub k: usize,
    pub cap: Option<usize>,
    pub strat: Strat,
    pub timeout: Option<u64>,
    pub fail: bool,
    pub stream: bool,
    pub owning: bool,
    /// use the trait entry points (`spawn`, `spawn_owning`) instead of the builder
    pub plain_entry: bool,
    pub behaviour: Behaviour,
}

#[derive(Clone, Debug)]
pub enum Op {
    Spawn { a: usize, spec: SpawnSpec, h: usize },
    Send { h: usize, m: usize, script: Vec<Act> },
    Call { h: usize, m: usize, script: Vec<Act> },
    /// several `Sender::send` futures created first and only then driven together (`join_all`): the submission point
    /// of each is its first poll, not its creation (only on sender handles)
    SendBatch { h: usize, msgs: Vec<(usize, Vec<Act>)> },
    /// `WeakSender::try_force_send`: upgrade + forced submission, never waits (only on weak-sender handles)
    ForceSend { h: usize, m: usize, script: Vec<Act> },
    /// begin a call, drop its future if it has not returned after `after` ms
    CallCancel { h: usize, m: usize, script: Vec<Act>, after: u64 },
    Ping { h: usize },
    Halt { h: usize },
    Await { h: usize },
    Join { h: usize },
    /// create a join future and drop it without ever polling it (must have no effect)
    JoinDiscard { h: usize },
    Consume { h: usize },
    /// `OwningAddr::consume_sync` followed by awaiting the future it returned
    ConsumeSync { h: usize },
    TryHalt { h: usize },
    Stop { h: usize },
    Restart { h: usize },
    TryStop { h: usize },
    Clone { h: usize, h2: usize },
    Downgrade { h: usize, h2: usize },
    Upgrade { h: usize, h2: usize },
    MkSender { h: usize, h2: usize },
    MkCaller { h: usize, h2: usize },
    MkWeakSender { h: usize, h2: usize },
    MkWeakCaller { h: usize, h2: usize },
    MkSenderUnit { h: usize, h2: usize },
    MkSenderB { j: usize, h: usize, h2: usize },
    ToAddr { h: usize, h2: usize },
    Detach { h: usize, h2: usize },
    Drop { h: usize },
    Stopped { h: usize },
    Running { h: usize },
    Sleep(u64),
    Yield,
    StreamReady { a: usize, k: usize },
    StreamEnd { a: usize },
    /// `n` stream items become ready at once (an always-ready stream for a while)
    StreamBurst { a: usize, from: usize, n: usize },
    /// create a join future, poll it once and keep it pending; it is resumed when the client's program ends
    JoinPark { h: usize },
    FromRegistry { k: usize, h2: usize },
    Setup { k: usize },
    Register { h: usize, h2: usize, h3: usize },
    Replace { h: usize, h3: usize },
    Unregister { k: usize, h2: usize },
    TryFromRegistry { k: usize, h2: usize },
    AlreadyRunning { k: usize },
    Publish { j: usize, m: usize, via: usize },
    /// a client subscribes / unsubscribes the actor behind address handle `h`
    BSubscribe { j: usize, h: usize },
    BUnsubscribe { j: usize, h: usize },
    SetDefaultBehaviour(Behaviour),
}

#[derive(Clone, Debug, Default)]
pub struct Program {
    /// executed first (by client 0's task) before the other clients are launched
    pub setup: Vec<Op>,
    pub clients: Vec<Vec<Op>>,
}

thread_local! {
    static NEXT_OP: RefCell<usize> = const { RefCell::new(0) };
    pub static PENDING: RefCell<Vec<usize>> = const { RefCell::new(Vec::new()) };
    /// handles whose own latch clone was polled to completion (polling them again is a
    /// contract violation of `Future`, so the interpreter never awaits them a second time)
    pub static DRAINED: RefCell<Vec<usize>> = const { RefCell::new(Vec::new()) };
    /// join futures polled once and kept pending: (client, operation, future)
    pub static PARKED: RefCell<Vec<(usize, usize, LocalBoxFuture<'static, Option<String>>)>> = RefCell::new(Vec::new());
}

/// resume the join futures the client parked (called when its program ends)
pub async fn resume_parked(c: usize) {
    loop {
        let next = PARKED.with(|p| {
            let mut p = p.borrow_mut();
            p.iter().position(|x| x.0 == c).map(|i| p.remove(i))
        });
        let Some((_, o, f)) = next else { break };
        let r = f.await;
        ret(o, match r {
            Some(d) => format!("some {}", d),
            None => "none".into(),
        });
    }
}
pub fn reset_ops() {
    NEXT_OP.with(|n| *n.borrow_mut() = 0);
    PENDING.with(|p| p.borrow_mut().clear());
    DRAINED.with(|p| p.borrow_mut().clear());
    PARKED.with(|p| p.borrow_mut().clear());
    POOL.with(|p| p.borrow_mut().clear());
    CTXMAP.with(|p| p.borrow_mut().clear());
    STREAMS.with(|p| p.borrow_mut().clear());
}
pub fn fresh_op() -> usize {
    NEXT_OP.with(|n| {
        let mut n = n.borrow_mut();
        let v = *n;
        *n += 1;
        v
    })
}

fn drained(h: usize) -> bool {
    DRAINED.with(|d| d.borrow().contains(&h))
}
fn inherit_drained(h: usize, h2: usize) {
    if drained(h) {
        DRAINED.with(|d| d.borrow_mut().push(h2));
    }
}
fn take(h: usize) -> Option<HandleBox> {
    POOL.with(|p| p.borrow_mut().remove(&h))
}
fn put(h: usize, b: HandleBox) {
    POOL.with(|p| p.borrow_mut().insert(h, b));
}

fn begin(c: usize, h: usize, op: &str, m: Option<usize>) -> usize {
    let o = fresh_op();
    emit(format!("begin {} {} {} {} {}", o, c, aid(h), op, m.map(|m| m.to_string()).unwrap_or("-".into())));
    PENDING.with(|p| p.borrow_mut().push(o));
    o
}
thread_local! {
    /// registry operation in flight per client task (so that a default-constructed service instance can say who spawned it)
    pub static CUR_REG: RefCell<std::collections::HashMap<usize, usize>> = RefCell::new(std::collections::HashMap::new());
}
fn rbegin(c: usize, op: &str, k: usize, inst: Option<usize>) -> usize {
    let o = fresh_op();
    emit(format!("rbegin {} {} {} {} {}", o, c, op, k, inst.map(aid).unwrap_or("-".into())));
    PENDING.with(|p| p.borrow_mut().push(o));
    CUR_REG.with(|m| m.borrow_mut().insert(c, o));
    o
}
fn rret(c: usize, o: usize, r: String) {
    PENDING.with(|p| p.borrow_mut().retain(|x| *x != o));
    CUR_REG.with(|m| m.borrow_mut().remove(&c));
    emit(format!("rret {} {}", o, r));
}
fn ret(o: usize, r: String) {
    PENDING.with(|p| p.borrow_mut().retain(|x| *x != o));
    emit(format!("ret {} {}", o, r));
}
fn reply_str(r: &Result<Reply>) -> String {
    match r {
        Ok(rep) => format!("ok {} {} {} {}", rep.m, rep.actor, rep.birth, rep.digest),
        Err(e) => format!("err {}", err_kind(e)),
    }
}

fn spawn_node<const K: usize>(a: usize, spec: &SpawnSpec) -> HandleBox {
    let node = Node::<K>::new(a);
    let stream = if spec.stream {
        let st = Arc::new(Mutex::new(StreamState::default()));
        STREAMS.with(|s| s.borrow_mut().insert(a, st.clone()));
        Some(CtlStream(st, a))
    } else {
        None
    };
    if spec.plain_entry && !spec.stream {
        return if spec.owning {
            HandleBox::Owning(a, Box::new(node.spawn_owning()))
        } else {
            HandleBox::Addr(a, Box::new(node.spawn()))
        };
    }
    let mut b = hannibal::build(node);
    if let Some(t) = spec.timeout {
        b = b.timeout(Duration::from_millis(t)).fail_on_timeout(spec.fail);
    }
    let wc = match spec.cap {
        Some(n) => b.bounded(n),
        None => b.unbounded(),
    };
    macro_rules! fin {
        ($x:expr) => {
            if spec.owning {
                HandleBox::Owning(a, Box::new($x.spawn_owning()))
            } else {
                HandleBox::Addr(a, Box::new($x.spawn()))
            }
        };
    }
    match (stream, spec.strat) {
        (Some(s), _) => fin!(wc.non_restartable().with_stream(s)),
        (None, Strat::Only) => fin!(wc),
        (None, Strat::Recreate) => fin!(wc.recreate_from_default()),
        (None, Strat::Non) => fin!(wc.non_restartable()),
    }
}

fn strat_str(s: Strat) -> &'static str {
    match s {
        Strat::Only => "only",
        Strat::Recreate => "recreate",
        Strat::Non => "non",
    }
}
fn opt_str(o: Option<impl ToString>) -> String {
    o.map(|v| v.to_string()).unwrap_or("-".into())
}

/// Executes one client operation. Skips silently if the handle is not available
/// or of the wrong kind (the generator mostly avoids that).
async fn exec_op(c: usize, op: Op) {
    match op {
        Op::Spawn { a, spec, h } => {
            crate::node::BEHAV.with(|b| b.borrow_mut().insert(a, spec.behaviour.clone()));
            emit(format!(
                "spawn {} {} {} {} {} {} {} {}",
                a,
                h,
                if spec.owning { "owning" } else { "addr" },
                opt_str(spec.cap),
                if spec.stream { "non" } else { strat_str(spec.strat) },
                opt_str(if spec.stream { None } else { spec.timeout }),
                u8::from(spec.fail),
                u8::from(spec.stream)
            ));
            let hb = match spec.k {
                0 => spawn_node::<0>(a, &spec),
                1 => spawn_node::<1>(a, &spec),
                _ => spawn_node::<2>(a, &spec),
            };
            if let HandleBox::Addr(a, addr) = &hb {
                // identity is known from the moment of the spawn, not only once `started` ran
                CTXMAP.with(|m| m.borrow_mut().insert(addr.ctxid(), *a));
            }
            put(h, hb);
        }
        Op::Send { h, m, script } => {
            let Some(hb) = take(h) else { return };
            let note = Note { m, script };
            match &hb {
                HandleBox::Addr(_, a) => {
                    let o = begin(c, h, "send", Some(m));
                    let r = a.send(note).await;
                    ret(o, res_str(&r));
                }
                HandleBox::Owning(_, a) => {
                    let o = begin(c, h, "send", Some(m));
                    let r = a.as_addr().send(note).await;
                    ret(o, res_str(&r));
                }
                HandleBox::SenderNote(_, s) => {
                    let o = begin(c, h, "send", Some(m));
                    let r = s.send(note).await;
                    ret(o, res_str(&r));
                }
                HandleBox::WeakSenderNote(_, s) => {
                    let o = begin(c, h, "try_send", Some(m));
                    let r = s.try_send(note).await;
                    ret(o, res_str(&r));
                }
                _ => {}
            }
            put(h, hb);
        }
        Op::SendBatch { h, msgs } => {
            let Some(hb) = take(h) else { return };
            if let HandleBox::SenderNote(_, s) = &hb {
                // all futures exist before any of them is polled
                let futs: Vec<_> = msgs.into_iter().map(|(m, script)| (m, s.send(Note { m, script }))).collect();
                let wrapped = futs.into_iter().map(|(m, f)| async move {
                    let o = begin(c, h, "send", Some(m));
                    let r = f.await;
                    ret(o, res_str(&r));
                });
                futures::future::join_all(wrapped).await;
            }
            put(h, hb);
        }
        Op::ForceSend { h, m, script } => {
            let Some(hb) = take(h) else { return };
            if let HandleBox::WeakSenderNote(_, s) = &hb {
                let o = begin(c, h, "try_force_send", Some(m));
                let r = s.try_force_send(Note { m, script });
                ret(o, res_str(&r));
            }
            put(h, hb);
        }
        Op::Call { h, m, script } => {
            let Some(hb) = take(h) else { return };
            let req = Req { m, script };
            match &hb {
                HandleBox::Addr(_, a) => {
                    let o = begin(c, h, "call", Some(m));
                    let r = a.call(req).await;
                    ret(o, reply_str(&r));
                }
                HandleBox::Owning(_, a) => {
                    let o = begin(c, h, "call", Some(m));
                    let r = a.as_addr().call(req).await;
                    ret(o, reply_str(&r));
                }
                HandleBox::CallerReq(_, s) => {
                    let o = begin(c, h, "callw", Some(m));
                    let r = s.call(req).await;
                    ret(o, reply_str(&r));
                }
                HandleBox::WeakCallerReq(_, s) => {
                    let o = begin(c, h, "try_call", Some(m));
                    let r = s.try_call(req).await;
                    ret(o, reply_str(&r));
                }
                _ => {}
            }
            put(h, hb);
        }
        Op::CallCancel { h, m, script, after } => {
            let Some(hb) = take(h) else { return };
            let req = Req { m, script };
            let timer = cur().sleep(after);
            {
            let fut: Option<(usize, LocalBoxFuture<'_, Result<Reply>>)> = match &hb {
                HandleBox::Addr(_, a) => Some((begin(c, h, "call", Some(m)), a.call(req))),
                HandleBox::Owning(_, a) => Some((begin(c, h, "call", Some(m)), a.as_addr().call(req))),
                HandleBox::CallerReq(_, s) => Some((begin(c, h, "callw", Some(m)), s.call(req).boxed_local())),
                _ => None,
            };
              if let Some((o, f)) = fut {
                let mut f = f.fuse();
                let mut timer = Box::pin(timer).fuse();
                // poll the call first so that `begin` is its submission point
                let r = futures::future::poll_fn(|cx| {
                    if let Poll::Ready(r) = f.poll_unpin(cx) {
                        return Poll::Ready(Some(r));
                    }
                    if timer.poll_unpin(cx).is_ready() {
                        return Poll::Ready(None);
                    }
                    Poll::Pending
                })
                .await;
                match r {
                    Some(r) => ret(o, reply_str(&r)),
                    None => {
                        drop(f);
                        PENDING.with(|p| p.borrow_mut().retain(|x| *x != o));
                        emit(format!("cdrop {}", o));
                    }
                }
              }
            }
            put(h, hb);
        }
        Op::Ping { h } => {
            let Some(hb) = take(h) else { return };
            match &hb {
                HandleBox::Addr(_, a) => {
                    let o = begin(c, h, "ping", None);
                    let r = a.ping().await;
                    ret(o, res_str(&r));
                }
                HandleBox::Owning(_, a) => {
                    let o = begin(c, h, "ping", None);
                    let r = a.as_addr().ping().await;
                    ret(o, res_str(&r));
                }
                _ => {}
            }
            put(h, hb);
        }
        Op::Halt { h } => {
            if drained(h) {
                return;
            }
            let Some(hb) = take(h) else { return };
            match hb {
                HandleBox::Addr(_, a) => {
                    let o = begin(c, h, "halt", None);
                    let r = a.halt().await;
                    ret(o, res_str(&r));
                }
                other => put(h, other),
            }
        }
        Op::TryHalt { h } => {
            if drained(h) {
                return;
            }
            let Some(mut hb) = take(h) else { return };
            if let HandleBox::Weak(_, w) = &mut hb {
                let o = begin(c, h, "try_halt", None);
                let r = w.try_halt().await;
                ret(o, res_str(&r));
            }
            put(h, hb);
        }
        Op::Await { h } => {
            if drained(h) {
                return;
            }
            let Some(mut hb) = take(h) else { return };
            if let HandleBox::Addr(_, a) = &mut hb {
                let o = begin(c, h, "await", None);
                let r = a.wait_mut().await;
                DRAINED.with(|d| d.borrow_mut().push(h));
                ret(o, res_str(&r));
            }
            put(h, hb);
        }
        Op::Join { h } => {
            let Some(mut hb) = take(h) else { return };
            let f = if let HandleBox::Owning(_, ow) = &mut hb {
                let o = begin(c, h, "join", None);
                Some((o, ow.join()))
            } else {
                None
            };
            // the join future is 'static: the handle goes back before awaiting
            put(h, hb);
            if let Some((o, f)) = f {
                let r = f.await;
                ret(o, match r {
                    Some(d) => format!("some {}", d),
                    None => "none".into(),
                });
            }
        }
        Op::JoinPark { h } => {
            let Some(mut hb) = take(h) else { return };
            let f = if let HandleBox::Owning(_, ow) = &mut hb {
                let o = begin(c, h, "join", None);
                Some((o, ow.join()))
            } else {
                None
            };
            put(h, hb);
            if let Some((o, mut f)) = f {
                match futures::poll!(&mut f) {
                    std::task::Poll::Ready(r) => ret(o, match r {
                        Some(d) => format!("some {}", d),
                        None => "none".into(),
                    }),
                    std::task::Poll::Pending => PARKED.with(|p| p.borrow_mut().push((c, o, f))),
                }
            }
        }
        Op::JoinDiscard { h } => {
            let Some(mut hb) = take(h) else { return };
            if let HandleBox::Owning(_, ow) = &mut hb {
                let f = ow.join();
                drop(f);
            }
            put(h, hb);
        }
        Op::ConsumeSync { h } => {
            // observably `consume` whose owner is gone as soon as the stop request is in: the same labels, plus the
            // `drop` of the owning address right after the submission point
            let Some(hb) = take(h) else { return };
            match hb {
                HandleBox::Owning(_, ow) => {
                    let o = begin(c, h, "consume", None);
                    match ow.consume_sync() {
                        Err(e) => ret(o, format!("err {}", err_kind(&e))),
                        Ok(f) => {
                            emit(format!("sync {} {} drop ok", c, h));
                            let r = f.await;
                            ret(o, match r {
                                Some(d) => format!("some {}", d),
                                None => "err already_stopped".into(),
                            });
                        }
                    }
                }
                other => put(h, other),
            }
        }
        Op::Consume { h } => {
            let Some(hb) = take(h) else { return };
            match hb {
                HandleBox::Owning(_, ow) => {
                    let o = begin(c, h, "consume", None);
                    let r = ow.consume().await;
                    ret(o, match r {
                        Ok(d) => format!("some {}", d),
                        Err(e) => format!("err {}", err_kind(&e)),
                    });
                }
                other => put(h, other),
            }
        }
        Op::Stop { h } => {
            let Some(mut hb) = take(h) else { return };
            if let HandleBox::Addr(_, a) = &mut hb {
                let r = a.stop();
                emit(format!("sync {} {} stop {}", c, h, res_str(&r)));
            }
            put(h, hb);
        }
        Op::Restart { h } => {
            let Some(mut hb) = take(h) else { return };
            if let HandleBox::Addr(_, a) = &mut hb {
                let r = a.restart();
                emit(format!("sync {} {} restart {}", c, h, res_str(&r)));
            }
            put(h, hb);
        }
        Op::TryStop { h } => {
            let Some(mut hb) = take(h) else { return };
            if let HandleBox::Weak(_, w) = &mut hb {
                let r = w.try_stop();
                emit(format!("sync {} {} try_stop {}", c, h, res_str(&r)));
            }
            put(h, hb);
        }
        Op::Clone { h, h2 } => {
            let Some(hb) = take(h) else { return };
            let n = match &hb {
                HandleBox::Addr(a, x) => Some(HandleBox::Addr(*a, x.clone_box())),
                HandleBox::Weak(a, x) => Some(HandleBox::Weak(*a, x.clone_box())),
                HandleBox::SenderNote(a, x) => Some(HandleBox::SenderNote(*a, x.clone())),
                HandleBox::CallerReq(a, x) => Some(HandleBox::CallerReq(*a, x.clone())),
                HandleBox::WeakSenderNote(a, x) => Some(HandleBox::WeakSenderNote(*a, x.clone())),
                HandleBox::WeakCallerReq(a, x) => Some(HandleBox::WeakCallerReq(*a, x.clone())),
                _ => None,
            };
            if let Some(n) = n {
                emit(format!("sync {} {} clone ok {}", c, h, h2));
                inherit_drained(h, h2);
                put(h2, n);
            }
            put(h, hb);
        }
        Op::Downgrade { h, h2 } => {
            let Some(hb) = take(h) else { return };
            let n = match &hb {
                HandleBox::Addr(a, x) => Some(HandleBox::Weak(*a, x.downgrade())),
                HandleBox::Owning(a, x) => Some(HandleBox::Weak(*a, x.as_addr().downgrade())),
                HandleBox::SenderNote(a, x) => Some(HandleBox::WeakSenderNote(*a, x.downgrade())),
                HandleBox::CallerReq(a, x) => Some(HandleBox::WeakCallerReq(*a, x.downgrade())),
                _ => None,
            };
            if let Some(n) = n {
                emit(format!("sync {} {} downgrade ok {}", c, h, h2));
                inherit_drained(h, h2);
                put(h2, n);
            }
            put(h, hb);
        }
        Op::Upgrade { h, h2 } => {
            let Some(hb) = take(h) else { return };
            let n: Option<Option<HandleBox>> = match &hb {
                HandleBox::Weak(a, x) => Some(x.upgrade().map(|u| HandleBox::Addr(*a, u))),
                HandleBox::WeakSenderNote(a, x) => Some(x.upgrade().map(|u| HandleBox::SenderNote(*a, u))),
                HandleBox::WeakCallerReq(a, x) => Some(x.upgrade().map(|u| HandleBox::CallerReq(*a, u))),
                _ => None,
            };
            match n {
                Some(Some(n)) => {
                    emit(format!("sync {} {} upgrade ok {}", c, h, h2));
                    inherit_drained(h, h2);
                    put(h2, n);
                }
                Some(None) => emit(format!("sync {} {} upgrade none", c, h)),
                None => {}
            }
            put(h, hb);
        }
        Op::MkSender { h, h2 } | Op::MkCaller { h, h2 } | Op::MkWeakSender { h, h2 } | Op::MkWeakCaller { h, h2 }
        | Op::MkSenderUnit { h, h2 } | Op::MkSenderB { h, h2, .. } | Op::ToAddr { h, h2 } => {
            let Some(hb) = take(h) else { return };
            let (a, addr): (usize, Option<&dyn DynAddr>) = match &hb {
                HandleBox::Addr(a, x) => (*a, Some(&**x)),
                HandleBox::Owning(a, x) => (*a, Some(x.as_addr())),
                _ => (0, None),
            };
            if let Some(addr) = addr {
                let (name, n) = match &op_kind(&op) {
                    1 => ("sender", HandleBox::SenderNote(a, addr.sender())),
                    2 => ("caller", HandleBox::CallerReq(a, addr.caller())),
                    3 => ("weak_sender", HandleBox::WeakSenderNote(a, addr.weak_sender())),
                    4 => ("weak_caller", HandleBox::WeakCallerReq(a, addr.weak_caller())),
                    5 => ("sender", HandleBox::SenderUnit(a, addr.sender_unit())),
                    6 => ("sender", HandleBox::SenderB0(addr.sender_b0())),
                    7 => ("sender", HandleBox::SenderB1(addr.sender_b1())),
                    _ => ("to_addr", HandleBox::Addr(a, addr.clone_box())),
                };
                emit(format!("sync {} {} {} ok {}", c, h, name, h2));
                inherit_drained(h, h2);
                put(h2, n);
            }
            put(h, hb);
        }
        Op::Detach { h, h2 } => {
            let Some(hb) = take(h) else { return };
            match hb {
                HandleBox::Owning(a, ow) => {
                    let addr = ow.detach();
                    emit(format!("sync {} {} detach ok {}", c, h, h2));
                    put(h2, HandleBox::Addr(a, addr));
                }
                other => put(h, other),
            }
        }
        Op::Drop { h } => {
            if let Some(hb) = take(h) {
                emit(format!("sync {} {} drop ok", c, h));
                drop(hb);
            }
        }
        Op::Stopped { h } => {
            let Some(hb) = take(h) else { return };
            match &hb {
                HandleBox::Addr(_, a) => emit(format!("sync {} {} stopped? {}", c, h, u8::from(a.stopped()))),
                HandleBox::Owning(_, a) => emit(format!("sync {} {} stopped? {}", c, h, u8::from(a.as_addr().stopped()))),
                HandleBox::Weak(_, a) => emit(format!("sync {} {} stopped? {}", c, h, u8::from(a.stopped()))),
                _ => {}
            }
            put(h, hb);
        }
        Op::Running { h } => {
            let Some(hb) = take(h) else { return };
            match &hb {
                HandleBox::Addr(_, a) => emit(format!("sync {} {} running? {}", c, h, u8::from(a.running()))),
                HandleBox::Owning(_, a) => emit(format!("sync {} {} running? {}", c, h, u8::from(a.as_addr().running()))),
                _ => {}
            }
            put(h, hb);
        }
        Op::Sleep(d) => {
            let f = cur().sleep(d);
            f.await;
        }
        Op::Yield => {
            let mut first = true;
            futures::future::poll_fn(move |cx| {
                if first {
                    first = false;
                    cx.waker().wake_by_ref();
                    Poll::Pending
                } else {
                    Poll::Ready(())
                }
            })
            .await
        }
        Op::StreamReady { a, k } => {
            let st = STREAMS.with(|s| s.borrow().get(&a).cloned());
            if let Some(st) = st {
                let mut s = st.lock().unwrap();
                if !s.ended {
                    s.items.push_back(k);
                    emit(format!("stream {} ready {}", a, k));
                    if let Some(w) = s.waker.take() {
                        w.wake();
                    }
                }
            }
        }
        Op::StreamBurst { a, from, n } => {
            let st = STREAMS.with(|s| s.borrow().get(&a).cloned());
            if let Some(st) = st {
                let mut s = st.lock().unwrap();
                if !s.ended {
                    for k in from..from + n {
                        s.items.push_back(k);
                        emit(format!("stream {} ready {}", a, k));
                    }
                    if let Some(w) = s.waker.take() {
                        w.wake();
                    }
                }
            }
        }
        Op::StreamEnd { a } => {
            let st = STREAMS.with(|s| s.borrow().get(&a).cloned());
            if let Some(st) = st {
                let mut s = st.lock().unwrap();
                if !s.ended {
                    s.ended = true;
                    emit(format!("stream {} end", a));
                    if let Some(w) = s.waker.take() {
                        w.wake();
                    }
                }
            }
        }
        Op::SetDefaultBehaviour(b) => {
            crate::node::DEFAULT_BEHAV.with(|d| *d.borrow_mut() = b);
        }
        Op::FromRegistry { k, h2 } => {
            let o = rbegin(c, "from_registry", k, None);
            let hb = match k {
                1 => HandleBox::addr_unknown(Node::<1>::from_registry().await),
                _ => HandleBox::addr_unknown(Node::<2>::from_registry().await),
            };
            let a = if let HandleBox::Addr(a, _) = &hb { *a } else { usize::MAX };
            rret(c, o, format!("inst {}", aid(a)));
            emit(format!("rhandle {} {}", h2, aid(a)));
            put(h2, hb);
        }
        Op::Setup { k } => {
            let o = rbegin(c, "setup", k, None);
            let r = match k {
                1 => Node::<1>::setup().await,
                _ => Node::<2>::setup().await,
            };
            rret(c, o, if r.is_ok() { "unit".into() } else { "err".into() });
        }
        Op::Register { h, h2, h3 } => {
            let Some(hb) = take(h) else { return };
            match hb {
                HandleBox::Addr(a, addr) if addr.k() != 0 => {
                    let o = rbegin(c, "register", addr.k(), Some(a));
                    // on failure the address is consumed by the API
                    match addr.register().await {
                        Ok((me, old)) => {
                            put(h2, HandleBox::Addr(a, me));
                            emit(format!("rhandle {} {}", h2, aid(a)));
                            match old {
                                Some(old) => {
                                    let oa = CTXMAP.with(|m| m.borrow().get(&old.ctxid()).copied()).unwrap_or(usize::MAX);
                                    put(h3, HandleBox::Addr(oa, old));
                                    emit(format!("rhandle {} {}", h3, aid(oa)));
                                    rret(c, o, format!("registered {}", aid(oa)));
                                }
                                None => rret(c, o, "registered none".into()),
                            }
                        }
                        Err(_) => rret(c, o, "still_running".into()),
                    }
                }
                other => put(h, other),
            }
        }
        Op::Replace { h, h3 } => {
            let Some(hb) = take(h) else { return };
            match hb {
                HandleBox::Addr(a, addr) if addr.k() != 0 => {
                    let o = rbegin(c, "replace", addr.k(), Some(a));
                    match addr.replace().await {
                        Some(old) => {
                            let oa = CTXMAP.with(|m| m.borrow().get(&old.ctxid()).copied()).unwrap_or(usize::MAX);
                            put(h3, HandleBox::Addr(oa, old));
                            emit(format!("rhandle {} {}", h3, aid(oa)));
                            rret(c, o, format!("prev {}", aid(oa)));
                        }
                        None => rret(c, o, "prev none".into()),
                    }
                }
                other => put(h, other),
            }
        }
        Op::Unregister { k, h2 } => {
            let o = rbegin(c, "unregister", k, None);
            let old: Option<Box<dyn DynAddr>> = match k {
                1 => Addr::<Node<1>>::unregister().await.map(|a| Box::new(a) as Box<dyn DynAddr>),
                _ => Addr::<Node<2>>::unregister().await.map(|a| Box::new(a) as Box<dyn DynAddr>),
            };
            match old {
                Some(old) => {
                    let oa = CTXMAP.with(|m| m.borrow().get(&old.ctxid()).copied()).unwrap_or(usize::MAX);
                    put(h2, HandleBox::Addr(oa, old));
                    emit(format!("rhandle {} {}", h2, aid(oa)));
                    rret(c, o, format!("prev {}", aid(oa)));
                }
                None => rret(c, o, "prev none".into()),
            }
        }
        Op::TryFromRegistry { k, h2 } => {
            let got: Option<Box<dyn DynAddr>> = match k {
                1 => Node::<1>::try_from_registry().map(|a| Box::new(a) as Box<dyn DynAddr>),
                _ => Node::<2>::try_from_registry().map(|a| Box::new(a) as Box<dyn DynAddr>),
            };
            match got {
                Some(x) => {
                    let oa = CTXMAP.with(|m| m.borrow().get(&x.ctxid()).copied()).unwrap_or(usize::MAX);
                    emit(format!("rsync {} try_from {} prev {}", c, k, aid(oa)));
                    emit(format!("rhandle {} {}", h2, aid(oa)));
                    put(h2, HandleBox::Addr(oa, x));
                }
                None => emit(format!("rsync {} try_from {} prev none", c, k)),
            }
        }
        Op::AlreadyRunning { k } => {
            let o = rbegin(c, "already_running", k, None);
            let r = match k {
                1 => Node::<1>::already_running().await,
                _ => Node::<2>::already_running().await,
            };
            rret(c, o, match r {
                None => "running none".into(),
                Some(b) => format!("running {}", u8::from(b)),
            });
        }
        Op::Publish { j, m, via: 3 } => {
            // `Broker::try_publish`: publishes iff an instance is registered and running right now.  Whether it is is
            // asked through the same synchronous registry query first (nothing runs in between); `None` then means
            // that nothing was submitted, and the operation does not exist for the model.  A verdict that differs
            // from the query's is logged as a line the model cannot accept.
            let there = if j == 0 {
                Broker::<Topic<0>>::try_from_registry().is_some()
            } else {
                Broker::<Topic<1>>::try_from_registry().is_some()
            };
            let o = fresh_op();
            if there {
                emit(format!("bbegin {} pub {} {}", o, j, m));
                PENDING.with(|p| p.borrow_mut().push(o));
            }
            let r = if j == 0 {
                Broker::try_publish(Topic::<0> { m }).await
            } else {
                Broker::try_publish(Topic::<1> { m }).await
            };
            PENDING.with(|p| p.borrow_mut().retain(|x| *x != o));
            match (there, r) {
                (true, Some(r)) => emit(format!("bret {} {}", o, res_str(&r))),
                (false, None) => emit(format!("note try_publish {} {} none", j, m)),
                (t, r) => emit(format!("try_publish_mismatch {} {} query={} result={}", j, m, t, r.is_some())),
            }
        }
        Op::Publish { j, m, via } => {
            let o = fresh_op();
            emit(format!("bbegin {} pub {} {}", o, j, m));
            PENDING.with(|p| p.borrow_mut().push(o));
            let r = match (j, via) {
                (0, 0) => Broker::publish(Topic::<0> { m }).await,
                (0, 1) => Broker::<Topic<0>>::from_registry().await.publish(Topic::<0> { m }).await,
                // an `Addr<Broker<T>>` obtained once and kept by this client (there is one broker per topic for good)
                (0, _) => {
                    let cached = BROKER0.with(|b| b.borrow().get(&c).cloned());
                    let a = match cached {
                        Some(a) => a,
                        None => {
                            let a = Broker::<Topic<0>>::from_registry().await;
                            BROKER0.with(|b| b.borrow_mut().insert(c, a.clone()));
                            a
                        }
                    };
                    a.publish(Topic::<0> { m }).await
                }
                (_, 0) => Broker::publish(Topic::<1> { m }).await,
                (_, 1) => Broker::<Topic<1>>::from_registry().await.publish(Topic::<1> { m }).await,
                (_, _) => {
                    let cached = BROKER1.with(|b| b.borrow().get(&c).cloned());
                    let a = match cached {
                        Some(a) => a,
                        None => {
                            let a = Broker::<Topic<1>>::from_registry().await;
                            BROKER1.with(|b| b.borrow_mut().insert(c, a.clone()));
                            a
                        }
                    };
                    a.publish(Topic::<1> { m }).await
                }
            };
            PENDING.with(|p| p.borrow_mut().retain(|x| *x != o));
            emit(format!("bret {} {}", o, res_str(&r)));
        }
        Op::BSubscribe { j, h } | Op::BUnsubscribe { j, h } => {
            let sub = matches!(op, Op::BSubscribe { .. });
            let Some(hb) = take(h) else { return };
            if let HandleBox::Addr(a, addr) = &hb {
                let o = fresh_op();
                emit(format!("bbegin {} {} {} {}", o, if sub { "sub" } else { "unsub" }, j, a));
                PENDING.with(|p| p.borrow_mut().push(o));
                let r = match (j, sub) {
                    (0, true) => Broker::<Topic<0>>::subscribe(addr.weak_topic0()).await,
                    (0, false) => Broker::<Topic<0>>::from_registry().await.unsubscribe(addr.weak_topic0()).await,
                    (_, true) => Broker::<Topic<1>>::subscribe(addr.weak_topic1()).await,
                    (_, false) => Broker::<Topic<1>>::from_registry().await.unsubscribe(addr.weak_topic1()).await,
                };
                PENDING.with(|p| p.borrow_mut().retain(|x| *x != o));
                emit(format!("bret {} {}", o, res_str(&r)));
            }
            put(h, hb);
        }
    }
}

fn op_kind(op: &Op) -> u8 {
    match op {
        Op::MkSender { .. } => 1,
        Op::MkCaller { .. } => 2,
        Op::MkWeakSender { .. } => 3,
        Op::MkWeakCaller { .. } => 4,
        Op::MkSenderUnit { .. } => 5,
        Op::MkSenderB { j: 0, .. } => 6,
        Op::MkSenderB { .. } => 7,
        _ => 0,
    }
}

pub fn launch(inner: &Rc<Inner>, prog: &Program) {
    let setup = prog.setup.clone();
    let clients = prog.clients.clone();
    inner.spawn_local(
        TaskKind::Client(0),
        Box::pin(async move {
            for op in setup {
                exec_op(0, op).await;
            }
            let inner = cur();
            let mut first: Option<Vec<Op>> = None;
            for (c, ops) in clients.into_iter().enumerate() {
                if c == 0 {
                    first = Some(ops);
                    continue;
                }
                inner.spawn_local(
                    TaskKind::Client(c),
                    Box::pin(async move {
                        for op in ops {
                            exec_op(c, op).await;
                        }
                        resume_parked(c).await;
                        emit(format!("cend {}", c));
                    }),
                );
            }
            drop(inner);
            for op in first.unwrap_or_default() {
                exec_op(0, op).await;
            }
            resume_parked(0).await;
            emit("cend 0".to_string());
        }),
    );
}

/// Unregister everything from the process-global registry between cases.
pub fn cleanup_registry() {
    futures::executor::block_on(async {
        let _ = Addr::<Node<1>>::unregister().await;
        let _ = Addr::<Node<2>>::unregister().await;
        let _ = Addr::<Broker<Topic<0>>>::unregister().await;
        let _ = Addr::<Broker<Topic<1>>>::unregister().await;
    });
    POOL.with(|p| p.borrow_mut().clear());
}
