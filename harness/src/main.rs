mod exec;
mod node;
mod prog;
mod gen_;

use exec::ExecCfg;

fn main() {
    let args: Vec<String> = std::env::args().collect();
    let get = |name: &str| -> Option<String> {
        args.iter().position(|a| a == name).and_then(|i| args.get(i + 1).cloned())
    };
    let family = get("--family").unwrap_or("C12".into());
    let seed: u64 = get("--seed").and_then(|s| s.parse().ok()).unwrap_or(1);
    let cases: usize = get("--cases").and_then(|s| s.parse().ok()).unwrap_or(10);
    let first: usize = get("--first").and_then(|s| s.parse().ok()).unwrap_or(0);
    let quiet_panics = get("--show-panics").is_none();
    if quiet_panics {
        std::panic::set_hook(Box::new(|_| {}));
    }
    use std::io::Write;
    if cases > 1 {
        // One process per case: `futures::select!` draws from a thread-local xorshift state that survives
        // from case to case, so a case would otherwise depend on its predecessors and not replay alone.
        let exe = std::env::current_exe().expect("current_exe");
        for n in first..first + cases {
            let mut cmd = std::process::Command::new(&exe);
            cmd.args(["--family", &family, "--seed", &seed.to_string(), "--cases", "1", "--first", &n.to_string()]);
            if !quiet_panics {
                cmd.arg("--show-panics").arg("1");
            }
            let st = cmd.status().expect("spawn case process");
            if !st.success() {
                let case_seed = seed.wrapping_mul(1_000_003).wrapping_add(n as u64);
                println!("case {} {} {} crashed", n, family, case_seed);
                println!("crash {:?}", st.code());
                println!("end");
            }
        }
        return;
    }
    let out = std::io::stdout();
    let mut out = std::io::BufWriter::new(out.lock());
    for n in first..first + cases {
        let case_seed = seed.wrapping_mul(1_000_003).wrapping_add(n as u64);
        let mut rng = exec::Rng::new(case_seed);
        // vary the (otherwise fixed) initial state of select!'s generator with the case seed
        for _ in 0..(case_seed % 61) {
            futures::executor::block_on(async {
                let mut a = futures::future::ready(());
                let mut b = futures::future::ready(());
                futures::select! { _ = a => (), _ = b => () }
            });
        }
        let case = gen_::generate(&family, &mut rng);
        node::reset_ids();
        prog::reset_ops();
        let cfg = ExecCfg {
            sched: case.sched.clone(),
            prompt: case.prompt,
            horizon: case.horizon,
            max_steps: 4000,
            cancel: case.cancel.clone(),
        };
        let prog = case.program.clone();
        let outcome = exec::run(case_seed, cfg, |inner| prog::launch(inner, &prog));
        prog::cleanup_registry();
        writeln!(out, "case {} {} {} {}", n, family, case_seed, case.tags.join(",")).unwrap();
        for l in &outcome.log {
            writeln!(out, "{}", l).unwrap();
        }
        let pend = prog::PENDING.with(|p| p.borrow().iter().map(|o| o.to_string()).collect::<Vec<_>>().join(" "));
        writeln!(out, "{} {}", outcome.end, pend).unwrap();
        writeln!(out, "end").unwrap();
    }
}
