mod exec;
mod node;
mod prog;
mod gen_;

use exec::ExecCfg;

fn main() {
    let args: Vec<String> = std::env::args().collect();
    let get = |name: &str| -> Option<String> {
        args.iter().position(|a| a == name).and_then(|i| args.get(i + 1).cloned())
    };
    let family = get("--family").unwrap_or("C12".into());
    let seed: u64 = get("--seed").and_then(|s| s.parse().ok()).unwrap_or(1);
    let cases: usize = get("--cases").and_then(|s| s.parse().ok()).unwrap_or(10);
    let first: usize = get("--first").and_then(|s| s.parse().ok()).unwrap_or(0);
    let quiet_panics = get("--show-panics").is_none();
    let exhaust: usize = get("--exhaust").and_then(|s| s.parse().ok()).unwrap_or(0);
    let replay: Option<Vec<usize>> = get("--replay").map(|s| s.split('.').filter_map(|x| x.parse().ok()).collect());
    if quiet_panics {
        std::panic::set_hook(Box::new(|_| {}));
    }
    use std::io::Write;
    if exhaust > 0 {
        // Depth-first enumeration of the schedule tree of each case (up to `exhaust` schedules per case):
        // run with a choice prefix (first-enabled afterwards), read back the choices and the number of
        // alternatives at every choice point, advance the last choice that still has an alternative.
        let exe = std::env::current_exe().expect("current_exe");
        for n in first..first + cases {
            let mut prefix: Vec<usize> = vec![];
            let mut done = 0usize;
            loop {
                let enc = if prefix.is_empty() { "-".to_string() } else { prefix.iter().map(|c| c.to_string()).collect::<Vec<_>>().join(".") };
                let out = std::process::Command::new(&exe)
                    .args(["--family", &family, "--seed", &seed.to_string(), "--cases", "1", "--first", &n.to_string(), "--replay", &enc])
                    .output()
                    .expect("spawn case process");
                std::io::stdout().write_all(&out.stdout).unwrap();
                done += 1;
                let err = String::from_utf8_lossy(&out.stderr);
                let Some(line) = err.lines().find(|l| l.starts_with("SCHED ")) else { break };
                let mut parts = line[6..].split('|');
                let ch: Vec<usize> = parts.next().unwrap_or("").split('.').filter_map(|x| x.parse().ok()).collect();
                let wd: Vec<usize> = parts.next().unwrap_or("").split('.').filter_map(|x| x.parse().ok()).collect();
                // next schedule in depth-first order
                let mut i = ch.len();
                let mut next = None;
                while i > 0 {
                    i -= 1;
                    if ch[i] + 1 < wd[i] {
                        let mut p = ch[..i].to_vec();
                        p.push(ch[i] + 1);
                        next = Some(p);
                        break;
                    }
                }
                match next {
                    Some(p) if done < exhaust => prefix = p,
                    _ => break,
                }
            }
        }
        return;
    }
    if cases > 1 {
        // One process per case: `futures::select!` draws from a thread-local xorshift state that survives
        // from case to case, so a case would otherwise depend on its predecessors and not replay alone.
        let exe = std::env::current_exe().expect("current_exe");
        for n in first..first + cases {
            let mut cmd = std::process::Command::new(&exe);
            cmd.args(["--family", &family, "--seed", &seed.to_string(), "--cases", "1", "--first", &n.to_string()]);
            if !quiet_panics {
                cmd.arg("--show-panics").arg("1");
            }
            let st = cmd.status().expect("spawn case process");
            if !st.success() {
                let case_seed = seed.wrapping_mul(1_000_003).wrapping_add(n as u64);
                println!("case {} {} {} crashed", n, family, case_seed);
                println!("crash {:?}", st.code());
                println!("end");
            }
        }
        return;
    }
    let out = std::io::stdout();
    let mut out = std::io::BufWriter::new(out.lock());
    for n in first..first + cases {
        let case_seed = seed.wrapping_mul(1_000_003).wrapping_add(n as u64);
        let mut rng = exec::Rng::new(case_seed);
        // vary the (otherwise fixed) initial state of select!'s generator with the case seed
        for _ in 0..(case_seed % 61) {
            futures::executor::block_on(async {
                let mut a = futures::future::ready(());
                let mut b = futures::future::ready(());
                futures::select! { _ = a => (), _ = b => () }
            });
        }
        let case = gen_::generate(&family, &mut rng);
        node::reset_ids();
        prog::reset_ops();
        let cfg = ExecCfg {
            sched: match &replay {
                Some(v) => exec::Sched::Replay(v.clone()),
                None => case.sched.clone(),
            },
            prompt: case.prompt,
            horizon: case.horizon,
            max_steps: 4000,
            cancel: case.cancel.clone(),
        };
        let prog = case.program.clone();
        let outcome = exec::run(case_seed, cfg, |inner| prog::launch(inner, &prog));
        prog::cleanup_registry();
        let mut tags = case.tags.join(",");
        if replay.is_some() {
            let enc = outcome.choices.iter().map(|c| c.to_string()).collect::<Vec<_>>().join(".");
            tags = format!("{},sched={}", tags, if enc.is_empty() { "-".into() } else { enc.clone() });
            eprintln!(
                "SCHED {}|{}",
                enc,
                outcome.widths.iter().map(|c| c.to_string()).collect::<Vec<_>>().join(".")
            );
        }
        writeln!(out, "case {} {} {} {}", n, family, case_seed, tags).unwrap();
        for l in &outcome.log {
            writeln!(out, "{}", l).unwrap();
        }
        let pend = prog::PENDING.with(|p| p.borrow().iter().map(|o| o.to_string()).collect::<Vec<_>>().join(" "));
        writeln!(out, "{} {}", outcome.end, pend).unwrap();
        writeln!(out, "end").unwrap();
    }
}
