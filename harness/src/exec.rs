//! Controlled single-thread executor with virtual time.
//!
//! hannibal (feature `verif`) reaches it through `hannibal::verif::Backend`.
//! Every `.await` boundary of every task is a scheduling point decided by the
//! `Sched` strategy; the virtual clock only moves when the scheduler says so.

use std::{
    cell::{Cell, RefCell},
    collections::HashMap,
    future::Future,
    panic::{AssertUnwindSafe, catch_unwind},
    pin::Pin,
    rc::Rc,
    sync::{
        Arc, Mutex,
        atomic::{AtomicBool, Ordering},
    },
    task::{Context, Poll, Wake, Waker},
    time::Duration,
};

use hannibal::verif::{Backend, BoxFut, SleepKind, SpawnKind};

pub type LocalFut = Pin<Box<dyn Future<Output = ()> + 'static>>;

#[derive(Clone, Copy, Debug, PartialEq, Eq)]
pub enum TaskKind {
    Client(usize),
    Actor(usize),
    Aux(Option<usize>),
}

struct TaskSlot {
    fut: Option<LocalFut>,
    runnable: bool,
    kind: TaskKind,
    polls: u32,
}

struct WakeFlag {
    id: usize,
    woken: Arc<Mutex<Vec<usize>>>,
}
impl Wake for WakeFlag {
    fn wake(self: Arc<Self>) {
        self.woken.lock().unwrap().push(self.id);
    }
}

pub struct TimerShared {
    deadline: u64,
    fired: AtomicBool,
    waker: Mutex<Option<Waker>>,
}

struct SleepFut(Arc<TimerShared>);
impl Future for SleepFut {
    type Output = ();
    fn poll(self: Pin<&mut Self>, cx: &mut Context<'_>) -> Poll<()> {
        if self.0.fired.load(Ordering::SeqCst) {
            Poll::Ready(())
        } else {
            *self.0.waker.lock().unwrap() = Some(cx.waker().clone());
            Poll::Pending
        }
    }
}

/// xorshift-style PRNG; every random choice of a case derives from one state.
#[derive(Clone)]
pub struct Rng(pub u64);
impl Rng {
    pub fn new(seed: u64) -> Self {
        Rng(seed.wrapping_mul(0x9E3779B97F4A7C15) ^ 0xD1B54A32D192ED03)
    }
    pub fn next(&mut self) -> u64 {
        // splitmix64
        self.0 = self.0.wrapping_add(0x9E3779B97F4A7C15);
        let mut z = self.0;
        z = (z ^ (z >> 30)).wrapping_mul(0xBF58476D1CE4E5B9);
        z = (z ^ (z >> 27)).wrapping_mul(0x94D049BB133111EB);
        z ^ (z >> 31)
    }
    pub fn below(&mut self, n: usize) -> usize {
        if n == 0 { 0 } else { (self.next() % n as u64) as usize }
    }
    pub fn chance(&mut self, num: u32, den: u32) -> bool {
        (self.next() % den as u64) < num as u64
    }
    pub fn pick<'a, T>(&mut self, xs: &'a [T]) -> &'a T {
        &xs[self.below(xs.len())]
    }
}

#[derive(Clone, Debug)]
pub enum Sched {
    /// uniformly random among enabled choices
    Random,
    /// PCT-like: random priorities, `d` priority change points
    Pct { d: usize },
    /// follow recorded choice indices, then first-enabled
    Replay(Vec<usize>),
}

#[derive(Clone, Debug)]
pub struct Fault {
    /// drop the loop task of this actor ...
    pub actor: usize,
    /// ... right before its `at_poll`-th poll (0-based)
    pub at_poll: u32,
}

pub struct ExecCfg {
    pub sched: Sched,
    /// time advances only when nothing is runnable
    pub prompt: bool,
    pub horizon: u64,
    pub max_steps: usize,
    pub cancel: Option<Fault>,
}

pub struct Inner {
    tasks: RefCell<Vec<TaskSlot>>,
    woken: Arc<Mutex<Vec<usize>>>,
    pub now: Cell<u64>,
    timers: RefCell<Vec<Arc<TimerShared>>>,
    pub log: RefCell<Vec<String>>,
    pub rng: RefCell<Rng>,
    pub current: Cell<Option<usize>>,
    /// actor id announced by the last constructed actor value (consumed by spawn)
    pub last_constructed: Cell<Option<usize>>,
    pub actor_task: RefCell<HashMap<usize, usize>>,
    pub choices: RefCell<Vec<usize>>,
    /// number of enabled alternatives at each choice point (for exhaustive schedule enumeration)
    pub widths: RefCell<Vec<usize>>,
    pub cancelled: RefCell<Vec<usize>>,
    /// timer being registered right now (actor, timer id): consumed by the next aux spawn
    pub reg_timer: Cell<Option<(usize, usize)>>,
    /// aux task id -> (actor, timer id)
    pub timer_task: RefCell<HashMap<usize, (usize, usize)>>,
}

thread_local! {
    pub static CUR: RefCell<Option<Rc<Inner>>> = const { RefCell::new(None) };
}

pub fn cur() -> Rc<Inner> {
    CUR.with(|c| c.borrow().clone().expect("no executor installed"))
}

pub fn try_cur() -> Option<Rc<Inner>> {
    CUR.with(|c| c.borrow().clone())
}

pub fn emit(line: String) {
    if let Some(c) = try_cur() {
        c.log.borrow_mut().push(line);
    }
}

impl Inner {
    pub fn spawn_local(&self, kind: TaskKind, fut: LocalFut) -> usize {
        let mut tasks = self.tasks.borrow_mut();
        let id = tasks.len();
        tasks.push(TaskSlot { fut: Some(fut), runnable: true, kind, polls: 0 });
        id
    }
    pub fn current_kind(&self) -> Option<TaskKind> {
        self.current.get().map(|id| self.tasks.borrow()[id].kind)
    }
    pub fn sleep(&self, d: u64) -> impl Future<Output = ()> + Send + 'static {
        let t = Arc::new(TimerShared {
            deadline: self.now.get() + d,
            fired: AtomicBool::new(d == 0),
            waker: Mutex::new(None),
        });
        if d > 0 {
            self.timers.borrow_mut().push(t.clone());
        }
        SleepFut(t)
    }
}

struct Be(Rc<Inner>);
impl Backend for Be {
    fn spawn(&self, kind: SpawnKind, fut: BoxFut) {
        let k = match kind {
            SpawnKind::Actor => {
                let a = self.0.last_constructed.take().unwrap_or(usize::MAX);
                TaskKind::Actor(a)
            }
            SpawnKind::Aux => {
                let owner = match self.0.current_kind() {
                    Some(TaskKind::Actor(a)) => Some(a),
                    _ => None,
                };
                TaskKind::Aux(owner)
            }
        };
        let id = self.0.spawn_local(k, fut);
        if let TaskKind::Actor(a) = k {
            self.0.actor_task.borrow_mut().insert(a, id);
        }
        if let TaskKind::Aux(_) = k {
            if let Some(at) = self.0.reg_timer.take() {
                self.0.timer_task.borrow_mut().insert(id, at);
            }
        }
    }
    fn sleep(&self, kind: SleepKind, d: Duration) -> BoxFut {
        let ms = d.as_millis() as u64;
        if kind == SleepKind::Sleep {
            if let Some(id) = self.0.current.get() {
                if let Some((a, t)) = self.0.timer_task.borrow().get(&id).copied() {
                    emit(format!("tarm {} {} {}", a, t, self.0.now.get() + ms));
                }
            }
        }
        Box::pin(self.0.sleep(ms))
    }
}

pub struct Outcome {
    pub log: Vec<String>,
    pub choices: Vec<usize>,
    pub widths: Vec<usize>,
    pub steps: usize,
    pub end: &'static str,
}

/// Runs `root` (which spawns client tasks through `cur().spawn_local`) to
/// quiescence / horizon / step limit under `cfg`.
pub fn run(seed: u64, cfg: ExecCfg, root: impl FnOnce(&Rc<Inner>)) -> Outcome {
    let inner = Rc::new(Inner {
        tasks: RefCell::new(Vec::new()),
        woken: Arc::new(Mutex::new(Vec::new())),
        now: Cell::new(0),
        timers: RefCell::new(Vec::new()),
        log: RefCell::new(Vec::new()),
        rng: RefCell::new(Rng::new(seed ^ 0x5ced)),
        current: Cell::new(None),
        last_constructed: Cell::new(None),
        actor_task: RefCell::new(HashMap::new()),
        choices: RefCell::new(Vec::new()),
        widths: RefCell::new(Vec::new()),
        cancelled: RefCell::new(Vec::new()),
        reg_timer: Cell::new(None),
        timer_task: RefCell::new(HashMap::new()),
    });
    CUR.with(|c| *c.borrow_mut() = Some(inner.clone()));
    hannibal::verif::install(Rc::new(Be(inner.clone())));
    root(&inner);

    let mut steps = 0usize;
    let mut replay_pos = 0usize;
    // PCT state
    let mut prio: HashMap<usize, u64> = HashMap::new();
    let mut change_points: Vec<usize> = Vec::new();
    if let Sched::Pct { d } = &cfg.sched {
        let mut r = inner.rng.borrow_mut();
        for _ in 0..*d {
            change_points.push(r.below(cfg.max_steps.min(400)));
        }
    }
    let end;
    loop {
        // collect wakes
        {
            let mut w = inner.woken.lock().unwrap();
            let mut tasks = inner.tasks.borrow_mut();
            for id in w.drain(..) {
                if let Some(t) = tasks.get_mut(id) {
                    if t.fut.is_some() {
                        t.runnable = true;
                    }
                }
            }
        }
        // fault injection: cancel before the j-th poll of the actor task
        if let Some(f) = &cfg.cancel {
            let tid = inner.actor_task.borrow().get(&f.actor).copied();
            if let Some(tid) = tid {
                let due = {
                    let tasks = inner.tasks.borrow();
                    tasks[tid].fut.is_some() && tasks[tid].polls >= f.at_poll
                };
                if due && !inner.cancelled.borrow().contains(&f.actor) {
                    inner.cancelled.borrow_mut().push(f.actor);
                    emit(format!("cancel {}", f.actor));
                    let fut = inner.tasks.borrow_mut()[tid].fut.take();
                    inner.tasks.borrow_mut()[tid].runnable = false;
                    inner.current.set(Some(tid));
                    drop(fut);
                    inner.current.set(None);
                    continue;
                }
            }
        }
        let runnable: Vec<usize> = {
            let tasks = inner.tasks.borrow();
            (0..tasks.len()).filter(|&i| tasks[i].runnable && tasks[i].fut.is_some()).collect()
        };
        let next_deadline: Option<u64> = {
            let mut timers = inner.timers.borrow_mut();
            timers.retain(|t| Arc::strong_count(t) > 1 && !t.fired.load(Ordering::SeqCst));
            timers.iter().map(|t| t.deadline).min()
        };
        let time_ok = match next_deadline {
            Some(dl) => dl <= cfg.horizon && (runnable.is_empty() || !cfg.prompt),
            None => false,
        };
        let n_choices = runnable.len() + usize::from(time_ok);
        if n_choices == 0 {
            end = if next_deadline.is_some() { "horizon" } else { "quiescent" };
            break;
        }
        if steps >= cfg.max_steps {
            end = "cutoff";
            break;
        }
        let pick = match &cfg.sched {
            Sched::Random => {
                let mut r = inner.rng.borrow_mut();
                // bias towards running tasks rather than advancing time early
                if time_ok && !runnable.is_empty() && r.chance(3, 4) {
                    r.below(runnable.len())
                } else {
                    r.below(n_choices)
                }
            }
            Sched::Pct { .. } => {
                let mut r = inner.rng.borrow_mut();
                if change_points.contains(&steps) {
                    // lower the priority of the currently highest task
                    if let Some(&hi) = runnable.iter().max_by_key(|i| prio.get(i).copied().unwrap_or(0)) {
                        prio.insert(hi, 0);
                    }
                }
                for i in &runnable {
                    prio.entry(*i).or_insert_with(|| 1 + r.next() % 1_000_000);
                }
                if time_ok && (runnable.is_empty() || r.chance(1, 6)) {
                    runnable.len()
                } else {
                    let best = runnable.iter().enumerate().max_by_key(|(_, i)| prio[i]).map(|(k, _)| k).unwrap_or(0);
                    best
                }
            }
            Sched::Replay(v) => {
                let c = v.get(replay_pos).copied().unwrap_or(0);
                replay_pos += 1;
                c.min(n_choices - 1)
            }
        };
        inner.choices.borrow_mut().push(pick);
        inner.widths.borrow_mut().push(n_choices);
        steps += 1;
        if pick == runnable.len() {
            // advance time
            let dl = next_deadline.unwrap();
            if dl > inner.now.get() {
                inner.now.set(dl);
                emit(format!("time {}", dl));
            }
            let due: Vec<Arc<TimerShared>> =
                inner.timers.borrow().iter().filter(|t| t.deadline <= dl).cloned().collect();
            for t in due {
                t.fired.store(true, Ordering::SeqCst);
                if let Some(w) = t.waker.lock().unwrap().take() {
                    w.wake();
                }
            }
            continue;
        }
        let id = runnable[pick];
        let fut = {
            let mut tasks = inner.tasks.borrow_mut();
            tasks[id].runnable = false;
            tasks[id].polls += 1;
            tasks[id].fut.take()
        };
        let Some(mut fut) = fut else { continue };
        let waker = Waker::from(Arc::new(WakeFlag { id, woken: inner.woken.clone() }));
        let mut cx = Context::from_waker(&waker);
        inner.current.set(Some(id));
        let res = catch_unwind(AssertUnwindSafe(|| fut.as_mut().poll(&mut cx)));
        match res {
            Ok(Poll::Pending) => {
                inner.tasks.borrow_mut()[id].fut = Some(fut);
            }
            Ok(Poll::Ready(())) => {
                if let TaskKind::Actor(a) = inner.tasks.borrow()[id].kind {
                    emit(format!("tdone {}", a));
                }
                if let Some((a, t)) = inner.timer_task.borrow().get(&id).copied() {
                    emit(format!("tend {} {}", a, t));
                }
                drop(fut);
            }
            Err(_) => {
                let kind = inner.tasks.borrow()[id].kind;
                emit(format!("taskpanic {}", kind_str(kind)));
                // tokio drops a panicked task's future; mirror that
                let _ = catch_unwind(AssertUnwindSafe(|| drop(fut)));
            }
        }
        inner.current.set(None);
    }
    // census: which spawned tasks still exist
    let (mut n_client, mut n_actor, mut n_aux) = (0, 0, 0);
    for t in inner.tasks.borrow().iter() {
        if t.fut.is_some() {
            match t.kind {
                TaskKind::Client(_) => n_client += 1,
                TaskKind::Actor(_) => n_actor += 1,
                TaskKind::Aux(_) => n_aux += 1,
            }
        }
    }
    emit(format!("census {} {} {}", n_client, n_actor, n_aux));
    // tear down: drop all remaining futures (outside the trace)
    let log = inner.log.borrow().clone();
    let rest: Vec<LocalFut> = inner.tasks.borrow_mut().iter_mut().filter_map(|t| t.fut.take()).collect();
    for f in rest {
        let _ = catch_unwind(AssertUnwindSafe(|| drop(f)));
    }
    hannibal::verif::uninstall();
    CUR.with(|c| *c.borrow_mut() = None);
    Outcome { log, choices: inner.choices.borrow().clone(), widths: inner.widths.borrow().clone(), steps, end }
}

pub fn kind_str(k: TaskKind) -> String {
    match k {
        TaskKind::Client(c) => format!("client {}", c),
        TaskKind::Actor(a) => format!("actor {}", a),
        TaskKind::Aux(Some(a)) => format!("aux {}", a),
        TaskKind::Aux(None) => "aux -".to_string(),
    }
}
