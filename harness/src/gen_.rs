//! Program generators, one per property family.
use crate::exec::{Fault, Rng, Sched};
use crate::node::{Act, Behaviour};
use crate::prog::{Op, Program, SpawnSpec, Strat};

pub struct Case {
    pub program: Program,
    pub sched: Sched,
    pub prompt: bool,
    pub horizon: u64,
    pub cancel: Option<Fault>,
    pub tags: Vec<String>,
}

pub fn default_spec() -> SpawnSpec {
    SpawnSpec {
        k: 0,
        cap: None,
        strat: Strat::Only,
        timeout: None,
        fail: false,
        stream: false,
        owning: false,
        plain_entry: false,
        behaviour: Behaviour::default(),
    }
}

fn sched(rng: &mut Rng) -> Sched {
    if rng.chance(1, 3) { Sched::Pct { d: 1 + rng.below(3) } } else { Sched::Random }
}

pub fn generate(family: &str, rng: &mut Rng) -> Case {
    match family {
        "C12" => gen_c12(rng),
        _ => gen_c12(rng),
    }
}

/// bounded mailbox, several senders through different handle kinds, mixed
/// with forcing traffic, handlers with arbitrary virtual work.
fn gen_c12(rng: &mut Rng) -> Case {
    let cap = if rng.chance(1, 6) { None } else { Some(rng.below(5)) };
    let mut spec = default_spec();
    spec.cap = cap;
    spec.owning = rng.chance(1, 4);
    let nclients = 1 + rng.below(4);
    let mut m = 0usize;
    let mut next_h = 1usize;
    let mut setup: Vec<Op> = vec![Op::Spawn { a: 0, spec, h: 0 }];
    // each client gets its own handle derived from h0
    let mut client_handles = vec![];
    for _ in 0..nclients {
        let h = next_h;
        next_h += 1;
        let kind = rng.below(5);
        match kind {
            0 | 1 => setup.push(Op::ToAddr { h: 0, h2: h }),
            2 => setup.push(Op::MkSender { h: 0, h2: h }),
            3 => setup.push(Op::MkWeakSender { h: 0, h2: h }),
            _ => setup.push(Op::ToAddr { h: 0, h2: h }),
        }
        client_handles.push((h, kind));
    }
    let mut clients: Vec<Vec<Op>> = vec![];
    for (i, (h, kind)) in client_handles.iter().enumerate() {
        let mut ops = if i == 0 { vec![] } else { vec![Op::Yield] };
        let nops = 1 + rng.below(5);
        for _ in 0..nops {
            let work = if rng.chance(1, 2) { vec![Act::Work(rng.below(4) as u64)] } else { vec![] };
            m += 1;
            let is_addr = *kind == 0 || *kind == 1 || *kind == 4;
            let r = rng.below(10);
            if is_addr && r == 0 {
                ops.push(Op::Ping { h: *h });
            } else if is_addr && r <= 2 {
                ops.push(Op::Call { h: *h, m, script: work });
            } else {
                ops.push(Op::Send { h: *h, m, script: work });
            }
            if rng.chance(1, 6) {
                ops.push(Op::Sleep(1 + rng.below(3) as u64));
            }
        }
        clients.push(ops);
    }
    // occasionally stop at the end of client 0
    if rng.chance(1, 3) {
        let (h, kind) = client_handles[0];
        if kind == 0 || kind == 1 || kind == 4 {
            clients[0].push(Op::Stop { h });
        }
    }
    Case {
        program: Program { setup, clients },
        sched: sched(rng),
        prompt: rng.chance(1, 2),
        horizon: 1000,
        cancel: None,
        tags: vec![format!("cap={:?}", cap), format!("clients={}", nclients)],
    }
}
