//! Program generators, one profile per property family, all built on one
//! structured generator of mostly-valid single-actor programs (plus a stream of
//! deliberately odd operations: ops on dead or moved handles, double joins, …).
use crate::exec::{Fault, Rng, Sched};
use crate::node::{Act, Behaviour};
use crate::prog::{Op, Program, SpawnSpec, Strat};

pub struct Case {
    pub program: Program,
    pub sched: Sched,
    pub prompt: bool,
    pub horizon: u64,
    pub cancel: Option<Fault>,
    pub tags: Vec<String>,
}

pub fn default_spec() -> SpawnSpec {
    SpawnSpec {
        k: 0,
        cap: None,
        strat: Strat::Only,
        timeout: None,
        fail: false,
        stream: false,
        owning: false,
        plain_entry: false,
        behaviour: Behaviour::default(),
    }
}

fn sched(rng: &mut Rng) -> Sched {
    if rng.chance(1, 3) { Sched::Pct { d: 1 + rng.below(3) } } else { Sched::Random }
}

/// Relative weights of what a family's programs contain.
#[derive(Clone)]
pub struct Profile {
    pub name: &'static str,
    pub bounded: u32,       // /10 chance of a bounded mailbox
    pub max_cap: usize,
    pub owning: u32,        // /10
    pub stream: u32,        // /10
    pub timeout: u32,       // /10 handler timeout configured
    pub strat_mix: bool,    // all three strategies (else default only)
    pub w_send: u32,
    pub w_call: u32,
    pub w_ping: u32,
    pub w_handles: u32,     // clone / convert / downgrade / upgrade
    pub w_drop: u32,
    pub w_stop: u32,        // stop / halt / try_stop / try_halt / consume
    pub w_restart: u32,
    pub w_await: u32,       // await / join
    pub w_query: u32,       // stopped? / running?
    pub w_sleep: u32,
    pub w_stream: u32,      // stream ready / end
    pub w_cancel_call: u32, // call whose future is dropped
    pub ctx_acts: u32,      // /10: handler scripts contain context actions
    pub timers: u32,        // /10: timers registered in started / handlers
    pub work: u32,          // /10: handlers take virtual time
    pub faults: u32,        // /10: one injected fault
    pub drop_root: u32,     // /10: the spawn handle is dropped after setup
    pub kinds: &'static [u8], // handle kinds handed to clients: 0 addr 1 sender 2 caller 3 weaksender 4 weakcaller 5 weakaddr
    pub max_clients: usize,
    pub max_ops: usize,
    pub horizon: u64,
    pub prompt: u32,        // /10
}

pub const BASE: Profile = Profile {
    name: "base",
    bounded: 5,
    max_cap: 3,
    owning: 2,
    stream: 0,
    timeout: 0,
    strat_mix: false,
    w_send: 10,
    w_call: 8,
    w_ping: 2,
    w_handles: 3,
    w_drop: 1,
    w_stop: 1,
    w_restart: 0,
    w_await: 1,
    w_query: 0,
    w_sleep: 2,
    w_stream: 0,
    w_cancel_call: 0,
    ctx_acts: 0,
    timers: 0,
    work: 5,
    faults: 0,
    drop_root: 3,
    kinds: &[0, 0, 1, 2, 3, 4],
    max_clients: 4,
    max_ops: 5,
    horizon: 200,
    prompt: 5,
};

pub fn profile(family: &str) -> Profile {
    let b = BASE.clone();
    match family {
        "C12" => Profile { name: "C12", bounded: 9, max_cap: 4, w_send: 14, w_call: 3, timers: 3, kinds: &[0, 0, 1, 3], ..b },
        "C01" => Profile { name: "C01", timers: 2, ..b },
        "C02" => Profile { name: "C02", w_call: 12, w_stop: 2, w_await: 3, faults: 6, w_cancel_call: 1, timeout: 2, owning: 4, ..b },
        "C03" => Profile { name: "C03", strat_mix: true, w_restart: 2, w_stop: 2, faults: 4, stream: 3, w_stream: 3, timers: 3, ctx_acts: 3, ..b },
        "C04" => Profile { name: "C04", w_stop: 4, w_await: 4, ctx_acts: 3, owning: 3, kinds: &[0, 0, 0, 1, 2, 5], ..b },
        "C05" => Profile { name: "C05", w_handles: 8, w_drop: 6, w_stop: 0, drop_root: 8, timers: 4, kinds: &[0, 1, 2, 3, 4, 5], ..b },
        "C07" => Profile { name: "C07", strat_mix: true, w_restart: 4, ctx_acts: 4, timers: 5, horizon: 60, ..b },
        "C10" => Profile { name: "C10", timers: 10, w_send: 3, w_call: 3, w_stop: 2, faults: 2, horizon: 120, prompt: 7, ..b },
        "C11" => Profile { name: "C11", timeout: 10, work: 9, w_call: 10, w_send: 5, bounded: 5, ..b },
        "C13" => Profile { name: "C13", stream: 10, w_stream: 8, w_stop: 2, w_drop: 2, drop_root: 5, ..b },
        "C14" => Profile { name: "C14", w_query: 8, w_stop: 3, w_await: 3, faults: 3, ctx_acts: 3, kinds: &[0, 0, 5], ..b },
        "C15" => Profile { name: "C15", w_handles: 8, w_drop: 6, w_stop: 0, drop_root: 9, ctx_acts: 8, timers: 5, kinds: &[1, 2, 2, 3, 4, 5], ..b },
        "C17" => Profile { name: "C17", owning: 10, w_await: 6, w_stop: 3, faults: 3, ..b },
        "C06" => Profile { name: "C06", faults: 10, timers: 4, w_await: 3, owning: 4, timeout: 3, ..b },
        _ => b,
    }
}

pub fn generate(family: &str, rng: &mut Rng) -> Case {
    if std::env::var("HARNESS_SMALL").is_ok() {
        // small programs for exhaustive schedule enumeration (single-actor families)
        let mut p = profile(family);
        p.max_clients = 2;
        p.max_ops = 2;
        p.timers = p.timers.min(3);
        return gen_actor(&p, rng);
    }
    match family {
        "C08" => gen_registry(rng),
        "C16" => gen_children(rng),
        "C09" => gen_broker(rng),
        "SMALL" => gen_small(rng),
        _ => gen_actor(&profile(family), rng),
    }
}

/// C09: 1-3 publishers (client tasks and actors via Context::publish), 1-4 subscribers, 1-2 topics;
/// subscribe / re-subscribe / unsubscribe / terminate at arbitrary positions.
fn gen_broker(rng: &mut Rng) -> Case {
    let ntopics = 1 + rng.below(2);
    let nsubs = 1 + rng.below(4);
    let nclients = 1 + rng.below(3);
    let mut setup = vec![];
    let mut next_m = 0usize;
    let mut next_pub = 1000usize;
    for a in 0..nsubs {
        let mut beh = Behaviour::default();
        let mut st = vec![];
        if rng.chance(1, 2) {
            st.push(Act::Subscribe(rng.below(ntopics)));
        }
        beh.started = vec![st];
        if rng.chance(1, 5) {
            beh.tick.push(Act::Work(1 + rng.below(3) as u64));
        }
        let cap = if rng.chance(1, 4) { Some(rng.below(3)) } else { None };
        // a subscriber may be restarted (it subscribes again in `started`, under the identity it always had: a restart
        // keeps the context and its id, whatever the strategy - C07 - so that re-subscribing stays idempotent)
        let strat = if rng.chance(1, 3) { Strat::Recreate } else { Strat::Only };
        let spec = SpawnSpec { k: 0, cap, strat, behaviour: beh, ..default_spec() };
        setup.push(Op::Spawn { a, spec, h: a });
    }
    // every client gets its own clone of every subscriber's address
    let hof = |c: usize, a: usize| 10 + c * 8 + a;
    for c in 0..nclients {
        for a in 0..nsubs {
            setup.push(Op::ToAddr { h: a, h2: hof(c, a) });
        }
    }
    for a in 0..nsubs {
        if rng.chance(1, 2) {
            setup.push(Op::Drop { h: a });
        }
    }
    let mut clients: Vec<Vec<Op>> = vec![];
    let mut npubs = 0;
    for c in 0..nclients {
        let mut ops = vec![];
        let nops = 2 + rng.below(6);
        for _ in 0..nops {
            let j = rng.below(ntopics);
            let a = rng.below(nsubs);
            let h = hof(c, a);
            match rng.below(15) {
                // a subscriber may also end because nobody holds it any more (the broker must not count)
                14 => ops.push(Op::Drop { h }),
                0 | 1 | 2 | 3 => {
                    next_pub += 1;
                    npubs += 1;
                    // via 3 = Broker::try_publish (publishes only if the topic's broker is already running)
                    ops.push(Op::Publish { j, m: next_pub, via: rng.below(4) });
                }
                4 | 5 => {
                    // an actor publishes from its handler (Context::publish)
                    next_pub += 1;
                    next_m += 1;
                    npubs += 1;
                    ops.push(Op::Send { h, m: next_m, script: vec![Act::Publish { j, m: next_pub }] });
                }
                6 | 7 => ops.push(Op::BSubscribe { j, h }),
                8 => {
                    next_m += 1;
                    ops.push(Op::Call { h, m: next_m, script: vec![Act::Subscribe(j)] });
                }
                9 | 10 => ops.push(Op::BUnsubscribe { j, h }),
                11 => {
                    if rng.chance(1, 2) {
                        ops.push(Op::Stop { h })
                    } else {
                        next_m += 1;
                        ops.push(Op::Send { h, m: next_m, script: vec![Act::CtxStop] });
                    }
                }
                _ => ops.push(match rng.below(3) {
                    0 => Op::Sleep(1 + rng.below(3) as u64),
                    1 => Op::Restart { h },
                    _ => Op::Yield,
                }),
            }
        }
        clients.push(ops);
    }
    // epilogue (1 in 4): a client that obtained the broker's address early keeps publishing through it after every
    // subscriber has terminated and a publication has been processed in between (the broker stays the broker)
    let epilogue = rng.chance(1, 4);
    if epilogue {
        let mut pre = vec![];
        for j in 0..ntopics {
            next_pub += 1;
            npubs += 1;
            pre.push(Op::Publish { j, m: next_pub, via: 2 });
        }
        let mut post = vec![];
        for a in 0..nsubs {
            post.push(Op::Stop { h: hof(0, a) });
        }
        post.push(Op::Sleep(2));
        for j in 0..ntopics {
            next_pub += 1;
            npubs += 1;
            post.push(Op::Publish { j, m: next_pub, via: 0 });
        }
        post.push(Op::Sleep(1));
        for j in 0..ntopics {
            next_pub += 1;
            npubs += 1;
            post.push(Op::Publish { j, m: next_pub, via: 2 });
        }
        let body = std::mem::take(&mut clients[0]);
        clients[0] = pre.into_iter().chain(body).chain(post).collect();
    }
    // finale: the clients let go of every subscriber (a last publication may or may not follow the last delivery)
    let finale = rng.chance(1, 2);
    if finale {
        for c in 0..nclients {
            for a in 0..nsubs {
                clients[c].push(Op::Drop { h: hof(c, a) });
            }
        }
        for a in 0..nsubs {
            clients[0].push(Op::Drop { h: a });
        }
    }
    let prompt = rng.chance(5, 10);
    Case {
        program: Program { setup, clients },
        sched: sched(rng),
        prompt,
        horizon: 100,
        cancel: None,
        tags: vec![
            format!("finale={}", finale as u8),
            format!("epilogue={}", epilogue as u8),
            format!("topics={}", ntopics),
            format!("subs={}", nsubs),
            format!("clients={}", nclients),
            format!("pubs={}", npubs),
            format!("prompt={}", prompt as u8),
        ],
    }
}

/// C16: actor trees (up to depth 3 / 6 nodes); children registered under two broadcast types or with
/// `add_child`, some also held from outside; broadcasts; the parents end by every cause at any time.
fn gen_children(rng: &mut Rng) -> Case {
    let n = 2 + rng.below(5);
    let mut parent = vec![0usize; n];
    let mut depth = vec![0usize; n];
    for i in 1..n {
        loop {
            let p = rng.below(i);
            if depth[p] < 2 {
                parent[i] = p;
                depth[i] = depth[p] + 1;
                break;
            }
        }
    }
    let mut next_h = n; // handles 0..n are the spawn handles
    let mut next_m = 0usize;
    let mut next_b = 0usize;
    let mut setup = vec![];
    let mut restartable = vec![false; n];
    for i in 0..n {
        let strat = if rng.chance(1, 4) { Strat::Recreate } else if rng.chance(1, 4) { Strat::Non } else { Strat::Only };
        restartable[i] = strat != Strat::Non;
        let mut beh = Behaviour::default();
        if rng.chance(1, 6) {
            beh.tick.push(Act::Work(1 + rng.below(3) as u64));
        }
        // a `stopped` hook that takes time and / or says goodbye to the children: they are the parent's until its
        // task has ended, not until it starts stopping
        if rng.chance(1, 4) {
            beh.stopped.push(Act::Work(1 + rng.below(3) as u64));
        }
        if rng.chance(1, 4) {
            next_b += 1;
            beh.stopped.push(Act::SendToChildren { j: rng.below(3), b: next_b });
        }
        // some actors of the tree have a bounded mailbox: a broadcast is a forced submission, once per registration,
        // whether or not the child is busy and its mailbox full
        let cap = if rng.chance(1, 3) { Some(rng.below(3)) } else { None };
        let spec = SpawnSpec { k: 0, strat, cap, behaviour: beh, ..default_spec() };
        setup.push(Op::Spawn { a: i, spec, h: i });
    }
    // (child, type) registrations; type 0 = add_child
    let mut reg_ty = vec![0usize; n];
    for i in 1..n {
        let hs = next_h;
        next_h += 1;
        next_m += 1;
        let ty = rng.below(3);
        reg_ty[i] = ty;
        if ty == 0 {
            setup.push(Op::MkSenderUnit { h: i, h2: hs });
            setup.push(Op::Call { h: parent[i], m: next_m, script: vec![Act::AddChild(hs)] });
        } else {
            setup.push(Op::MkSenderB { j: ty - 1, h: i, h2: hs });
            setup.push(Op::Call { h: parent[i], m: next_m, script: vec![Act::RegisterChild { j: ty - 1, h: hs }] });
        }
    }
    // some children are registered a second time (the same or another message type): one delivery per registration
    let mut twice = 0;
    for i in 1..n {
        if rng.chance(1, 3) {
            twice += 1;
            let hs = next_h;
            next_h += 1;
            next_m += 1;
            let ty = rng.below(3);
            if ty == 0 {
                setup.push(Op::MkSenderUnit { h: i, h2: hs });
                setup.push(Op::Call { h: parent[i], m: next_m, script: vec![Act::AddChild(hs)] });
            } else {
                setup.push(Op::MkSenderB { j: ty - 1, h: i, h2: hs });
                setup.push(Op::Call { h: parent[i], m: next_m, script: vec![Act::RegisterChild { j: ty - 1, h: hs }] });
            }
        }
    }
    let mut held: Vec<usize> = vec![0];
    for i in 1..n {
        if rng.chance(2, 3) {
            setup.push(Op::Drop { h: i });
        } else {
            held.push(i);
        }
    }
    let nclients = 1 + rng.below(3);
    let mut clients: Vec<Vec<Op>> = vec![];
    let mut fault_tag = "none".to_string();
    for _ in 0..nclients {
        let mut ops = vec![];
        let nops = 1 + rng.below(5);
        for _ in 0..nops {
            if held.is_empty() {
                break;
            }
            let h = *rng.pick(&held);
            match rng.below(12) {
                0 | 1 | 2 | 3 => {
                    next_m += 1;
                    next_b += 1;
                    // j = 2: the unit broadcast, which reaches the children attached with `add_child`
                    ops.push(Op::Send { h, m: next_m, script: vec![Act::SendToChildren { j: rng.below(3), b: next_b }] });
                }
                4 => {
                    next_m += 1;
                    ops.push(Op::Send { h, m: next_m, script: vec![] });
                }
                5 => ops.push(Op::Stop { h }),
                6 => {
                    ops.push(Op::Drop { h });
                    held.retain(|x| *x != h);
                }
                7 => {
                    ops.push(Op::Halt { h });
                    held.retain(|x| *x != h);
                }
                8 => {
                    next_m += 1;
                    ops.push(Op::Send { h, m: next_m, script: vec![Act::Panic] });
                    fault_tag = "handler_panic".into();
                }
                9 => {
                    if restartable[h] {
                        ops.push(Op::Restart { h })
                    }
                }
                10 => {
                    next_m += 1;
                    ops.push(Op::Send { h, m: next_m, script: vec![Act::CtxStop] });
                }
                _ => ops.push(if rng.chance(1, 2) { Op::Sleep(1 + rng.below(3) as u64) } else { Op::Yield }),
            }
        }
        clients.push(ops);
    }
    let mut cancel = None;
    if rng.chance(1, 6) {
        cancel = Some(Fault { actor: rng.below(n), at_poll: 1 + rng.below(8) as u32 });
        fault_tag = "cancel".into();
    }
    let prompt = rng.chance(5, 10);
    Case {
        program: Program { setup, clients },
        sched: sched(rng),
        prompt,
        horizon: 100,
        cancel,
        tags: vec![
            format!("nodes={}", n),
            format!("depth={}", depth.iter().max().unwrap() + 1),
            format!("outside={}", held.len()),
            format!("clients={}", nclients),
            format!("fault={}", fault_tag),
            format!("twice={}", twice),
            format!("prompt={}", prompt as u8),
        ],
    }
}

/// C08: concurrent histories of registry operations on 1-2 service types by 1-4 tasks, with
/// stop / halt / self-termination of the instances in between.
fn gen_registry(rng: &mut Rng) -> Case {
    let ntypes = 1 + rng.below(2);
    let nclients = 1 + rng.below(4);
    let mut next_h = 0usize;
    let mut next_a = 50usize;
    let mut next_m = 0usize;
    let mut clients: Vec<Vec<Op>> = vec![];
    let mut nops_total = 0;
    for _ in 0..nclients {
        let mut ops: Vec<Op> = vec![];
        let mut owned: Vec<usize> = vec![];
        let nops = 1 + rng.below(5);
        for _ in 0..nops {
            let k = 1 + rng.below(ntypes);
            let mut h = || {
                next_h += 1;
                next_h
            };
            match rng.below(15) {
                // re-register / replace with a handle this client already holds (possibly the registered instance itself)
                14 => {
                    if !owned.is_empty() {
                        let idx = rng.below(owned.len());
                        let hh = owned.swap_remove(idx);
                        if rng.chance(1, 2) {
                            let (h2, h3) = (h(), h());
                            ops.push(Op::Register { h: hh, h2, h3 });
                            owned.push(h2);
                            owned.push(h3);
                        } else {
                            let h3 = h();
                            ops.push(Op::Replace { h: hh, h3 });
                            owned.push(h3);
                        }
                    }
                }
                0 | 1 | 2 => {
                    let h2 = h();
                    ops.push(Op::FromRegistry { k, h2 });
                    owned.push(h2);
                }
                3 => ops.push(Op::Setup { k }),
                4 | 5 => {
                    let (hh, h2, h3) = (h(), h(), h());
                    let a = next_a;
                    next_a += 1;
                    let spec = SpawnSpec { k, ..default_spec() };
                    ops.push(Op::Spawn { a, spec, h: hh });
                    if rng.chance(1, 4) {
                        // register an instance that has already been stopped
                        ops.push(Op::Stop { h: hh });
                        ops.push(Op::Sleep(1));
                    }
                    if rng.chance(2, 3) {
                        ops.push(Op::Register { h: hh, h2, h3 });
                        owned.push(h2);
                        owned.push(h3);
                    } else {
                        ops.push(Op::Replace { h: hh, h3 });
                        owned.push(h3);
                    }
                }
                6 => {
                    let h2 = h();
                    ops.push(Op::Unregister { k, h2 });
                    owned.push(h2);
                }
                7 | 8 => {
                    let h2 = h();
                    ops.push(Op::TryFromRegistry { k, h2 });
                    owned.push(h2);
                }
                9 | 10 => ops.push(Op::AlreadyRunning { k }),
                11 | 12 => {
                    if !owned.is_empty() {
                        let hh = *rng.pick(&owned);
                        match rng.below(4) {
                            0 => ops.push(Op::Stop { h: hh }),
                            1 => {
                                ops.push(Op::Halt { h: hh });
                                owned.retain(|x| *x != hh);
                            }
                            2 => {
                                next_m += 1;
                                ops.push(Op::Send { h: hh, m: next_m, script: vec![Act::CtxStop] });
                            }
                            _ => {
                                ops.push(Op::Drop { h: hh });
                                owned.retain(|x| *x != hh);
                            }
                        }
                    } else {
                        ops.push(Op::Yield);
                    }
                }
                _ => {
                    if rng.chance(1, 2) {
                        ops.push(Op::Sleep(1 + rng.below(3) as u64))
                    } else {
                        ops.push(Op::Yield)
                    }
                }
            }
        }
        nops_total += ops.len();
        clients.push(ops);
    }
    let prompt = rng.chance(5, 10);
    Case {
        program: Program { setup: vec![], clients },
        sched: sched(rng),
        prompt,
        horizon: 100,
        cancel: None,
        tags: vec![
            format!("types={}", ntypes),
            format!("clients={}", nclients),
            format!("ops={}", nops_total),
            format!("prompt={}", prompt as u8),
        ],
    }
}

struct G<'a> {
    rng: &'a mut Rng,
    p: &'a Profile,
    next_h: usize,
    next_m: usize,
    next_t: usize,
    next_item: usize,
    stream: bool,
    restartable: bool,
}

impl<'a> G<'a> {
    fn h(&mut self) -> usize {
        let h = self.next_h;
        self.next_h += 1;
        h
    }
    fn m(&mut self) -> usize {
        self.next_m += 1;
        self.next_m
    }
    fn t(&mut self) -> usize {
        self.next_t += 1;
        self.next_t
    }
    fn timer_act(&mut self) -> Act {
        let t = self.t();
        let d = 1 + self.rng.below(12) as u64;
        match self.rng.below(4) {
            0 => Act::Interval { t, d },
            1 => Act::IntervalWith { t, d },
            2 => Act::DelayedSend { t, d },
            _ => Act::DelayedExec { t, d },
        }
    }
    fn script(&mut self) -> Vec<Act> {
        let mut s = vec![];
        if self.rng.chance(self.p.work, 10) {
            s.push(Act::Work(self.rng.below(5) as u64));
        }
        if self.rng.chance(self.p.ctx_acts, 10) {
            match self.rng.below(8) {
                0 | 1 => s.push(Act::CtxStop),
                2 => {
                    if self.restartable {
                        s.push(Act::CtxRestart)
                    }
                }
                3 => {
                    let h = self.h();
                    s.push(Act::WeakAddress(h))
                }
                4 => {
                    let h = self.h();
                    s.push(Act::WeakSender(h))
                }
                5 => {
                    let h = self.h();
                    s.push(Act::WeakCaller(h))
                }
                _ => s.push(Act::Yield),
            }
        }
        if self.rng.chance(self.p.timers, 30) {
            let a = self.timer_act();
            s.push(a);
        }
        if self.rng.chance(self.p.work, 20) {
            s.push(Act::Work(self.rng.below(4) as u64));
        }
        s
    }
}

fn gen_actor(p: &Profile, rng: &mut Rng) -> Case {
    let mut tags = vec![];
    let stream = rng.chance(p.stream, 10);
    let cap = if rng.chance(p.bounded, 10) { Some(rng.below(p.max_cap + 1)) } else { None };
    let strat = if stream {
        Strat::Non
    } else if p.strat_mix {
        *rng.pick(&[Strat::Only, Strat::Only, Strat::Recreate, Strat::Non])
    } else {
        Strat::Only
    };
    // a stream actor may be *configured* with a handler timeout too (the builder offers it before `with_stream`): the
    // stream loop does not use it - nothing is ever abandoned there (C13) - and the spawn line says `timeout none`
    let timeout = if stream {
        if rng.chance(3, 10) { Some(2 + rng.below(2) as u64) } else { None }
    } else if rng.chance(p.timeout, 10) {
        Some(2 + rng.below(6) as u64)
    } else {
        None
    };
    let fail = timeout.is_some() && rng.chance(1, 3);
    let owning = rng.chance(p.owning, 10);
    // restart requests are also sent to non-restartable plain spawns (they must ignore them)
    let mut g = G { rng, p, next_h: 1, next_m: 0, next_t: 0, next_item: 0, stream, restartable: !stream };
    // lifecycle behaviour
    let mut beh = Behaviour::default();
    let mut st0 = vec![];
    if g.rng.chance(p.timers, 10) {
        let n = 1 + g.rng.below(2);
        for _ in 0..n {
            let a = g.timer_act();
            st0.push(a);
        }
    }
    // now and then many timers at once (bookkeeping that only shows beyond a handful of handles)
    if p.timers > 0 && g.rng.chance(1, 15) {
        for _ in 0..9 {
            let a = g.timer_act();
            st0.push(a);
        }
    }
    if g.rng.chance(p.work, 20) {
        st0.push(Act::Work(g.rng.below(3) as u64));
    }
    beh.started = vec![st0.clone()];
    if g.rng.chance(p.work, 20) {
        // now and then longer than any handler timeout of the family: the timeout is for handlers only
        let d = if g.rng.chance(1, 3) { 6 + g.rng.below(4) } else { g.rng.below(3) };
        beh.stopped.push(Act::Work(d as u64));
    }
    if g.rng.chance(p.work, 10) {
        beh.tick.push(Act::Work(g.rng.below(3) as u64));
    }
    if g.rng.chance(p.work, 10) {
        beh.item.push(Act::Work(g.rng.below(3) as u64));
    }
    // an always-ready stream for a while: items take virtual time, so that clients get to run in between
    let burst = stream && g.rng.chance(1, 4);
    if burst {
        beh.item = vec![Act::Work(1)];
    }
    // faults
    let mut cancel = None;
    let mut fault_tag = "none";
    if g.rng.chance(p.faults, 10) {
        match g.rng.below(if stream { 8 } else { 6 }) {
            6 | 7 => {
                // a stream item handler panics
                beh.item.push(Act::Panic);
                fault_tag = "item_panic";
            }
            0 => {
                beh.started = vec![vec![Act::Fail]];
                fault_tag = "start_err";
            }
            1 => {
                beh.started = vec![vec![Act::Panic]];
                fault_tag = "start_panic";
            }
            2 => {
                beh.stopped.push(Act::Panic);
                fault_tag = "stopped_panic";
            }
            3 => {
                cancel = Some(Fault { actor: 0, at_poll: g.rng.below(8) as u32 });
                fault_tag = "cancel";
            }
            4 => {
                // failure on a later incarnation
                beh.started = vec![st0.clone(), vec![Act::Fail]];
                fault_tag = "restart_err";
            }
            _ => fault_tag = "handler_panic", // placed on a random message below
        }
    }
    let spec = SpawnSpec { k: 0, cap, strat, timeout, fail, stream, owning, plain_entry: false, behaviour: beh };
    tags.push(format!("cap={}", cap.map(|c| c.to_string()).unwrap_or("none".into())));
    tags.push(format!("strat={:?}", strat));
    tags.push(format!("timeout={}", timeout.map(|c| c.to_string()).unwrap_or("none".into())));
    tags.push(format!("stream={}", stream as u8));
    tags.push(format!("owning={}", owning as u8));
    tags.push(format!("fault={}", fault_tag));

    let mut setup = vec![Op::Spawn { a: 0, spec, h: 0 }];
    let nclients = 1 + g.rng.below(p.max_clients);
    tags.push(format!("clients={}", nclients));
    // (handle, kind) owned by each client; kind codes as in Profile.kinds, 6 = owning
    let mut owned: Vec<Vec<(usize, u8)>> = vec![vec![]; nclients];
    for c in 0..nclients {
        let kind = *g.rng.pick(p.kinds);
        let h = g.h();
        setup.push(match kind {
            0 => Op::ToAddr { h: 0, h2: h },
            1 => Op::MkSender { h: 0, h2: h },
            2 => Op::MkCaller { h: 0, h2: h },
            3 => Op::MkWeakSender { h: 0, h2: h },
            4 => Op::MkWeakCaller { h: 0, h2: h },
            _ => Op::Downgrade { h: 0, h2: h },
        });
        owned[c].push((h, kind));
    }
    let drop_root = g.rng.chance(p.drop_root, 10);
    if drop_root {
        if owning && g.rng.chance(1, 2) {
            let h = g.h();
            setup.push(Op::Detach { h: 0, h2: h });
            setup.push(Op::Drop { h });
        } else {
            setup.push(Op::Drop { h: 0 });
        }
    } else {
        owned[0].push((0, if owning { 6 } else { 0 }));
    }
    tags.push(format!("droproot={}", drop_root as u8));

    let panic_at = if fault_tag == "handler_panic" { Some(1 + g.rng.below(4)) } else { None };
    let mut clients: Vec<Vec<Op>> = vec![];
    let weights = [
        p.w_send, p.w_call, p.w_ping, p.w_handles, p.w_drop, p.w_stop, p.w_restart, p.w_await, p.w_query, p.w_sleep,
        if stream { p.w_stream } else { 0 }, p.w_cancel_call,
    ];
    let total: u32 = weights.iter().sum();
    for c in 0..nclients {
        let mut ops: Vec<Op> = vec![];
        let nops = 1 + g.rng.below(p.max_ops);
        for _ in 0..nops {
            if owned[c].is_empty() {
                break;
            }
            let mut r = g.rng.below(total as usize) as u32;
            let mut which = 0;
            for (i, w) in weights.iter().enumerate() {
                if r < *w {
                    which = i;
                    break;
                }
                r -= *w;
            }
            // occasionally use somebody else's handle or a stale id (odd stream)
            let (h, kind) = if g.rng.chance(1, 25) {
                let oc = g.rng.below(nclients);
                if owned[oc].is_empty() { owned[c][0] } else { *g.rng.pick(&owned[oc]) }
            } else {
                *g.rng.pick(&owned[c])
            };
            let strong_addr = kind == 0;
            match which {
                0 => {
                    // send-like: addr / owning / sender / weaksender
                    let (hh, hk) = pick_kind(&owned[c], &[0, 6, 1, 3], g.rng).unwrap_or((h, kind));
                    let m = g.m();
                    let mut script = g.script();
                    if panic_at == Some(m) {
                        script.push(Act::Panic);
                    }
                    if hk == 1 && g.rng.chance(1, 4) {
                        // a batch of `Sender::send` futures created before any of them is polled
                        let mut msgs = vec![(m, script)];
                        for _ in 0..(1 + g.rng.below(3)) {
                            let m2 = g.m();
                            msgs.push((m2, vec![]));
                        }
                        ops.push(Op::SendBatch { h: hh, msgs });
                    } else if hk == 3 && g.rng.chance(1, 3) {
                        // the forcing path of a weak sender (never waits for mailbox space)
                        ops.push(Op::ForceSend { h: hh, m, script });
                    } else {
                        ops.push(Op::Send { h: hh, m, script });
                    }
                }
                1 => {
                    let (hh, _) = pick_kind(&owned[c], &[0, 6, 2, 4], g.rng).unwrap_or((h, kind));
                    let m = g.m();
                    let mut script = g.script();
                    if panic_at == Some(m) {
                        script.push(Act::Panic);
                    }
                    ops.push(Op::Call { h: hh, m, script });
                }
                2 => {
                    if let Some((hh, _)) = pick_kind(&owned[c], &[0, 6], g.rng) {
                        ops.push(Op::Ping { h: hh });
                    }
                }
                3 => {
                    let h2 = g.h();
                    let (op, k2): (Op, u8) = match (kind, g.rng.below(7)) {
                        (0, 0) | (0, 6) => (Op::Clone { h, h2 }, 0),
                        (0, 1) | (6, 1) => (Op::MkSender { h, h2 }, 1),
                        (0, 2) | (6, 2) => (Op::MkCaller { h, h2 }, 2),
                        (0, 3) | (6, 3) => (Op::MkWeakSender { h, h2 }, 3),
                        (0, 4) | (6, 4) => (Op::MkWeakCaller { h, h2 }, 4),
                        (0, 5) | (6, 5) => (Op::Downgrade { h, h2 }, 5),
                        (6, _) => (Op::ToAddr { h, h2 }, 0),
                        (1, 0) | (1, 1) | (1, 2) => (Op::Clone { h, h2 }, 1),
                        (1, _) => (Op::Downgrade { h, h2 }, 3),
                        (2, 0) | (2, 1) | (2, 2) => (Op::Clone { h, h2 }, 2),
                        (2, _) => (Op::Downgrade { h, h2 }, 4),
                        (3, 0) | (3, 1) => (Op::Clone { h, h2 }, 3),
                        (3, _) => (Op::Upgrade { h, h2 }, 1),
                        (4, 0) | (4, 1) => (Op::Clone { h, h2 }, 4),
                        (4, _) => (Op::Upgrade { h, h2 }, 2),
                        (5, 0) | (5, 1) => (Op::Clone { h, h2 }, 5),
                        (_, _) => (Op::Upgrade { h, h2 }, 0),
                    };
                    ops.push(op);
                    owned[c].push((h2, k2));
                }
                4 => {
                    ops.push(Op::Drop { h });
                    owned[c].retain(|x| x.0 != h);
                }
                5 => match kind {
                    0 => {
                        if g.rng.chance(1, 3) {
                            ops.push(Op::Halt { h });
                            owned[c].retain(|x| x.0 != h);
                        } else {
                            ops.push(Op::Stop { h });
                        }
                    }
                    5 => {
                        if g.rng.chance(1, 2) {
                            ops.push(Op::TryHalt { h })
                        } else {
                            ops.push(Op::TryStop { h })
                        }
                    }
                    6 => {
                        if g.rng.chance(1, 3) {
                            ops.push(Op::ConsumeSync { h });
                        } else {
                            ops.push(Op::Consume { h });
                        }
                        owned[c].retain(|x| x.0 != h);
                    }
                    _ => {}
                },
                6 => {
                    if strong_addr && g.restartable {
                        ops.push(Op::Restart { h });
                    }
                }
                7 => match kind {
                    0 => ops.push(Op::Await { h }),
                    6 => {
                        if g.rng.chance(1, 4) {
                            let h2 = g.h();
                            ops.push(Op::Detach { h, h2 });
                            owned[c].retain(|x| x.0 != h);
                            owned[c].push((h2, 0));
                        } else {
                            if g.rng.chance(1, 3) {
                                ops.push(Op::JoinDiscard { h });
                            }
                            if g.rng.chance(1, 4) {
                                // a join future polled once and left pending while this client goes on
                                ops.push(Op::JoinPark { h });
                            }
                            ops.push(Op::Join { h })
                        }
                    }
                    _ => {}
                },
                8 => {
                    if kind == 0 || kind == 5 || kind == 6 {
                        if g.rng.chance(1, 2) || kind == 5 {
                            ops.push(Op::Stopped { h })
                        } else {
                            ops.push(Op::Running { h })
                        }
                    }
                }
                9 => ops.push(Op::Sleep(1 + g.rng.below(6) as u64)),
                10 => {
                    if g.stream {
                        if burst && g.rng.chance(1, 2) {
                            ops.push(Op::StreamBurst { a: 0, from: g.next_item, n: 70 });
                            g.next_item += 70;
                            ops.push(Op::Sleep(2 + g.rng.below(4) as u64));
                        } else if g.rng.chance(1, 6) {
                            ops.push(Op::StreamEnd { a: 0 });
                        } else {
                            let k = g.next_item;
                            g.next_item += 1;
                            ops.push(Op::StreamReady { a: 0, k });
                        }
                    }
                }
                _ => {
                    if let Some((hh, _)) = pick_kind(&owned[c], &[0, 6, 2], g.rng) {
                        let m = g.m();
                        let script = vec![Act::Work(1 + g.rng.below(4) as u64)];
                        ops.push(Op::CallCancel { h: hh, m, script, after: g.rng.below(4) as u64 });
                    }
                }
            }
            if g.rng.chance(1, 8) {
                ops.push(Op::Yield);
            }
        }
        clients.push(ops);
    }
    // a failure of a later incarnation needs a restart to show, and somebody who waits for the outcome
    if fault_tag == "restart_err" && g.restartable {
        let cands: Vec<usize> = (0..nclients).filter(|c| owned[*c].iter().any(|x| x.1 == 0)).collect();
        if !cands.is_empty() {
            let c = *g.rng.pick(&cands);
            let h = owned[c].iter().find(|x| x.1 == 0).unwrap().0;
            clients[c].push(Op::Restart { h });
            if g.rng.chance(2, 3) {
                let c2 = *g.rng.pick(&cands);
                let h2 = owned[c2].iter().find(|x| x.1 == 0).unwrap().0;
                clients[c2].push(Op::Await { h: h2 });
            }
        }
    }
    // finale: every client lets go of whatever it still holds, so that the actor ends by the last drop with
    // whatever is queued at that moment (sends, calls, restart markers, timers)
    let finale = g.rng.chance(3, 10);
    if finale {
        for c in 0..nclients {
            for (h, _) in owned[c].clone() {
                clients[c].push(Op::Drop { h });
            }
        }
    }
    tags.push(format!("finale={}", finale as u8));
    let prompt = g.rng.chance(p.prompt, 10);
    tags.push(format!("prompt={}", prompt as u8));
    Case {
        program: Program { setup, clients },
        sched: sched(g.rng),
        prompt,
        horizon: p.horizon,
        cancel,
        tags,
    }
}

fn pick_kind(owned: &[(usize, u8)], kinds: &[u8], rng: &mut Rng) -> Option<(usize, u8)> {
    let c: Vec<(usize, u8)> = owned.iter().filter(|x| kinds.contains(&x.1)).cloned().collect();
    if c.is_empty() { None } else { Some(*rng.pick(&c)) }
}

/// SMALL: a uniform draw from a small, systematically structured space of single-actor programs - every
/// strategy x mailbox x fault kind, one client with 1-4 operations from a fixed alphabet, an optional second
/// client with one of a few two-step programs, and an optional finale in which everybody lets go of everything.
/// The weighted profiles above reach combinations such as "restart, then drop the last handle" or "a later
/// start fails, restart, await" only by luck; here each adjacent pair of operations has probability ~1/250.
fn gen_small(rng: &mut Rng) -> Case {
    let mut tags = vec![];
    let strat = *rng.pick(&[Strat::Only, Strat::Recreate, Strat::Non]);
    let mut cap = *rng.pick(&[None, None, Some(0), Some(1), Some(2)]);
    let owning = rng.chance(1, 3);
    let mut beh = Behaviour::default();
    let mut st0 = vec![];
    let mut next_t = 0usize;
    if rng.chance(1, 4) {
        st0.push(Act::Work(1));
    }
    if rng.chance(1, 4) {
        next_t += 1;
        let d = 1 + rng.below(4) as u64;
        st0.push(match rng.below(4) {
            0 => Act::Interval { t: next_t, d },
            1 => Act::IntervalWith { t: next_t, d },
            2 => Act::DelayedSend { t: next_t, d },
            _ => Act::DelayedExec { t: next_t, d },
        });
    }
    beh.started = vec![st0.clone()];
    if rng.chance(1, 4) {
        beh.stopped.push(Act::Work(if rng.chance(1, 2) { 1 } else { 4 }));
    }
    let mut timeout = None;
    let mut fail = false;
    let mut slow_first = false;
    let mut panic_first = false;
    // one handler that takes longer than a second while sends wait behind it on a small bounded mailbox: a wait of
    // any length is still a wait (C12), and nothing else in the families lets virtual time run that far
    let mut very_slow = false;
    let fault_tag = match rng.below(9) {
        6 if next_t == 0 => {
            very_slow = true;
            cap = Some(rng.below(3));
            "none"
        }
        0 => {
            beh.started = vec![vec![Act::Fail]];
            "start_err"
        }
        1 => {
            beh.stopped.push(Act::Panic);
            "stopped_panic"
        }
        2 => {
            beh.started = vec![st0.clone(), vec![Act::Fail]];
            "restart_err"
        }
        3 => {
            panic_first = true;
            "handler_panic"
        }
        4 => {
            timeout = Some(2);
            fail = true;
            slow_first = true;
            "timeout_fail"
        }
        5 => {
            timeout = Some(2);
            slow_first = true;
            "timeout"
        }
        _ => "none",
    };
    let spec = SpawnSpec { k: 0, cap, strat, timeout, fail, stream: false, owning, plain_entry: false, behaviour: beh };
    tags.push(format!("cap={}", cap.map(|c| c.to_string()).unwrap_or("none".into())));
    tags.push(format!("strat={:?}", strat));
    tags.push(format!("timeout={}", timeout.map(|c| c.to_string()).unwrap_or("none".into())));
    tags.push("stream=0".to_string());
    tags.push(format!("owning={}", owning as u8));
    tags.push(format!("fault={}", fault_tag));
    let mut setup = vec![Op::Spawn { a: 0, spec, h: 0 }];
    // handles: 0 = what spawn returned; 1 = a plain Addr for client A; 2 = a plain Addr for client B
    setup.push(if owning { Op::ToAddr { h: 0, h2: 1 } } else { Op::Clone { h: 0, h2: 1 } });
    let two = rng.chance(1, 2);
    if two {
        setup.push(Op::Clone { h: 1, h2: 2 });
    }
    let keep_root = rng.chance(1, 2);
    if !keep_root {
        setup.push(Op::Drop { h: 0 });
    }
    tags.push(format!("clients={}", 1 + two as usize));
    tags.push(format!("droproot={}", !keep_root as u8));
    let mut next_m = 0usize;
    let mut next_h = 3usize;
    let mut first_msg = true;
    let script_for = |first: &mut bool, base: Vec<Act>| -> Vec<Act> {
        let mut s = base;
        if *first {
            *first = false;
            if slow_first {
                s.push(Act::Work(5));
            }
            if very_slow {
                s.push(Act::Work(1300));
            }
            if panic_first {
                s.push(Act::Panic);
            }
        }
        s
    };
    let mut a_ops: Vec<Op> = vec![];
    let mut a_has = true; // client A still holds handle 1
    let n = 1 + rng.below(4);
    if very_slow {
        for _ in 0..(4 + rng.below(3)) {
            next_m += 1;
            a_ops.push(Op::Send { h: 1, m: next_m, script: script_for(&mut first_msg, vec![]) });
        }
    }
    for _ in 0..n {
        if !a_has {
            break;
        }
        match rng.below(19) {
            0 => {
                next_m += 1;
                a_ops.push(Op::Send { h: 1, m: next_m, script: script_for(&mut first_msg, vec![]) });
            }
            1 => {
                next_m += 1;
                a_ops.push(Op::Send { h: 1, m: next_m, script: script_for(&mut first_msg, vec![Act::Work(3)]) });
            }
            2 => {
                next_m += 1;
                a_ops.push(Op::Call { h: 1, m: next_m, script: script_for(&mut first_msg, vec![]) });
            }
            3 => {
                next_m += 1;
                a_ops.push(Op::Call { h: 1, m: next_m, script: script_for(&mut first_msg, vec![Act::Work(2)]) });
            }
            4 => {
                next_m += 1;
                a_ops.push(Op::CallCancel { h: 1, m: next_m, script: script_for(&mut first_msg, vec![Act::Work(1)]), after: rng.below(3) as u64 });
            }
            5 => a_ops.push(Op::Ping { h: 1 }),
            6 => a_ops.push(Op::Stop { h: 1 }),
            7 => a_ops.push(Op::Restart { h: 1 }),
            8 => a_ops.push(Op::Await { h: 1 }),
            9 => {
                a_ops.push(Op::Halt { h: 1 });
                a_has = false;
            }
            10 => {
                a_ops.push(Op::Drop { h: 1 });
                a_has = false;
            }
            11 => a_ops.push(Op::Sleep(1 + rng.below(3) as u64)),
            12 => {
                next_m += 1;
                a_ops.push(Op::Send { h: 1, m: next_m, script: script_for(&mut first_msg, vec![Act::CtxStop]) });
            }
            13 => {
                next_m += 1;
                a_ops.push(Op::Send { h: 1, m: next_m, script: script_for(&mut first_msg, vec![Act::CtxRestart]) });
            }
            14 => a_ops.push(if rng.chance(1, 2) { Op::Stopped { h: 1 } } else { Op::Running { h: 1 } }),
            18 => {
                // three `Sender::send` futures created first, then driven together
                let hs = next_h;
                next_h += 1;
                a_ops.push(Op::MkSender { h: 1, h2: hs });
                let mut msgs = vec![];
                for _ in 0..3 {
                    next_m += 1;
                    msgs.push((next_m, script_for(&mut first_msg, vec![])));
                }
                a_ops.push(Op::SendBatch { h: hs, msgs });
            }
            17 => {
                // WeakSender::try_force_send, twice in a row (never waits, bounded or not)
                let hw = next_h;
                next_h += 1;
                a_ops.push(Op::MkWeakSender { h: 1, h2: hw });
                for _ in 0..2 {
                    next_m += 1;
                    a_ops.push(Op::ForceSend { h: hw, m: next_m, script: script_for(&mut first_msg, vec![]) });
                }
            }
            15 => {
                // a weak handle, upgraded later
                let hw = next_h;
                let hu = next_h + 1;
                next_h += 2;
                a_ops.push(match rng.below(3) {
                    0 => Op::Downgrade { h: 1, h2: hw },
                    1 => Op::MkWeakSender { h: 1, h2: hw },
                    _ => Op::MkWeakCaller { h: 1, h2: hw },
                });
                a_ops.push(Op::Sleep(1 + rng.below(3) as u64));
                a_ops.push(Op::Upgrade { h: hw, h2: hu });
                a_ops.push(Op::Drop { h: hu });
            }
            _ => {
                if owning && keep_root {
                    a_ops.push(match rng.below(5) {
                        0 => Op::Join { h: 0 },
                        1 => Op::JoinPark { h: 0 },
                        2 => Op::Consume { h: 0 },
                        3 => Op::ConsumeSync { h: 0 },
                        _ => Op::JoinDiscard { h: 0 },
                    });
                } else {
                    a_ops.push(Op::Yield);
                }
            }
        }
    }
    let mut b_ops: Vec<Op> = vec![];
    let mut b_has = two;
    if two {
        match rng.below(10) {
            0 => {}
            1 => {
                next_m += 1;
                b_ops.push(Op::Send { h: 2, m: next_m, script: script_for(&mut first_msg, vec![]) });
            }
            2 => b_ops.push(Op::Await { h: 2 }),
            3 => {
                next_m += 1;
                b_ops.push(Op::Send { h: 2, m: next_m, script: script_for(&mut first_msg, vec![]) });
                b_ops.push(Op::Drop { h: 2 });
                b_has = false;
            }
            4 => b_ops.push(Op::Restart { h: 2 }),
            5 => b_ops.push(Op::Stop { h: 2 }),
            6 => {
                next_m += 1;
                b_ops.push(Op::Call { h: 2, m: next_m, script: script_for(&mut first_msg, vec![Act::Work(1)]) });
            }
            7 => {
                b_ops.push(Op::Sleep(3));
                next_m += 1;
                b_ops.push(Op::Send { h: 2, m: next_m, script: script_for(&mut first_msg, vec![]) });
            }
            8 => {
                b_ops.push(Op::Drop { h: 2 });
                b_has = false;
            }
            _ => {
                b_ops.push(Op::Restart { h: 2 });
                b_ops.push(Op::Await { h: 2 });
            }
        }
    }
    let finale = rng.chance(1, 2);
    if finale {
        if a_has {
            a_ops.push(Op::Drop { h: 1 });
        }
        if keep_root {
            a_ops.push(Op::Drop { h: 0 });
        }
        if b_has {
            b_ops.push(Op::Drop { h: 2 });
        }
    }
    tags.push(format!("finale={}", finale as u8));
    let mut clients = vec![a_ops];
    if two {
        clients.push(b_ops);
    }
    let prompt = rng.chance(1, 2);
    tags.push(format!("prompt={}", prompt as u8));
    tags.push(format!("veryslow={}", very_slow as u8));
    Case { program: Program { setup, clients }, sched: sched(rng), prompt, horizon: if very_slow { 3000 } else { 100 }, cancel: None, tags }
}
