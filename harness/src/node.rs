//! The scripted actor type the harness runs on real hannibal, and its messages.
//!
//! `Node<K>`: one generic actor type (K distinguishes service types). Its state
//! is the list of message ids it has begun handling (the "digest"), so replies
//! and the joined value expose the sequential fold of the handled messages.

use std::{cell::RefCell, collections::HashMap, time::Duration};

use hannibal::{Actor, Context, DynResult, Handler, Message, RestartableActor, Service, StreamHandler};

use crate::exec::{TaskKind, cur, emit};
use crate::prog::{HandleBox, POOL};

/// What a callback does, step by step. Plain data (must be `Send`).
#[derive(Clone, Debug, PartialEq)]
pub enum Act {
    /// virtual work: sleep `d` ms on the harness clock
    Work(u64),
    /// yield once to the scheduler
    Yield,
    CtxStop,
    CtxRestart,
    Panic,
    /// only meaningful in `started`: return Err
    Fail,
    Interval { t: usize, d: u64 },
    IntervalWith { t: usize, d: u64 },
    DelayedSend { t: usize, d: u64 },
    DelayedExec { t: usize, d: u64 },
    /// take handle `h` (an Addr / Sender<Note>) from the pool and add it as child
    AddChild(usize),
    /// register under Bcast<J>
    RegisterChild { j: usize, h: usize },
    SendToChildren { j: usize, b: usize },
    Subscribe(usize),
    Publish { j: usize, m: usize },
    /// create handles from the context and put them into the pool
    WeakAddress(usize),
    WeakSender(usize),
    WeakCaller(usize),
    /// from_registry::<Node<k>>() inside a handler, put into pool as h
    FromRegistry { k: usize, h: usize },
}

#[derive(Clone, Debug, Default)]
pub struct Behaviour {
    /// script of `started` for incarnation index i (last entry repeats)
    pub started: Vec<Vec<Act>>,
    pub stopped: Vec<Act>,
    pub finished: Vec<Act>,
    /// script for stream items
    pub item: Vec<Act>,
    /// script for ticks / broadcasts / topic deliveries
    pub tick: Vec<Act>,
}

thread_local! {
    /// behaviours by actor id (set by the program before spawning)
    pub static BEHAV: RefCell<HashMap<usize, Behaviour>> = RefCell::new(HashMap::new());
    /// unit broadcasts: parent actor -> children registered with `add_child` (one entry per registration), and
    /// child actor -> numbers of the unit broadcasts submitted to it and not yet handled
    pub static UNIT_CHILDREN: RefCell<HashMap<usize, Vec<usize>>> = RefCell::new(HashMap::new());
    pub static UNITQ: RefCell<HashMap<usize, std::collections::VecDeque<usize>>> = RefCell::new(HashMap::new());
    /// actor id -> number of `started` callbacks begun so far (all incarnations, all values)
    pub static STARTS: RefCell<HashMap<usize, usize>> = RefCell::new(HashMap::new());
    pub static NEXT_ACTOR: RefCell<usize> = const { RefCell::new(0) };
    pub static NEXT_BIRTH: RefCell<usize> = const { RefCell::new(0) };
    pub static NEXT_MSG: RefCell<usize> = const { RefCell::new(100000) };
    pub static NEXT_TIMER: RefCell<usize> = const { RefCell::new(0) };
    /// per actor: (open callback depth, last closed callback was `stopped`)
    pub static CBSTATE: RefCell<HashMap<usize, (u32, bool)>> = RefCell::new(HashMap::new());
    /// behaviour to give to actors created through Default outside a recreate (services)
    pub static DEFAULT_BEHAV: RefCell<Behaviour> = RefCell::new(Behaviour::default());
}

pub fn reset_ids() {
    BEHAV.with(|b| b.borrow_mut().clear());
    NEXT_ACTOR.with(|b| *b.borrow_mut() = 0);
    NEXT_BIRTH.with(|b| *b.borrow_mut() = 0);
    NEXT_MSG.with(|b| *b.borrow_mut() = 100000);
    NEXT_TIMER.with(|b| *b.borrow_mut() = 0);
    CBSTATE.with(|b| b.borrow_mut().clear());
    DEFAULT_BEHAV.with(|b| *b.borrow_mut() = Behaviour::default());
}

pub fn fresh_actor_id() -> usize {
    NEXT_ACTOR.with(|n| {
        let mut n = n.borrow_mut();
        let v = *n;
        *n += 1;
        v
    })
}
fn fresh_birth() -> usize {
    NEXT_BIRTH.with(|n| {
        let mut n = n.borrow_mut();
        let v = *n;
        *n += 1;
        v
    })
}
/// timer ids are allocated when a timer is registered (scripts may run several times)
pub fn fresh_timer(a: usize) -> usize {
    let t = NEXT_TIMER.with(|n| {
        let mut n = n.borrow_mut();
        let v = *n;
        *n += 1;
        v
    });
    cur().reg_timer.set(Some((a, t)));
    t
}
/// message ids for timer-produced messages
pub fn fresh_msg() -> usize {
    NEXT_MSG.with(|n| {
        let mut n = n.borrow_mut();
        let v = *n;
        *n += 1;
        v
    })
}

#[derive(Debug)]
pub struct Node<const K: usize> {
    pub id: usize,
    pub birth: usize,
    pub inc: usize,
    /// ids of messages whose handling began, in order
    pub log: Vec<usize>,
    /// ids of messages whose handling completed
    pub done: Vec<usize>,
    pub stopped_seen: bool,
}

impl<const K: usize> Node<K> {
    pub fn new(id: usize) -> Self {
        let birth = fresh_birth();
        cur().last_constructed.set(Some(id));
        emit(format!("vnew {} {} {}", id, birth, K));
        Node { id, birth, inc: 0, log: vec![], done: vec![], stopped_seen: false }
    }
    pub fn digest(&self) -> String {
        digest_of(&self.log)
    }
}

pub fn digest_of(log: &[usize]) -> String {
    let mut s = format!("{}", log.len());
    for m in log {
        s.push(' ');
        s.push_str(&m.to_string());
    }
    s
}

impl<const K: usize> Default for Node<K> {
    fn default() -> Self {
        // recreate-from-default inside the loop task of actor a, right after its
        // `stopped` callback closed => same actor id; otherwise a new actor.
        let c = cur();
        let in_loop_of = match c.current_kind() {
            Some(TaskKind::Actor(a)) => Some(a),
            _ => None,
        };
        let recreate_of = in_loop_of.filter(|a| {
            CBSTATE.with(|s| s.borrow().get(a).map(|(d, last_stopped)| *d == 0 && *last_stopped).unwrap_or(false))
        });
        match recreate_of {
            Some(a) => {
                let birth = fresh_birth();
                // the scripts of `started` are indexed by the actor's incarnation, whichever value runs it: a value
                // recreated from `Default` carries on where its predecessor left off (so that "a later start fails"
                // means the same under both restart strategies)
                let inc = STARTS.with(|m| m.borrow().get(&a).copied().unwrap_or(0));
                emit(format!("vnew {} {} {}", a, birth, K));
                Node { id: a, birth, inc, log: vec![], done: vec![], stopped_seen: false }
            }
            None => {
                let id = fresh_actor_id();
                let b = DEFAULT_BEHAV.with(|b| b.borrow().clone());
                BEHAV.with(|m| m.borrow_mut().insert(id, b));
                emit(format!("svcnew {} {}", id, K));
                if let Some(TaskKind::Client(c)) = c.current_kind() {
                    if let Some(o) = crate::prog::CUR_REG.with(|m| m.borrow().get(&c).copied()) {
                        emit(format!("rspawn {} {} {}", o, id, K));
                    }
                }
                Node::new(id)
            }
        }
    }
}

impl<const K: usize> Drop for Node<K> {
    fn drop(&mut self) {
        emit(format!("vdrop {} {}", self.id, self.birth));
    }
}

// ---------------------------------------------------------------- messages

/// call-style message: response is a `Reply`
pub struct Req {
    pub m: usize,
    pub script: Vec<Act>,
}
#[derive(Debug, Clone, PartialEq)]
pub struct Reply {
    pub m: usize,
    pub actor: usize,
    pub birth: usize,
    pub digest: String,
}
impl Message for Req {
    type Response = Reply;
}

/// fire-and-forget message
pub struct Note {
    pub m: usize,
    pub script: Vec<Act>,
}
impl Message for Note {
    type Response = ();
}

/// timer tick for `interval` (cloned by hannibal)
#[derive(Clone)]
pub struct Tick {
    pub t: usize,
}
impl Message for Tick {
    type Response = ();
}

/// broadcast to children registered under J
#[derive(Clone)]
pub struct Bcast<const J: usize> {
    pub b: usize,
}
impl<const J: usize> Message for Bcast<J> {
    type Response = ();
}

/// broker topic J
#[derive(Clone)]
pub struct Topic<const J: usize> {
    pub m: usize,
}
impl<const J: usize> Message for Topic<J> {
    type Response = ();
}

/// stream item
pub struct Item(pub usize);

// ---------------------------------------------------------------- callbacks

struct CbGuard {
    a: usize,
    cb: String,
    done: bool,
}
impl CbGuard {
    fn begin(a: usize, birth: usize, cb: String) -> Self {
        emit(format!("cbb {} {} {}", a, birth, cb));
        CBSTATE.with(|s| {
            let mut s = s.borrow_mut();
            let e = s.entry(a).or_insert((0, false));
            e.0 += 1;
            e.1 = false;
        });
        CbGuard { a, cb, done: false }
    }
    fn end(mut self, ok: bool) {
        self.done = true;
        let stopped = self.cb.starts_with("stopped");
        CBSTATE.with(|s| {
            let mut s = s.borrow_mut();
            let e = s.entry(self.a).or_insert((1, false));
            e.0 = e.0.saturating_sub(1);
            e.1 = stopped;
        });
        emit(format!("cbe {} {} {}", self.a, self.cb, if ok { "ok" } else { "err" }));
    }
}
impl Drop for CbGuard {
    fn drop(&mut self) {
        if !self.done {
            CBSTATE.with(|s| {
                let mut s = s.borrow_mut();
                let e = s.entry(self.a).or_insert((1, false));
                e.0 = e.0.saturating_sub(1);
                e.1 = false;
            });
            if std::thread::panicking() {
                emit(format!("cbp {} {}", self.a, self.cb));
            } else {
                emit(format!("cba {} {}", self.a, self.cb));
            }
        }
    }
}

async fn yield_once() {
    let mut first = true;
    futures::future::poll_fn(move |cx| {
        if first {
            first = false;
            cx.waker().wake_by_ref();
            std::task::Poll::Pending
        } else {
            std::task::Poll::Ready(())
        }
    })
    .await
}

/// Runs a script inside a callback. Returns Err for `Fail`.
async fn run_script<const K: usize>(node: &mut Node<K>, ctx: &mut Context<Node<K>>, script: &[Act]) -> Result<(), ()> {
    let a = node.id;
    for act in script {
        match act {
            Act::Work(d) => {
                emit(format!("work {} {}", a, d));
                let f = cur().sleep(*d);
                f.await;
            }
            Act::Yield => yield_once().await,
            Act::CtxStop => {
                let r = ctx.stop();
                emit(format!("ctx {} stop {}", a, res_str(&r)));
            }
            Act::CtxRestart => {
                let r = ctx.restart();
                emit(format!("ctx {} restart {}", a, res_str(&r)));
            }
            Act::Panic => {
                panic!("scripted panic in actor {}", a);
            }
            Act::Fail => return Err(()),
            Act::Interval { d, .. } => {
                let t = &fresh_timer(a);
                ctx.interval(Tick { t: *t }, Duration::from_millis(*d));
                emit(format!("ctx {} interval {} {}", a, t, d));
            }
            Act::IntervalWith { d, .. } => {
                let t = fresh_timer(a);
                ctx.interval_with(
                    move || {
                        let m = fresh_msg();
                        emit(format!("fire {} {} {}", a, t, m));
                        Note { m, script: vec![] }
                    },
                    Duration::from_millis(*d),
                );
                emit(format!("ctx {} interval_with {} {}", a, t, d));
            }
            Act::DelayedSend { d, .. } => {
                let t = fresh_timer(a);
                ctx.delayed_send(
                    move || {
                        let m = fresh_msg();
                        emit(format!("fire {} {} {}", a, t, m));
                        Note { m, script: vec![] }
                    },
                    Duration::from_millis(*d),
                );
                emit(format!("ctx {} delayed_send {} {}", a, t, d));
            }
            Act::DelayedExec { d, .. } => {
                let t = fresh_timer(a);
                ctx.delayed_exec(
                    async move {
                        emit(format!("fire {} {} -", a, t));
                    },
                    Duration::from_millis(*d),
                );
                emit(format!("ctx {} delayed_exec {} {}", a, t, d));
            }
            Act::AddChild(h) => {
                let taken = POOL.with(|p| p.borrow_mut().remove(h));
                match taken {
                    Some(HandleBox::SenderUnit(child, s)) => {
                        ctx.add_child(s);
                        UNIT_CHILDREN.with(|u| u.borrow_mut().entry(a).or_default().push(child));
                        emit(format!("ctx {} add_child {}", a, h));
                    }
                    Some(other) => {
                        POOL.with(|p| p.borrow_mut().insert(*h, other));
                    }
                    None => {}
                }
            }
            Act::RegisterChild { j, h } => {
                let taken = POOL.with(|p| p.borrow_mut().remove(h));
                match (j, taken) {
                    (0, Some(HandleBox::SenderB0(s))) => {
                        ctx.register_child::<Bcast<0>>(s);
                        emit(format!("ctx {} register_child {} {}", a, j, h));
                    }
                    (1, Some(HandleBox::SenderB1(s))) => {
                        ctx.register_child::<Bcast<1>>(s);
                        emit(format!("ctx {} register_child {} {}", a, j, h));
                    }
                    (_, Some(other)) => {
                        POOL.with(|p| p.borrow_mut().insert(*h, other));
                    }
                    _ => {}
                }
            }
            Act::SendToChildren { j, b } => {
                let mut unit = false;
                match j {
                    0 => ctx.send_to_children(Bcast::<0> { b: *b }),
                    1 => ctx.send_to_children(Bcast::<1> { b: *b }),
                    _ => {
                        // the unit message carries no number: the number of this broadcast is queued, once per
                        // `add_child` registration made through this actor's context and in registration order, for
                        // the child's `Handler<()>` to pick up - `force_send` is synchronous, so the queue order is
                        // the order of the child's mailbox.  A delivery that never happens leaves its number unclaimed
                        // (the model then misses it); one too many finds the queue empty (number 0: never broadcast)
                        ctx.send_to_children(());
                        let kids = UNIT_CHILDREN.with(|u| u.borrow().get(&a).cloned().unwrap_or_default());
                        UNITQ.with(|q| {
                            let mut q = q.borrow_mut();
                            for k in kids {
                                q.entry(k).or_default().push_back(*b);
                            }
                        });
                        emit(format!("ctx {} send_to_children_unit {}", a, b));
                        unit = true;
                    }
                }
                if !unit {
                    emit(format!("ctx {} send_to_children {} {}", a, j, b));
                }
            }
            Act::Subscribe(j) => {
                let o = crate::prog::fresh_op();
                emit(format!("bbegin {} sub {} {}", o, j, a));
                let r = match j {
                    0 => ctx.subscribe::<Topic<0>>().await,
                    _ => ctx.subscribe::<Topic<1>>().await,
                };
                emit(format!("bret {} {}", o, res_str(&r)));
            }
            Act::Publish { j, m } => {
                let o = crate::prog::fresh_op();
                emit(format!("bbegin {} pub {} {}", o, j, m));
                let r = match j {
                    0 => ctx.publish(Topic::<0> { m: *m }).await,
                    _ => ctx.publish(Topic::<1> { m: *m }).await,
                };
                emit(format!("bret {} {}", o, res_str(&r)));
            }
            Act::WeakAddress(h) => match ctx.weak_address() {
                Some(w) => {
                    POOL.with(|p| p.borrow_mut().insert(*h, HandleBox::weak_addr(a, w)));
                    emit(format!("ctx {} weak_address some {}", a, h));
                }
                None => emit(format!("ctx {} weak_address none", a)),
            },
            Act::WeakSender(h) => {
                let w = ctx.weak_sender::<Note>();
                POOL.with(|p| p.borrow_mut().insert(*h, HandleBox::WeakSenderNote(a, w)));
                emit(format!("ctx {} weak_sender {}", a, h));
            }
            Act::WeakCaller(h) => {
                let w = ctx.weak_caller::<Req, Reply>();
                POOL.with(|p| p.borrow_mut().insert(*h, HandleBox::WeakCallerReq(a, w)));
                emit(format!("ctx {} weak_caller {}", a, h));
            }
            Act::FromRegistry { k, h } => {
                emit(format!("ctx {} from_registry_begin {}", a, k));
                let hb = match k {
                    1 => {
                        let addr = Node::<1>::from_registry().await;
                        HandleBox::addr_unknown(addr)
                    }
                    _ => {
                        let addr = Node::<2>::from_registry().await;
                        HandleBox::addr_unknown(addr)
                    }
                };
                emit(format!("ctx {} from_registry_end {} {}", a, k, h));
                POOL.with(|p| p.borrow_mut().insert(*h, hb));
            }
        }
    }
    Ok(())
}

pub fn res_str<T>(r: &hannibal::error::Result<T>) -> String {
    match r {
        Ok(_) => "ok".to_string(),
        Err(e) => format!("err {}", err_kind(e)),
    }
}

pub fn err_kind(e: &hannibal::error::ActorError) -> &'static str {
    use hannibal::error::ActorError::*;
    match e {
        AsyncSendError(_) => "send",
        Canceled(_) => "canceled",
        AlreadyStopped => "already_stopped",
        ServiceNotFound => "not_found",
        ServiceStillRunning => "still_running",
        Timeout => "timeout",
    }
}

fn behaviour(a: usize) -> Behaviour {
    BEHAV.with(|b| b.borrow().get(&a).cloned().unwrap_or_default())
}

impl<const K: usize> Actor for Node<K> {
    const NAME: &'static str = "harness::Node";

    async fn started(&mut self, ctx: &mut Context<Self>) -> DynResult<()> {
        let b = behaviour(self.id);
        let inc = self.inc;
        let script = if b.started.is_empty() {
            vec![]
        } else {
            b.started[inc.min(b.started.len() - 1)].clone()
        };
        self.inc += 1;
        STARTS.with(|m| m.borrow_mut().insert(self.id, self.inc));
        crate::prog::CTXMAP.with(|m| m.borrow_mut().insert(hannibal::verif::ctx_id(ctx), self.id));
        let g = CbGuard::begin(self.id, self.birth, "started -".to_string());
        match run_script(self, ctx, &script).await {
            Ok(()) => {
                g.end(true);
                Ok(())
            }
            Err(()) => {
                g.end(false);
                Err("scripted start failure".into())
            }
        }
    }

    async fn stopped(&mut self, ctx: &mut Context<Self>) {
        let b = behaviour(self.id);
        let g = CbGuard::begin(self.id, self.birth, "stopped -".to_string());
        let _ = run_script(self, ctx, &b.stopped).await;
        self.stopped_seen = true;
        g.end(true);
    }
}

impl<const K: usize> RestartableActor for Node<K> {}
impl<const K: usize> Service for Node<K> {}

impl<const K: usize> Handler<Req> for Node<K> {
    async fn handle(&mut self, ctx: &mut Context<Self>, msg: Req) -> Reply {
        let g = CbGuard::begin(self.id, self.birth, format!("handle {}", msg.m));
        self.log.push(msg.m);
        let _ = run_script(self, ctx, &msg.script).await;
        self.done.push(msg.m);
        let r = Reply { m: msg.m, actor: self.id, birth: self.birth, digest: self.digest() };
        g.end(true);
        r
    }
}

impl<const K: usize> Handler<Note> for Node<K> {
    async fn handle(&mut self, ctx: &mut Context<Self>, msg: Note) {
        let g = CbGuard::begin(self.id, self.birth, format!("handle {}", msg.m));
        self.log.push(msg.m);
        let _ = run_script(self, ctx, &msg.script).await;
        self.done.push(msg.m);
        g.end(true);
    }
}

impl<const K: usize> Handler<()> for Node<K> {
    async fn handle(&mut self, ctx: &mut Context<Self>, _msg: ()) {
        let bnum = UNITQ.with(|q| q.borrow_mut().get_mut(&self.id).and_then(|q| q.pop_front())).unwrap_or(0);
        let m = fresh_msg();
        emit(format!("bcast {} {} {} {}", self.id, 9, bnum, m));
        let b = behaviour(self.id);
        let g = CbGuard::begin(self.id, self.birth, format!("handle {}", m));
        self.log.push(m);
        let _ = run_script(self, ctx, &b.tick).await;
        self.done.push(m);
        g.end(true);
    }
}

impl<const K: usize> Handler<Tick> for Node<K> {
    async fn handle(&mut self, ctx: &mut Context<Self>, msg: Tick) {
        let m = fresh_msg();
        emit(format!("tick {} {} {}", self.id, msg.t, m));
        let b = behaviour(self.id);
        let g = CbGuard::begin(self.id, self.birth, format!("handle {}", m));
        self.log.push(m);
        let _ = run_script(self, ctx, &b.tick).await;
        self.done.push(m);
        g.end(true);
    }
}

impl<const K: usize, const J: usize> Handler<Bcast<J>> for Node<K> {
    async fn handle(&mut self, ctx: &mut Context<Self>, msg: Bcast<J>) {
        let m = fresh_msg();
        emit(format!("bcast {} {} {} {}", self.id, J, msg.b, m));
        let b = behaviour(self.id);
        let g = CbGuard::begin(self.id, self.birth, format!("handle {}", m));
        self.log.push(m);
        let _ = run_script(self, ctx, &b.tick).await;
        self.done.push(m);
        g.end(true);
    }
}

impl<const K: usize, const J: usize> Handler<Topic<J>> for Node<K> {
    async fn handle(&mut self, ctx: &mut Context<Self>, msg: Topic<J>) {
        let m = fresh_msg();
        emit(format!("deliver {} {} {} {}", self.id, J, msg.m, m));
        let b = behaviour(self.id);
        let g = CbGuard::begin(self.id, self.birth, format!("handle {}", m));
        self.log.push(m);
        let _ = run_script(self, ctx, &b.tick).await;
        self.done.push(m);
        g.end(true);
    }
}

impl<const K: usize> StreamHandler<Item> for Node<K> {
    async fn handle(&mut self, ctx: &mut Context<Self>, msg: Item) {
        let b = behaviour(self.id);
        let g = CbGuard::begin(self.id, self.birth, format!("item {}", msg.0));
        self.log.push(200000 + msg.0);
        let _ = run_script(self, ctx, &b.item).await;
        g.end(true);
    }

    async fn finished(&mut self, ctx: &mut Context<Self>) {
        let b = behaviour(self.id);
        let g = CbGuard::begin(self.id, self.birth, "finished -".to_string());
        let _ = run_script(self, ctx, &b.finished).await;
        g.end(true);
    }
}
